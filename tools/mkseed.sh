#!/bin/sh
# tools/mkseed.sh <ID> [suffix]: create a scratch worktree /tmp/seed_<ID><suffix> with TASK.md for an independent breaker
ID=$1; SFX=$2; W=/tmp/seed_${ID}${SFX}
git -C /repo worktree add -q --detach $W HEAD || exit 1
python3 - "$ID" "$W" <<'PY'
import json,sys
pid,w=sys.argv[1],sys.argv[2]
for l in open('/verif/properties.jsonl'):
    p=json.loads(l)
    if p['id']==pid: break
t=open('/verif/tools/seed_prompt.txt').read()
prop='"%s: %s" (relevant files: %s; mechanisms: %s)'%(p['title'],p['statement'],', '.join(p['anchors']['files']),'; '.join('%s [%s]'%(m['name'],m['where']) for m in p['anchors'].get('mechanism',[])))
t=t.replace('WORKTREE',w).replace('PROPERTY',prop).replace('demo_ID.py','demo_%s.py'%pid)
open(w+'/TASK.md','w').write(t)
PY
echo $W
