#!/usr/bin/env python3
"""Regenerate MANIFEST.json from levels.json (claimed checks) and na.json (not-applicable reasons)."""
import json, os
here = os.path.dirname(os.path.dirname(os.path.abspath(__file__)))
levels = json.load(open(os.path.join(here, "levels.json")))
ld = os.path.join(here, "levels.d")
if os.path.isdir(ld):
    ready = set(json.load(open(os.path.join(here, "claimed.json"))))   # overlay entries released for claiming
    for f in sorted(os.listdir(ld)):
        if f.endswith(".json") and f[:-5] in ready:
            levels[f[:-5]] = json.load(open(os.path.join(ld, f)))
na = json.load(open(os.path.join(here, "na.json")))
props = [json.loads(l)["id"] for l in open(os.path.join(here, "properties.jsonl"))]
checks = []
napp = []
for pid in props:
    if pid in levels:
        L = levels[pid]
        checks.append({
            "property_id": pid,
            "quick_cmd": "./check %s --tier quick" % pid,
            "thorough_cmd": "./check %s --tier thorough" % pid,
            "evidence_file": "evidence/%s.json" % pid,
            "replay_cmd_template": "./check %s --replay {path}" % pid,
            "engine": "pyvc",
            "level_claimed": {"category": L["level"], "text": L["text"], "design_ref": L.get("design_ref", "DESIGN.md section 4 %s" % pid)},
            "level_note": L["note"],
            "technique": L.get("technique", "contract-based deductive verification: VCs generated from the real Python AST against sidecar contracts, discharged by z3/cvc5"),
        })
    else:
        napp.append({"property_id": pid, "reason": na.get(pid, "not reached: no contract within the engine's reach has been built for this property yet")})
m = {
    "version": 1,
    "setup_cmd": "python3-vt -B -m pyvc.selftest",
    "hooks": {"guard": "IOFLO_VERIF", "enable": "no hooks: the verifier reads the source under /repo; replays drive the real functions through their public parameters with scripted doubles",
              "baseline_off_cmd": "cd /repo && /venv/bin/python -m pytest -ra -q -p no:cacheprovider --timeout=900 --continue-on-collection-errors",
              "source_commits": [], "add_only": True},
    "engines": [{"name": "pyvc", "path": "pyvc/", "serves_properties": [c["property_id"] for c in checks],
                 "kind_free_text": "verification-condition generator over the real Python AST (path-wise symbolic execution, heap of per-attribute arrays, loop invariants, modular calls against sidecar contracts) discharging to z3 5.1.0 with cvc5 1.0.3 / z3 4.8.12 fall-back; canaries, CPython cross-check, counterexample replay on the real code, seeded mutants"}],
    "checks": checks,
    "not_applicable": napp,
    "notes": "Exit codes of ./check: 0 held, 1 violation (VIOLATION line + replay file), 2 undecided (never reported as violation), 3 checker error. See DESIGN.md.",
}
json.dump(m, open(os.path.join(here, "MANIFEST.json"), "w"), indent=1)
print("checks:", len(checks), "not_applicable:", len(napp))
