"""Seeded-mutant self-test against a REPAIRED base tree (a scratch copy that carries a repair not yet committed) and
with proposed known findings merged in:  every mutant of mutants/<ID>.json is applied to a copy of <base>/ioflo and
must turn the check from exit 0 into exit 1 with a VIOLATION line.

    python3-vt -B tools/mutants_on_base.py C33 --base /tmp/scratch [--findings findings/x.json] [--only id,id] [--jobs N]
"""
import argparse
import json
import os
import shutil
import subprocess
import sys
import tempfile
from concurrent.futures import ThreadPoolExecutor

HERE = os.path.dirname(os.path.dirname(os.path.abspath(__file__)))


def run_check(prop, root, findings, jobs):
    cmd = [sys.executable, "-B", os.path.join(HERE, "tools", "check_proposed.py")] + findings + \
          [prop, "--root", root, "--no-evidence", "--jobs", str(jobs)]
    env = dict(os.environ)
    env["PYVC_REPLAY_DIR"] = os.path.join(root, "replay")
    p = subprocess.run(cmd, capture_output=True, text=True, cwd=HERE, timeout=3600, env=env)
    return p.returncode, p.stdout


def one(prop, base, m, findings, jobs):
    scratch = tempfile.mkdtemp(prefix="pyvc-mutb-")
    try:
        shutil.copytree(os.path.join(base, "ioflo"), os.path.join(scratch, "ioflo"),
                        ignore=shutil.ignore_patterns("__pycache__", "*.pyc", "test"))
        path = os.path.join(scratch, m["file"])
        text = open(path).read()
        parts = text.split(m["search"])
        idx = m.get("occurrence", 0)
        if len(parts) < 2 or idx >= len(parts) - 1:
            return m["id"], None, "search text not found"
        text = m["search"].join(parts[:idx + 1]) + m["replace"] + m["search"].join(parts[idx + 1:])
        open(path, "w").write(text)
        rc, out = run_check(prop, scratch, findings, jobs)
        failed = [l.strip()[19:] for l in out.splitlines() if l.strip().startswith("failed obligation")]
        killed = rc == 1 and "VIOLATION" in out
        repro = [l for l in out.splitlines() if l.startswith("VIOLATION") and "no-failing-input-found" not in l]
        return m["id"], killed, {"exit": rc, "failed": failed[:2], "reproduced_natively": len(repro),
                                 "tail": [] if killed else out.strip().splitlines()[-4:]}
    finally:
        shutil.rmtree(scratch, ignore_errors=True)


def main():
    ap = argparse.ArgumentParser()
    ap.add_argument("prop")
    ap.add_argument("--base", required=True)
    ap.add_argument("--findings", action="append", default=[])
    ap.add_argument("--only", default="")
    ap.add_argument("--jobs", type=int, default=4)
    ap.add_argument("--par", type=int, default=3)
    a = ap.parse_args()
    cat = json.load(open(os.path.join(HERE, "mutants", "%s.json" % a.prop)))
    if a.only:
        cat = [m for m in cat if m["id"] in a.only.split(",")]
    rc, out = run_check(a.prop, a.base, a.findings, a.jobs * 2)
    print("baseline on %s: exit %d  %s" % (a.base, rc, out.strip().splitlines()[0] if out.strip() else ""))
    if rc != 0:
        print(out[-3000:])
        print("baseline is not green: mutant kills would be meaningless")
        return 3
    res = []
    with ThreadPoolExecutor(max_workers=a.par) as ex:
        for r in ex.map(lambda m: one(a.prop, a.base, m, a.findings, a.jobs), cat):
            res.append(r)
            print("%-28s %s %s" % (r[0], "KILLED" if r[1] else ("INVALID" if r[1] is None else "SURVIVED"), r[2]))
            sys.stdout.flush()
    surv = [r[0] for r in res if not r[1]]
    print("total %d killed %d survivors/invalid %s" % (len(res), len(res) - len(surv), surv))
    return 0 if not surv else 1


if __name__ == "__main__":
    sys.exit(main())
