#!/bin/sh
# tools/try_seed.sh <PROP> <worktree> [check-props...]: confirm a seeded change and run the checks against it
P=$1; W=$2; shift 2; CHECKS=${@:-$P}
D=/verif/seeded/$P$(basename $W | sed "s/^seed_$P//"); mkdir -p $D
cp $W/patch.diff $D/patch.diff; cp $W/demo_$P.py $D/demo_$P.py
echo "== demo with the change applied (expect non-zero)"
(cd $W && PYTHONPATH=$W /venv/bin/python demo_$P.py > $D/demo_changed.out 2>&1; echo "exit=$?" | tee -a $D/demo_changed.out; tail -3 $D/demo_changed.out)
echo "== demo on the original code (expect 0)"
(cd $W && git stash -q -- ioflo && PYTHONPATH=$W /venv/bin/python demo_$P.py > $D/demo_orig.out 2>&1; echo "exit=$?" | tee -a $D/demo_orig.out; git stash pop -q)
echo "== existing tests with the change (expect 123 passed, 5 known failures)"
(cd $W && unshare -n sh -c "ip link set lo up; PYTHONPATH=$W /venv/bin/python -m pytest -q -p no:cacheprovider --timeout=900 --continue-on-collection-errors" 2>&1 | tail -1 | tee $D/tests.out)
echo "== checks against the change (scratch copy of /repo with the patch applied; /repo itself is not touched so that
#  concurrent work is not disturbed; pass --in-repo as first check name to apply it to /repo instead)"
S=$(mktemp -d /tmp/seedroot.XXXXXX)
cp -r /repo/ioflo $S/ioflo && (cd $S && git init -q . && git apply --unsafe-paths -p1 $D/patch.diff 2>/dev/null || patch -p1 -s < $D/patch.diff) || { echo "patch does not apply"; rm -rf $S; exit 2; }
for c in $CHECKS; do
  (cd /verif && PYTHONDONTWRITEBYTECODE=1 ./check $c --no-evidence --root $S > $D/check_$c.out 2>&1; echo "check $c exit=$?" | tee -a $D/check_$c.out; grep -E "^VIOLATION|failed obligation|UNDECIDED|CHECKER" $D/check_$c.out | head -6)
done
rm -rf $S
