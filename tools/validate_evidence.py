#!/usr/bin/env python3
"""Validate every evidence/<id>.json against the evidence schema (copy in tools/EVIDENCE.schema.json).
Run with python3-vt (jsonschema is in the tooling venv).  Exit 1 if any file is missing or invalid."""
import json, os, sys
import jsonschema
here = os.path.dirname(os.path.dirname(os.path.abspath(__file__)))
schema = json.load(open(os.path.join(here, "tools", "EVIDENCE.schema.json")))
man = json.load(open(os.path.join(here, "MANIFEST.json")))
bad = 0
for c in man["checks"]:
    p = os.path.join(here, c["evidence_file"])
    if not os.path.exists(p):
        print("MISSING", c["evidence_file"]); bad += 1; continue
    ev = json.load(open(p))
    errs = list(jsonschema.Draft202012Validator(schema).iter_errors(ev))
    if ev.get("level") != c["level_claimed"]["category"]:
        errs.append("level %r != claimed %r" % (ev.get("level"), c["level_claimed"]["category"]))
    if ev.get("level") == "other" and not str(ev["coverage"].get("explanation", "")).strip():
        errs.append("coverage.explanation empty for level other")
    if ev.get("level") == "proof" and ev["coverage"].get("obligations") != ev["coverage"].get("discharged"):
        errs.append("proof level with discharged != obligations")
    print(c["property_id"], "ok" if not errs else "INVALID: %s" % "; ".join(getattr(e, "message", str(e))[:200] for e in errs))
    bad += bool(errs)
sys.exit(1 if bad else 0)
