#!/bin/sh
# run every claimed check (quick tier) and print one line per property
cd "$(dirname "$0")/.." || exit 3
for p in $(python3 -c "import json;print(' '.join(c['property_id'] for c in json.load(open('MANIFEST.json'))['checks']))"); do
  out=$(./check "$p" --tier "${1:-quick}" 2>&1); rc=$?
  echo "$p exit=$rc $(echo "$out" | grep '^property' | cut -c1-160)"
  [ $rc -ne 0 ] && echo "$out" | grep -v '^property' | head -5
done
