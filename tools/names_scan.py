"""tree-wide scan for names bound in no scope (pyvc/names.py): python3-vt -B tools/names_scan.py  (diagnostic, not a registered check)"""
import sys
sys.path.insert(0,'/verif')
from pyvc.source import Repo, all_repo_files
from pyvc import names
repo=Repo('/repo')
tot=0
for rel in sorted(all_repo_files('/repo')):
    if '/test/' in rel or rel.endswith('optimizing.py') or '/demo/' in rel: continue
    try: m=repo.module(rel)
    except Exception as ex: print("skip",rel,ex); continue
    mn=None
    for q,fn in m.functions.items():
        try: hits=names.unbound_names(repo, rel, fn)
        except Exception as ex: print("ERR",rel,q,repr(ex)[:100]); continue
        for h in hits:
            tot+=1; print(rel,q,h)
print("total",tot)
