"""Run ./check with PROPOSED known-finding entries merged in (known_findings.json itself is never written).

    python3-vt -B tools/check_proposed.py findings/c33_proposed_known_findings.json C33 --root /tmp/scratch ...

Used to show what a check prints once a proposed entry is adopted, and by tools/mutants_on_base.py.
"""
import json
import os
import sys

HERE = os.path.dirname(os.path.dirname(os.path.abspath(__file__)))
sys.path.insert(0, HERE)


def main():
    extra = []
    args = sys.argv[1:]
    while args and args[0].endswith(".json"):
        with open(args[0] if os.path.isabs(args[0]) else os.path.join(HERE, args[0])) as f:
            extra += json.load(f).get("findings", [])
        args = args[1:]
    from pyvc import report, run
    base = report._load_findings

    def merged():
        d = base()
        ids = set(f.get("id") for f in d.get("findings", []))
        d = dict(d)
        d["findings"] = list(d.get("findings", [])) + [f for f in extra if f.get("id") not in ids]
        return d
    report._load_findings = merged
    return run.main(args)


if __name__ == "__main__":
    sys.exit(main())
