"""C44 point-in-polygon: tween2 / wind / inside / insideOnly / outside / outsideOnly / sideOnly and their helpers
sub / dot / mag2 / trip / cw (right) / ccw (left)  (ioflo/aid/vectoring.py)

Domain.  A point is an integer 2-tuple, a polygon a list of integer 2-tuples of ARBITRARY (symbolic) length,
closed implicitly: edge k runs from vs[k] to vs[succ(k)], succ(k) = 0 if k + 1 == len(vs) else k + 1.  Integer
arithmetic is exact, so every clause below is exact geometry.  The real functions slice `p[:2]`, `vs[i][:2]` and so
also accept longer points; only Tup(INT, INT) is covered (a third coordinate would take part in `p in vs`, sub, dot
and so in tween2, which is then no longer the planar test; not claimed).

Specification (written from the mathematical definitions, NOT from the operators of the code):

  on_seg(p, u, v)     p lies on the closed segment [u, v].  Quantifier-free exact form: u == v ? p == u :
                      cross(p-u, v-u) == 0 and 0 <= (p-u).(v-u) <= (v-u).(v-u).  The lemmas `on-seg/...` prove, over
                      the REALS (hence for the integers), that this is equivalent to the parametric definition
                      exists t in [0,1]: p == u + t (v-u), both directions.
  crossing(p, a, b)   signed crossing of the directed edge a->b with the open ray {(x, p.y): x > p.x} under the
                      half-open height rule:  +1 if a.y <= p.y < b.y (upward edge) and p strictly left of a->b,
                      -1 if b.y <= p.y < a.y (downward edge) and p strictly right of a->b, else 0.  The lemmas
                      `crossing/...` prove (reals) that "strictly left/right" is, under the height rule, exactly
                      "the edge point at height p.y lies strictly to the right of p" (ray hit), both directions.
  W(p, vs, k)         sum of crossing(p, vs[j], vs[succ(j)]) over the first k edges: an uninterpreted function
                      that every use unfolds one level (W(0) = 0, W(k) = W(k-1) + crossing of edge k-1).
  is_vertex(p, vs)    exists k < len(vs): vs[k] == p          (pointwise; `p in vs` of the code is this existential)
  on_some_edge(p, vs) exists k < len(vs): on_seg(p, vs[k], vs[succ(k)])
  on_boundary(p, vs)  is_vertex or on_some_edge
on_seg is a defined symbol (pip_on_seg := the exact form above); its definition is unfolded only in the
verification of tween2, every other function meets it through tween2's contract (no non-linear arithmetic there).
The native twins (.native) are independent references: rational parameter t for on_seg, rational intersection
abscissa of edge and ray for crossing / W; both writings are compared on seeded samples at import.

Post-conditions (from the property statement): tween2 == on_seg; wind == 0 on the boundary else W(len) and hence
wind == 0 exactly for boundary points and points of zero crossing number; inside(side) == side on the boundary
else W != 0; outside(side) == side on the boundary else W == 0; insideOnly / outsideOnly: the same with the
boundary excluded; sideOnly == on_boundary.  The four thin wrappers are verified MODULARLY against the contract
of inside / outside; wind, inside and sideOnly by loop invariants (no unrolling bound).

ASSUMED MATHEMATICS (not proved here): for a SIMPLE polygon the signed ray-crossing number W(p, vs, len(vs)) of a
point off the boundary is non-zero exactly when the point is in the topological interior (Jordan curve theorem;
it is +1 / -1 for counter-clockwise / clockwise polygons).  All clauses are proved relative to W for EVERY vertex
list (simple or not, degenerate or empty); the link from W to "topologically inside" is the assumption.
"""
from pyvc.api import *
import z3

F = "ioflo/aid/vectoring.py"
P2 = Tup(INT, INT)
POLY = List(P2)


# ------------------------------------------------------------------ the specification (generic over Int / Real terms)
def _cross(ax, ay, bx, by):
    return ax * by - ay * bx


def _dot(ax, ay, bx, by):
    return ax * bx + ay * by


def f_on_seg(px, py, ux, uy, vx, vy):
    ax, ay = px - ux, py - uy
    bx, by = vx - ux, vy - uy
    dab = _dot(ax, ay, bx, by)
    return z3.If(z3.And(ux == vx, uy == vy),
                 z3.And(px == ux, py == uy),
                 z3.And(_cross(ax, ay, bx, by) == 0, 0 <= dab, dab <= _dot(bx, by, bx, by)))


def f_left_of(px, py, ax, ay, bx, by):
    """> 0: p strictly left of the directed line a->b; < 0: strictly right; 0: on the line"""
    return _cross(bx - ax, by - ay, px - ax, py - ay)


def f_crossing(px, py, ax, ay, bx, by):
    s = f_left_of(px, py, ax, ay, bx, by)
    up = z3.And(ay <= py, py < by, s > 0)
    down = z3.And(by <= py, py < ay, s < 0)
    return z3.If(up, z3.IntVal(1), z3.If(down, z3.IntVal(-1), z3.IntVal(0)))


def _xy(pt):
    if not isinstance(pt, tuple) or len(pt) != 2:
        raise Unsupported("C44 specification covers 2-tuples only: %r" % (pt,))
    return zint(pt[0]), zint(pt[1])


_IA = z3.ArraySort(z3.IntSort(), z3.IntSort())
_W = z3.Function("pip_W", z3.IntSort(), z3.IntSort(), _IA, _IA, z3.IntSort(), z3.IntSort(), z3.IntSort())


def _poly(E, vs):
    xs, ys = E.larrs(vs)
    return xs, ys, E.llen(vs)


def _succ(k, n):
    return z3.If(k + 1 == n, z3.IntVal(0), k + 1)


def _mentions_bound(t):
    """does the term mention a quantifier-bound variable of the clause translator (named x!b<n>)?"""
    seen, stack = set(), [t]
    while stack:
        x = stack.pop()
        if x.get_id() in seen:
            continue
        seen.add(x.get_id())
        if z3.is_quantifier(x):
            stack.append(x.body())
        elif z3.is_app(x):
            if x.num_args() == 0 and x.decl().kind() == z3.Z3_OP_UNINTERPRETED and "!b" in x.decl().name():
                return True
            stack.extend(x.children())
    return False


def _define(E, fact):
    """add one instance of a DEFINITION (pip_W / pip_on_seg) to the path: what Engine.assume does, with its
    guard (facts about quantifier-bound variables are not path facts) decided by a DAG walk instead of printing"""
    key = fact.get_id()
    if key in E.assumed or (E.spec and _mentions_bound(fact)):
        return
    E.assumed.add(key)
    E.pc.append(fact)


# on_seg as a DEFINED symbol: pip_on_seg(p, u, v) := f_on_seg(p, u, v).  The definition is unfolded (instance by
# instance) only where the code computes the predicate itself (tween2); wind / inside / sideOnly and the wrappers
# reach it through tween2's contract and use the symbol without unfolding it (a generalisation: what is proved with
# the symbol left uninterpreted holds for its definition).
_ONSEG = z3.Function("pip_on_seg", *([z3.IntSort()] * 6 + [z3.BoolSort()]))
UNFOLD_ON_SEG = ("tween2",)


def _edge_on(px, py, xs, ys, n, k):
    s = _succ(k, n)
    return _ONSEG(px, py, z3.Select(xs, k), z3.Select(ys, k), z3.Select(xs, s), z3.Select(ys, s))


@specfunc
def on_seg(E, p, u, v):
    args = _xy(p) + _xy(u) + _xy(v)
    t = _ONSEG(*args)
    act = E.reg.active
    if act is not None and act.qual in UNFOLD_ON_SEG:
        _define(E, t == f_on_seg(*args))
    return Sym(t, "bool")


@specfunc
def crossing(E, p, a, b):
    return Sym(f_crossing(*(_xy(p) + _xy(a) + _xy(b))), "int")


@specfunc
def on_edge(E, p, vs, k):
    """p on the closed edge k of the polygon"""
    px, py = _xy(p)
    xs, ys, n = _poly(E, vs)
    return Sym(_edge_on(px, py, xs, ys, n, zint(k)), "bool")


@specfunc
def W(E, p, vs, k):
    """signed crossing number of the first k edges; each use unfolds the recursive definition one level"""
    px, py = _xy(p)
    xs, ys, n = _poly(E, vs)
    kk = z3.simplify(zint(k))
    km = z3.simplify(kk - 1)
    s = _succ(km, n)
    step = f_crossing(px, py, z3.Select(xs, km), z3.Select(ys, km), z3.Select(xs, s), z3.Select(ys, s))
    w = lambda j: _W(px, py, xs, ys, n, j)
    _define(E, z3.Implies(kk == 0, w(kk) == 0))
    _define(E, z3.Implies(kk > 0, w(kk) == w(km) + step))
    return Sym(w(kk), "int")


@specfunc
def is_vertex(E, p, vs):
    px, py = _xy(p)
    xs, ys, n = _poly(E, vs)
    k = z3.Int("k!vx%d" % next(E.counter))
    return Sym(z3.Exists([k], z3.And(0 <= k, k < n, z3.Select(xs, k) == px, z3.Select(ys, k) == py)), "bool")


@specfunc
def on_some_edge(E, p, vs):
    px, py = _xy(p)
    xs, ys, n = _poly(E, vs)
    k = z3.Int("k!ed%d" % next(E.counter))
    return Sym(z3.Exists([k], z3.And(0 <= k, k < n, _edge_on(px, py, xs, ys, n, k))), "bool")


@specfunc
def on_boundary(E, p, vs):
    return Sym(z3.Or(is_vertex(E, p, vs).t, on_some_edge(E, p, vs).t), "bool")


# ------------------------------------------------------------------ native twins: independent exact references
# (rational arithmetic on the parametric / ray-intersection definitions, not on cross-product signs)
def _n_on_seg(p, u, v):
    from fractions import Fraction
    p, u, v = tuple(p[:2]), tuple(u[:2]), tuple(v[:2])
    if u == v:
        return p == u
    bx, by = v[0] - u[0], v[1] - u[1]
    # the only candidate parameter: foot of the perpendicular from p onto the line u v
    t = Fraction((p[0] - u[0]) * bx + (p[1] - u[1]) * by, bx * bx + by * by)
    return 0 <= t <= 1 and u[0] + t * bx == p[0] and u[1] + t * by == p[1]


def _n_crossing(p, a, b):
    """+1 / -1 if the edge a->b crosses the open ray from p towards +x upwards / downwards (half-open in height)"""
    from fractions import Fraction
    (px, py), (ax, ay), (bx, by) = tuple(p[:2]), tuple(a[:2]), tuple(b[:2])
    if ay <= py < by or by <= py < ay:
        x_at = ax + Fraction(py - ay, by - ay) * (bx - ax)      # x of the edge point at height p.y
        if x_at > px:
            return 1 if ay < by else -1
    return 0


def _n_succ(vs, k):
    return 0 if k + 1 == len(vs) else k + 1


def _n_W(p, vs, k):
    return sum(_n_crossing(p, vs[j], vs[_n_succ(vs, j)]) for j in range(k))


def _n_on_edge(p, vs, k):
    return _n_on_seg(p, vs[k], vs[_n_succ(vs, k)])


def _n_is_vertex(p, vs):
    return any(tuple(q) == tuple(p) for q in vs)


def _n_on_some_edge(p, vs):
    return any(_n_on_edge(p, vs, k) for k in range(len(vs)))


on_seg.native = _n_on_seg
crossing.native = _n_crossing
on_edge.native = _n_on_edge
W.native = _n_W
is_vertex.native = _n_is_vertex
on_some_edge.native = _n_on_some_edge
on_boundary.native = lambda p, vs: _n_is_vertex(p, vs) or _n_on_some_edge(p, vs)

# anchor of the specification itself: unit-square style polygons, known answers
_SQ = [(0, 0), (4, 0), (4, 4), (0, 4)]
assert _n_W((2, 2), _SQ, 4) == 1 and _n_W((2, 2), _SQ[::-1], 4) == -1, "ccw / cw square must wind +1 / -1"
assert _n_W((5, 2), _SQ, 4) == 0 and _n_W((-1, 2), _SQ, 4) == 0 and _n_W((2, 9), _SQ, 4) == 0
assert _n_W((2, 3), [(0, 0), (4, 0), (4, 4), (2, 1), (0, 4)], 5) == 0        # concave polygon, above the notch
assert _n_W((2, 2), [(0, 0), (4, 0), (4, 4), (2, 1), (0, 4)], 5) == 0        # inside the notch = outside
assert _n_W((1, 2), [(0, 0), (4, 0), (4, 4), (2, 1), (0, 4)], 5) == 1
assert _n_on_seg((2, 0), (0, 0), (4, 0)) and _n_on_seg((4, 0), (0, 0), (4, 0)) and not _n_on_seg((5, 0), (0, 0), (4, 0))
assert _n_on_seg((1, 1), (0, 0), (3, 3)) and not _n_on_seg((1, 2), (0, 0), (3, 3)) and not _n_on_seg((1, 1), (0, 0), (0, 0))


def _anchor_formulas(samples=150):
    """the z3 forms (cross-product signs) and the independent native references (rational parameters / ray
    intersection) are two writings of the same definitions: compared here on seeded integer samples at import;
    their equivalence over the reals is what the lemmas below prove"""
    import random
    rng = random.Random(44)
    for _ in range(samples):
        c = [rng.randint(-3, 3) for _ in range(6)]
        zc = [z3.IntVal(x) for x in c]
        assert z3.is_true(z3.simplify(f_on_seg(*zc))) == _n_on_seg(c[0:2], c[2:4], c[4:6]), ("on_seg", c)
        assert z3.simplify(f_crossing(*zc)).as_long() == _n_crossing(c[0:2], c[2:4], c[4:6]), ("crossing", c)


_anchor_formulas()


# ------------------------------------------------------------------ lemmas over the reals (both directions)
def _lemmas():
    R = z3.Reals
    px, py, ux, uy, vx, vy, t = R("px py ux uy vx vy t")
    out = []
    bx, by = vx - ux, vy - uy
    param = lambda tt: z3.And(0 <= tt, tt <= 1, px == ux + tt * bx, py == uy + tt * by)
    seg = f_on_seg(px, py, ux, uy, vx, vy)
    # (<=) any parameter t in [0,1] puts p on the segment in the quantifier-free sense
    out.append(("on-seg/parametric-implies-exact", [param(t)], seg))
    # (=>) witness: t = (p-u).(v-u) / (v-u).(v-u)   (0 for the degenerate segment)
    dab = _dot(px - ux, py - uy, bx, by)
    dbb = _dot(bx, by, bx, by)
    wit = z3.If(z3.And(ux == vx, uy == vy), z3.RealVal(0), dab / dbb)
    out.append(("on-seg/exact-implies-parametric(witness)", [seg], param(wit)))
    out.append(("on-seg/exact-implies-parametric(exists)", [seg], z3.Exists([t], param(t))))
    # crossing: under the height rule, strictly left (right) of an upward (downward) edge <=> the edge point at
    # height p.y lies strictly right of p, i.e. the edge meets the open ray from p towards +x
    ax, ay, bx_, by_, s = R("ax ay bx by s")
    hit = lambda ss: z3.And(0 <= ss, ss <= 1, ay + ss * (by_ - ay) == py, ax + ss * (bx_ - ax) > px)
    up = z3.And(ay <= py, py < by_)
    down = z3.And(by_ <= py, py < ay)
    cr = f_crossing(px, py, ax, ay, bx_, by_)
    swit = (py - ay) / (by_ - ay)
    out.append(("crossing/up-ray-hit-implies-plus-one", [up, hit(s)], cr == 1))
    out.append(("crossing/down-ray-hit-implies-minus-one", [down, hit(s)], cr == -1))
    out.append(("crossing/plus-one-implies-up-ray-hit(witness)", [cr == 1], z3.And(up, hit(swit), swit < 1)))
    out.append(("crossing/minus-one-implies-down-ray-hit(witness)", [cr == -1], z3.And(down, hit(swit), swit > 0)))
    out.append(("crossing/no-height-overlap-or-no-hit-implies-zero",
                [z3.Or(z3.And(z3.Not(up), z3.Not(down)), z3.ForAll([s], z3.Not(hit(s))))], cr == 0))
    out.append(("crossing/range", [], z3.Or(cr == -1, cr == 0, cr == 1)))
    return out


for _name, _pc, _goal in _lemmas():
    REG.lemmas.append(("C44", _name, _pc, _goal))


# ------------------------------------------------------------------ native input generation
def _pt(rng, lo=-4, hi=4):
    return (rng.randint(lo, hi), rng.randint(lo, hi))


_SHAPES = [
    [(0, 0), (4, 0), (4, 4), (0, 4)],                       # ccw square
    [(0, 4), (4, 4), (4, 0), (0, 0)],                       # cw square
    [(0, 0), (4, 0), (0, 4)],                               # triangle with a diagonal edge
    [(0, 0), (4, 0), (4, 4), (2, 1), (0, 4)],               # concave
    [(-3, -1), (0, -3), (3, -1), (2, 3), (-2, 3)],          # convex pentagon
    [(0, 0), (2, 0), (4, 0), (4, 2), (4, 4), (0, 4)],       # collinear consecutive vertices
    [(0, 0), (4, 4), (4, 0), (0, 4)],                       # bow-tie (not simple)
    [(0, 0), (0, 0), (3, 0), (3, 3)],                       # repeated vertex (degenerate edge)
    [(1, 1)], [(0, 0), (3, 2)], [],
]


def _poly_pt(rng, i, cex):
    if cex and cex.get("params"):
        pr = cex["params"]
        try:
            vs = [tuple(int(c) for c in it) for it in (pr.get("vs") or {}).get("items", [])]
            p = tuple(int(c) for c in pr.get("p"))
            if len(vs) == (pr.get("vs") or {}).get("len") and len(p) == 2:
                return p, vs
        except Exception:
            pass
    if i < 4 * len(_SHAPES):
        vs = list(_SHAPES[i % len(_SHAPES)])
    else:
        n = rng.choice([0, 1, 2, 3, 3, 4, 4, 5, 6, 8])
        vs = [_pt(rng) for _ in range(n)]
    r = rng.random()
    if vs and r < 0.2:
        p = rng.choice(vs)                                  # a vertex
    elif vs and r < 0.45:
        k = rng.randrange(len(vs))                          # a lattice point of an edge (or near it)
        a, b = vs[k], vs[(k + 1) % len(vs)]
        from math import gcd
        g = gcd(abs(b[0] - a[0]), abs(b[1] - a[1])) or 1
        m = rng.randint(-1, g + 1)
        p = (a[0] + (b[0] - a[0]) // g * m, a[1] + (b[1] - a[1]) // g * m)
    else:
        p = _pt(rng, -5, 5)
    return p, vs


def _mk_poly(rng, i, cex, nr):
    p, vs = _poly_pt(rng, i, cex)
    env = {"p": p, "vs": vs}
    if "side" in nr.params:
        env["side"] = bool(rng.randint(0, 1))
        if cex and isinstance((cex.get("params") or {}).get("side"), bool):
            env["side"] = cex["params"]["side"]
    return env


def _mk_seg(rng, i, cex, nr):
    if cex and cex.get("params"):
        try:
            return {k: tuple(int(c) for c in cex["params"][k]) for k in ("p", "u", "v")}
        except Exception:
            pass
    u = _pt(rng)
    v = u if rng.random() < 0.15 else _pt(rng)
    r = rng.random()
    if r < 0.5:
        from math import gcd
        g = gcd(abs(v[0] - u[0]), abs(v[1] - u[1])) or 1
        m = rng.randint(-2, g + 2)
        p = (u[0] + (v[0] - u[0]) // g * m, u[1] + (v[1] - u[1]) // g * m)
    else:
        p = _pt(rng, -6, 6)
    return {"p": p, "u": u, "v": v}


# ------------------------------------------------------------------ helper contracts (2-vectors of ints)
contract(F, "sub", "C44", params=dict(u=P2, v=P2), returns=P2,
         ensures=["result[0] == u[0] - v[0]", "result[1] == u[1] - v[1]", "len(result) == 2"], replay="pure")
contract(F, "dot", "C44", params=dict(u=P2, v=P2), returns=INT,
         ensures=["result == u[0] * v[0] + u[1] * v[1]"], replay="pure")
contract(F, "mag2", "C44", params=dict(v=P2), returns=INT,
         ensures=["result == v[0] * v[0] + v[1] * v[1]"], replay="pure")
contract(F, "trip", "C44", params=dict(u=P2, v=P2), returns=INT,
         ensures=["result == u[0] * v[1] - u[1] * v[0]"], replay="pure")
# v strictly left (ccw) / right (cw) of u  <=>  z-component of u x v positive / negative
contract(F, "ccw", "C44", params=dict(u=P2, v=P2), returns=BOOL,
         ensures=["iff(result, u[0] * v[1] - u[1] * v[0] > 0)"], replay="pure")
contract(F, "cw", "C44", params=dict(u=P2, v=P2), returns=BOOL,
         ensures=["iff(result, u[0] * v[1] - u[1] * v[0] < 0)"], replay="pure")

# ------------------------------------------------------------------ tween2: closed segment membership
contract(F, "tween2", "C44", params=dict(p=P2, u=P2, v=P2), returns=BOOL,
         ensures=["iff(result, on_seg(p, u, v))"], replay=dict(make=_mk_seg, count=1500))

# ------------------------------------------------------------------ wind / inside / sideOnly: loops over the edges
NO_EDGE_SO_FAR = "forall(lambda j: implies(0 <= j and j < _i, not on_edge(p, vs, j)))"
LOOP_W = {0: dict(inv=["w == W(p, vs, _i)", NO_EDGE_SO_FAR, "not is_vertex(p, vs)"])}

contract(F, "wind", "C44", params=dict(p=P2, vs=POLY), returns=INT, loops=LOOP_W,
         ensures=["result == (0 if on_boundary(p, vs) else W(p, vs, len(vs)))",
                  # the winding number is zero exactly for points on the boundary or with zero crossing number (outside)
                  "iff(result == 0, on_boundary(p, vs) or W(p, vs, len(vs)) == 0)"],
         replay=dict(make=_mk_poly, count=1500))

contract(F, "inside", "C44", params=dict(p=P2, vs=POLY, side=BOOL), returns=BOOL, loops=LOOP_W,
         ensures=["iff(result, side if on_boundary(p, vs) else W(p, vs, len(vs)) != 0)"],
         replay=dict(make=_mk_poly, count=1500))

contract(F, "sideOnly", "C44", params=dict(p=P2, vs=POLY), returns=BOOL,
         loops={0: dict(inv=[NO_EDGE_SO_FAR, "not is_vertex(p, vs)"])},
         ensures=["iff(result, on_boundary(p, vs))"],
         replay=dict(make=_mk_poly, count=1500))

# ------------------------------------------------------------------ thin wrappers, modular against inside / outside
contract(F, "insideOnly", "C44", params=dict(p=P2, vs=POLY), returns=BOOL,
         ensures=["iff(result, not on_boundary(p, vs) and W(p, vs, len(vs)) != 0)"],
         replay=dict(make=_mk_poly, count=1000))

contract(F, "outside", "C44", params=dict(p=P2, vs=POLY, side=BOOL), returns=BOOL,
         ensures=["iff(result, side if on_boundary(p, vs) else W(p, vs, len(vs)) == 0)"],
         replay=dict(make=_mk_poly, count=1000))

contract(F, "outsideOnly", "C44", params=dict(p=P2, vs=POLY), returns=BOOL,
         ensures=["iff(result, not on_boundary(p, vs) and W(p, vs, len(vs)) == 0)"],
         replay=dict(make=_mk_poly, count=1000))

REG.assume_note("C44 assumed mathematics (Jordan curve theorem, not proved): for a simple polygon and a point off its "
                "boundary the signed ray-crossing number W(p, vs, len(vs)) is non-zero exactly for points of the "
                "topological interior; every C44 clause is proved relative to W. Points/vertices are integer "
                "2-tuples (the code's [:2] slicing also admits longer points: not covered).")
