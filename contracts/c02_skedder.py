"""C02 scheduler tick / C03 stop and abort sweep: Skedder.addReadyTask, Skedder.run (ioflo/base/skedding.py),
House.orderTaskables (ioflo/base/housing.py).

Skedder.run is ONE function: two nested setup loops, `while True:` with the tick loop
`for i in range(len(ready))` inside try/except, and the `finally:` abort sweep.  It is verified twice from the
same source text: variant [v0] carries C02 (setup, tick rule, stamp), variant [v1] carries C03 (the `more`
flag, the exit conditions, the sweep, the exceptional routes).  Both variants use the same loop invariants
for the queue; [v1] adds the clauses about `more` and explores the path on which the local `status` is still
unbound (see FINDINGS below); [v0] treats `status` as bound at the head of the tick loop.

Model
  .ready / .aborted   deque of (tasker, retime, period)                 List(Tup(Ref TaskerS, REAL, REAL))
  tasker.runner.send  DEMONIC external (assumed): any new desire / period / status for ALL taskers (bids made by
                      actions), then returns any int status, or raises StopIteration, Exception, KeyboardInterrupt or
                      SystemExit.  It cannot touch skedder.ready / .aborted / .stamp, any store stamp, or which
                      object a deque entry refers to.  Every call is appended to the ghost call trace as
                      ('send', receiver tasker, control); the ghost g_des[j] is the value of that tasker's .desire
                      read from the heap at the moment of the call.
  store.changeStamp   opaque: store.stamp := stamp (the time / date shares it also updates are not modelled)
  timers, time.sleep  opaque (time.sleep may raise KeyboardInterrupt: Ctrl-C between ticks in real-time mode); a
                      KeyboardInterrupt may also be raised at the tick boundary (first statement inside the try)

Ghost state of one tick (created when the tick loop is entered; j = position in the queue at the start of the tick):
  g_R0, g_A0   snapshots of ready / aborted           g_base  length of the call trace
  g_out[j]     0 entry not run, 1 run and re-appended, 2 run and returned ABORTED, 3 runner raised StopIteration
  g_st[j]      tasker.status (not run) or the status returned by the send (run)
  g_per[j]     that tasker's .period read right AFTER its send      g_des[j]  its .desire at the send
  g_k/g_d/g_a  prefix counts: number of j' < j that were kept in ready / sent to / moved to aborted
so that `ready` during the tick is  R0[i:] ++ [kept entries of R0[:i] in order]  with the kept entry of j at position
(m - i) + g_k[j], the sends of the tick are the trace positions g_base + g_d[j] (one per run entry, in queue order) and
the aborted entries sit at len(A0) + g_a[j].

FINDINGS (C03, decided from the statement, confirmed natively, see findings/c03_*.py)
  * a tasker whose send raises (or is interrupted) in the tick body has already been popped from `ready`: it is
    not sent ABORT by the sweep (clause swept_abort(...)).
  * after `except StopIteration` the local `status` is stale (value of the previously handled entry, possibly of
    the previous tick) or unbound (first run of the whole scheduler run): `more` can become True although no tasker
    of the tick is started or running, or UnboundLocalError escapes.
"""
from pyvc.api import *
from pyvc.engine import PyRaise
from contracts.lib import *
import collections as _collections
import time as _time
import z3

FS = "ioflo/base/skedding.py"
FH = "ioflo/base/housing.py"
STOP, START, RUN, ABORT, READY = 0, 1, 2, 3, 4            # globaling.py (control and status codes coincide)
STOPPED, STARTED, RUNNING, ABORTED = 0, 1, 2, 3
ACTIVE = 1

ENT = Tup(Ref("TaskerS"), REAL, REAL)
LT = List(Ref("TaskerS"))
classdecl("StoreS", fields=dict(stamp=REAL))
classdecl("TimerS", fields={})
classdecl("TaskerS", fields=dict(desire=INT, status=INT, period=REAL, schedule=INT, store=Ref("StoreS")))
# the entries of .aborted are typed with an alias class so that the two deques live in different heap arrays (they are
# different objects anyway: DISTINCT below); reads of `ready` then do not drag the writes to `aborted` along
classdecl("TaskerAb", bases=("TaskerS",), fields={})
ENT_AB = Tup(Ref("TaskerAb"), REAL, REAL)
classdecl("HouseS", fields=dict(store=Ref("StoreS"), taskables=LT, fronts=LT, mids=LT, backs=LT))
classdecl("Skedder", file=FS, fields=dict(ready=Deque(ENT), aborted=Deque(ENT_AB), stamp=REAL, period=REAL, real=BOOL,
                                          houses=List(Ref("HouseS")), timer=Ref("TimerS"), elapsed=Ref("TimerS")))

REG.assume_note("C02/C03 tasker.runner.send(control) is a DEMONIC external: it may give every tasker any new .desire, "
                ".period and .status (bids by actions) and then returns any int status or raises StopIteration, "
                "Exception, KeyboardInterrupt or SystemExit; ASSUMED: it does not reach into the skedder (ready, "
                "aborted, stamp, period, houses), does not change a store's stamp, a tasker's .schedule/.store, a "
                "house's lists, nor which object a deque entry refers to")
REG.assume_note("C02/C03 store.changeStamp(stamp) is opaque: store.stamp := stamp and it does not raise (the time/date "
                "shares it also updates are not modelled); timer.restart/repeat/expired/remaining are opaque and do "
                "not raise; time.sleep either returns or raises KeyboardInterrupt")
REG.assume_note("C02/C03 KeyboardInterrupt is modelled at three points only: raised by a runner's send, by time.sleep, "
                "and at the tick boundary (before the first statement inside the inner try); an asynchronous "
                "KeyboardInterrupt at an arbitrary bytecode is not modelled")


# ---------------------------------------------------------------- ghost helpers
# Ghost maps and snapshots are specification-only VALUES held in the frame environment (a z3 array term each): they
# are not heap objects, so creating and updating them allocates nothing and writes nothing the program can see.
classdecl("GArrC", fields={})
classdecl("GSnapC", fields={})


class GArr(RefV):
    """ghost total map Int -> int | real"""
    __slots__ = ("arr", "ek")

    def __init__(self, arr, ek):
        RefV.__init__(self, 0, "GArrC", nn=True)
        self.arr = arr
        self.ek = ek


class GSnap(RefV):
    """ghost snapshot of a list: length term and one array per component of the element type"""
    __slots__ = ("n", "arrs", "et")

    def __init__(self, n, arrs, et):
        RefV.__init__(self, 0, "GSnapC", nn=True)
        self.n = n
        self.arrs = arrs
        self.et = et

    def at(self, idx):
        return unpack(self.et, [z3.Select(a, idx) for a in self.arrs], None)


@hook("GArrC", "getitem")
def _garr_get(E, g, idx):
    return Sym(z3.Select(g.arr, zint(idx)), g.ek)


@hook("GSnapC", "getitem")
def _gsnap_get(E, g, idx):
    return g.at(zint(idx))


@hook("GSnapC", "len")
def _gsnap_len(E, g):
    return Sym(g.n, "int")


def gnew(E, name, ty):
    srt = z3.ArraySort(z3.IntSort(), sorts(ty)[0])
    return GArr(E.fresh("gh_" + name, srt), "int" if ty.kind == "int" else "real")


def gset(E, name, idx, val):
    """ghost map update env[name][idx] := val"""
    env = E.frame.env
    g = env[name]
    term = z3.simplify(zint(val) if g.ek == "int" else zreal(val))
    if not (z3.is_const(term) or z3.is_int_value(term) or z3.is_rational_value(term)):
        # store a NAME for the value: a compound value (if-then-else) inside the map term would make `map[j]`
        # illegal as a quantifier trigger, and the solver would then pick looping triggers by itself
        nm = E.fresh("gv_" + name, term.sort())
        E.assume(nm == term)
        term = nm
    env[name] = GArr(z3.Store(g.arr, idx, term), g.ek)


def gget(E, name, idx):
    g = E.frame.env[name]
    return Sym(z3.simplify(z3.Select(g.arr, idx)), g.ek)


def _resolve_select(E, t):
    """Select(Store(A, i, v), r) with i == r or i != r decided by the path condition -> v / Select(A, r)"""
    while z3.is_select(t) and z3.is_store(t.arg(0)):
        st, r = t.arg(0), t.arg(1)
        inner, i, v = st.arg(0), st.arg(1), st.arg(2)
        if i.eq(r) or not E.feasible(i != r):
            t = v
        elif not E.feasible(i == r):
            t = z3.Select(inner, r)
        else:
            break
    return t


def _plain(t):
    """no lambda / store / if-then-else inside: usable as (part of) a quantifier trigger as it stands"""
    seen, stack = set(), [t]
    while stack:
        x = stack.pop()
        if x.get_id() in seen:
            continue
        seen.add(x.get_id())
        if z3.is_quantifier(x) or z3.is_store(x) or z3.is_app_of(x, z3.Z3_OP_ITE):
            return False
        stack.extend(x.children())
    return True


def snap(E, lv):
    """snapshot of the current contents of a list.  A component array that is a plain term is used as it stands;
    otherwise (lambda / store terms left by popleft / append) a fresh array constant is DEFINED pointwise equal to it
    (an array-level equation would be solved away by the solver's preprocessing, and the trigger with it)"""
    arrs = []
    k = z3.Int("k!snap")
    n = E.llen(lv)
    for a in E.larrs(lv):
        a = _resolve_select(E, a)
        if _plain(a):
            arrs.append(a)
            continue
        c = E.fresh("gh_snap", a.sort())
        # defined on the index range of the list only (nothing refers to a snapshot outside it; an unguarded
        # definition over a shifted lambda term is also what keeps the solver from building counter-models)
        E.assume(z3.ForAll([k], z3.Implies(z3.And(k >= 0, k < n), z3.Select(c, k) == z3.Select(a, k)),
                           patterns=[z3.Select(c, k)]))
        arrs.append(c)
    return GSnap(n, arrs, lv.et)


def empty_snap(E):
    return GSnap(z3.IntVal(0), [E.fresh("gh_empty", z3.ArraySort(z3.IntSort(), s_)) for s_ in sorts(ENT)], ENT)


GHOST_INT = ("g_out", "g_st", "g_des", "g_k", "g_d", "g_a")
GHOST_TICK = GHOST_INT + ("g_per",)


def _new_tick_ghost(E):
    env = E.frame.env
    for name in GHOST_INT:
        env[name] = gnew(E, name, INT)
    env["g_per"] = gnew(E, "g_per", REAL)


def _setup_run(E):
    env = E.frame.env
    env["g_off"] = gnew(E, "g_off", INT)
    gset(E, "g_off", z3.IntVal(0), 0)
    _new_tick_ghost(E)
    for name in ("g_R0", "g_A0", "g_F0"):
        env[name] = empty_snap(E)
    env.update(g_phase=0, g_kbi=False, g_exc=False, g_insend=False, g_cur=0, g_sent=0, g_swept=False, g_swi=0,
               g_w=-1, g_base=0, g_fbase=0, g_s0=E.rd_field(env["self"], "stamp"))
    # known-finding regions: two boolean names that the demonic send asserts on exactly the paths they describe (a
    # send of the tick raised something other than StopIteration / a runner raised StopIteration).  A failure is
    # attributed to a recorded finding only if it disappears when the region is excluded, so a failure of the same
    # clause on any other path is still a violation.
    env["g_reg_raise"] = Sym(z3.Bool("region_send_raised"), "bool")
    env["g_reg_stop"] = Sym(z3.Bool("region_runner_stopped"), "bool")


def _havoc_ghost(names):
    """loop-head havoc of ghost maps that the body updates (they are re-described by the invariant)"""
    def h(E):
        env = E.frame.env
        for name in names:
            env[name] = gnew(E, "hv_" + name, INT if env[name].ek == "int" else REAL)
    return h


# ---------------------------------------------------------------- opaque collaborators
@hook("StoreS", "getattr", "changeStamp")
def _change_stamp(E, store):
    def m(E2, stamp):
        E2.wr_field(store, "stamp", stamp)
        return None
    m._specfunc = True
    return m


def _noop_method(E, obj):
    def m(E2, *args, **kwargs):
        return None
    m._specfunc = True
    return m


REG.classes["TimerS"].hooks[("getattr", "restart")] = _noop_method
REG.classes["TimerS"].hooks[("getattr", "repeat")] = _noop_method
REG.classes["TimerS"].hooks[("getattr", "expired")] = lambda E, obj: E.fresh_val("timer_expired", BOOL)
REG.classes["TimerS"].hooks[("getattr", "remaining")] = lambda E, obj: E.fresh_val("timer_remaining", REAL)


@external("time.sleep", obj=_time.sleep)
def _sleep(E, args, kwargs):
    if E.choose(2) == 1:
        raise PyRaise(ExcV(KeyboardInterrupt, ()))
    return None


_Runner = _collections.namedtuple("_Runner", ["send"])
HAVOC_BY_SEND = ("desire", "period", "status")


def _send(E, tasker, control):
    """the demonic runner: see the module docstring"""
    env = E.frame.env
    phase = env.get("g_phase", 0)
    des = E.rd_field(tasker, "desire")              # the tasker's desire at the moment of the send
    slot = E.ct_append("send", tasker, control)
    for attr in HAVOC_BY_SEND:
        decl, ty = E.reg.field_decl("TaskerS", attr)
        key = ("f", decl + "." + attr, 0)
        old = E.harr(key, [z3.IntSort()], sorts(ty)[0])
        E.heap[key] = E.fresh("send_" + attr, old.sort())
        E.note_write(key, z3.Int("any!ref"))
    i = None
    if phase == 1:
        i = zint(env["_i"])
        gset(E, "g_des", i, des)
        gset(E, "g_per", i, E.rd_field(tasker, "period"))     # period read AFTER the send
        env["g_cur"] = Sym(i, "int")
        env["g_insend"] = True
    # in the tick: return | StopIteration | Exception | KeyboardInterrupt; in the sweep every exception other than
    # StopIteration just escapes, one representative (Exception) is explored
    k = E.choose(4 if phase == 1 else 3)
    if k == 0:
        st = E.fresh_val("send_status", INT)
        E.assume(slot.t == st.t)
        if phase == 1:
            gset(E, "g_st", i, st)
            env["g_sent"] = 1
            env["g_insend"] = False
        return st
    if k == 1:
        if phase == 1:
            env["g_sent"] = 2
            env["g_insend"] = False
            E.assume(env["g_reg_stop"].t)
        raise PyRaise(ExcV(StopIteration, ()))
    if phase == 1:
        E.assume(env["g_reg_raise"].t)
    raise PyRaise(ExcV((Exception, KeyboardInterrupt)[k - 2], ("raised by a runner",)))


@hook("TaskerS", "getattr", "runner")
def _runner(E, tasker):
    def send(E2, control):
        return _send(E2, tasker, control)
    send._specfunc = True
    return _Runner(send=send)


# ---------------------------------------------------------------- loop ghost callables
def _tick_enter(E, variant="tick"):
    env = E.frame.env
    env["g_variant"] = variant
    if variant in ("tick", "sweep"):
        env["g_R0"] = snap(E, env["ready"])
    if variant == "tick":
        env["g_A0"] = snap(E, env["aborted"])
    env["g_base"] = Sym(E.ct_length(), "int")
    _new_tick_ghost(E)
    for name in ("g_k", "g_d", "g_a"):
        gset(E, name, z3.IntVal(0), 0)
    env.update(g_phase=1, g_sent=0, g_insend=False, g_cur=0, g_w=-1)


def _tick_begin(E):
    env = E.frame.env
    env.update(g_sent=0, g_insend=False, g_more0=env.get("more", False))


STOP_STATUS = ("a runner that raised StopIteration is neither started nor running: handling its entry leaves `more` "
               "as it was")


def _tick_end(E):
    """one entry handled: record what happened to it (g_sent was set by the demonic send, if any)"""
    env = E.frame.env
    i = zint(env["_i"])
    sent = env["g_sent"]
    if sent == 0:
        st = E.rd_field(env["tasker"], "status")      # the popped entry's tasker (== R0[i].tasker by the queue invariant)
        gset(E, "g_st", i, st)
        stz = zint(st)
        out = z3.IntVal(0)
    elif sent == 1:
        stz = zint(gget(E, "g_st", i))
        out = z3.If(stz == ABORTED, z3.IntVal(2), z3.IntVal(1))
    else:
        stz = None
        out = z3.IntVal(3)
        if env.get("g_variant") == "more":
            # C03 [v3]: decided here, under its own name; the rest of the iteration continues under it
            E.oblige("stop-status", E.tobool(E.equal(env["more"], env["g_more0"])), STOP_STATUS)
    out = z3.simplify(out)
    gset(E, "g_out", i, Sym(out, "int"))
    for name, cond in (("g_k", out <= 1), ("g_d", out != 0), ("g_a", out >= 2)):
        cur = zint(gget(E, name, i))
        gset(E, name, i + 1, Sym(z3.simplify(cur + z3.If(cond, 1, 0)), "int"))
    if stz is not None:
        env["g_w"] = Sym(z3.If(z3.Or(stz == STARTED, stz == RUNNING), i, zint(env["g_w"])), "int")


def _tick_exit(E, clauses):
    for text in clauses:
        E.oblige("tick-post", E.spec_eval(text), text)


def _tick_boundary(E):
    env = E.frame.env
    env["g_insend"] = False
    env["g_s0"] = E.rd_field(env["self"], "stamp")
    if E.choose(2) == 1:
        raise PyRaise(ExcV(KeyboardInterrupt, ("at the tick boundary",)))


def _flag(name):
    def h(E):
        E.frame.env[name] = True
    return h


def _sweep_enter(E):
    env = E.frame.env
    env["g_F0"] = snap(E, env["ready"])
    env["g_fbase"] = Sym(E.ct_length(), "int")
    env.update(g_phase=2, g_swept=False, g_swi=0)


def _sweep_begin(E):
    E.frame.env["g_swi"] = E.frame.env["_i"]


def _sweep_exit(E):
    E.frame.env["g_swept"] = True


def _inner_exit(E):
    env = E.frame.env
    hix = zint(env["hix"])
    n = E.llen(E.rd_field(env["house"], "taskables"))
    cur = zint(gget(E, "g_off", hix))
    gset(E, "g_off", hix + 1, Sym(z3.simplify(cur + n), "int"))


def _obliger(kind, clauses):
    def h(E):
        for text in clauses:
            E.oblige(kind, E.spec_eval(text), text)
    return h


# ---------------------------------------------------------------- spec functions
@specfunc
def concat3(E, x, a, b, c):
    """x == a ++ b ++ c pointwise"""
    na, nb, nc = E.llen(a), E.llen(b), E.llen(c)
    k = z3.Int("k!c3%d" % next(E.counter))

    def eq(i, src, j):
        return E.tobool(E.equal(E.lget(x, i), E.lget(src, j)))
    return Sym(z3.And(E.llen(x) == na + nb + nc,
                      z3.ForAll([k], z3.Implies(z3.And(k >= 0, k < na), eq(k, a, k))),
                      z3.ForAll([k], z3.Implies(z3.And(k >= 0, k < nb), eq(na + k, b, k))),
                      z3.ForAll([k], z3.Implies(z3.And(k >= 0, k < nc), eq(na + nb + k, c, k)))), "bool")


concat3.native = lambda x, a, b, c: len(x) == len(a) + len(b) + len(c) and all(
    p is q for p, q in zip(x, list(a) + list(b) + list(c)))


@specfunc
def aborts_in_order(E, f0, fbase):
    """trace positions fbase .. fbase + len(f0) - 1 are send(ABORT) to the taskers of f0, in order"""
    k = z3.Int("k!ab%d" % next(E.counter))
    ev = E.ct_get(zint(fbase) + k)
    t = f0.at(k)[0]
    return Sym(z3.ForAll([k], z3.Implies(z3.And(k >= 0, k < f0.n),
                                         z3.And(ev[0].t == code(E, "send"), ev[1].t == t.t, ev[2].t == ABORT))), "bool")


@specfunc
def is_stopiteration(E, exc):
    return isinstance(exc, ExcV) and exc.cls is StopIteration


is_stopiteration.native = lambda exc: isinstance(exc, StopIteration)


@specfunc
def swept_abort(E, tasker):
    """some event of the sweep (trace positions from g_fbase on) is send(ABORT) to `tasker`"""
    env = E.frame.env
    fbase = zint(env["L_g_fbase"] if "L_g_fbase" in env else env["g_fbase"])
    p = z3.Int("p!sw%d" % next(E.counter))
    ev = E.ct_get(p)
    return Sym(z3.Exists([p], z3.And(p >= fbase, p < E.ct_length(), ev[0].t == code(E, "send"),
                                     ev[1].t == tasker.t, ev[2].t == ABORT)), "bool")


# ---------------------------------------------------------------- Skedder.addReadyTask, House.orderTaskables
contract(FS, "Skedder.addReadyTask", "C02", params=dict(self=Ref("Skedder"), tasker=Ref("TaskerS")),
         modifies=["self.ready[*]", "tasker.desire", "tasker.status"],
         ensures=["len(self.ready) == old(len(self.ready)) + 1",
                  # ready == old(ready) ++ [(tasker, tasker.store.stamp, tasker.period)]
                  "forall(lambda k: implies(0 <= k and k < old(len(self.ready)), self.ready[k] == old(self.ready[k])))",
                  "self.ready[old(len(self.ready))] == (tasker, tasker.store.stamp, tasker.period)",
                  "tasker.desire == (1 if tasker.schedule == 1 else 0)",        # START if ACTIVE else STOP
                  "tasker.status == 0"])                                         # STOPPED

contract(FH, "House.orderTaskables", "C02", params=dict(self=Ref("HouseS")), modifies=["self.taskables"],
         ensures=[# the three blocks start where the statement puts them (quantifier-free instances of concat3 below)
                  "implies(len(self.fronts) > 0, self.taskables[0] is self.fronts[0])",
                  "implies(len(self.mids) > 0, self.taskables[len(self.fronts)] is self.mids[0])",
                  "implies(len(self.backs) > 0, self.taskables[len(self.fronts) + len(self.mids)] is self.backs[0])",
                  "concat3(self.taskables, self.fronts, self.mids, self.backs)", "fresh(self.taskables)",
                  "self.taskables is not self.fronts and self.taskables is not self.mids and "
                  "self.taskables is not self.backs"])

# ---------------------------------------------------------------- Skedder.run
# structural: distinct container objects (the constructor creates two deques; lists of different element types are
# different objects, which the untyped reference model of the heap does not know)
DISTINCT = ["self.ready is not self.aborted",
            "self.houses is not self.ready and self.houses is not self.aborted",
            "forall(lambda h: implies(0 <= h and h < len(self.houses), self.houses[h].taskables is not self.ready and "
            "self.houses[h].taskables is not self.aborted), trigger=lambda h: self.houses[h])"]

R0LEN = "old(len(self.ready))"
SLOT = "self.ready[%s + g_off[h] + t]" % R0LEN
TSK = "self.houses[h].taskables[t]"
ADDED = ("{slot}[0] is {t} and {slot}[2] == {t}.period and implies({t}.store is self.houses[h].store, {slot}[1] == stamp)"
         " and {t}.desire == (1 if {t}.schedule == 1 else 0) and {t}.status == 0")
ADDED_HT = ADDED.format(slot=SLOT, t=TSK)
ADDED_CUR = ADDED.format(slot="self.ready[%s + g_off[hix] + t]" % R0LEN, t="house.taskables[t]").replace(
    "self.houses[h].store", "house.store")
SETUP_COMMON = [
    "forall(lambda k: implies(0 <= k and k < %s, self.ready[k] == old(self.ready[k])))" % R0LEN,
    # every taskable of the houses handled so far has its entry, in house order then taskable order
    "forall(lambda h, t: implies(0 <= h and h < hix and 0 <= t and t < len(self.houses[h].taskables), %s))" % ADDED_HT,
]
SETUP_OUTER = [
    "g_off[0] == 0 and 0 <= g_off[hix]",
    "forall(lambda h: implies(0 <= h and h < hix, g_off[h + 1] == g_off[h] + len(self.houses[h].taskables)), "
    "trigger=lambda h: self.houses[h])",
    "forall(lambda h: implies(0 <= h and h < hix, 0 <= g_off[h] and g_off[h + 1] <= g_off[hix]), "
    "trigger=lambda h: self.houses[h])",
    "len(self.ready) == %s + g_off[hix]" % R0LEN,
    "forall(lambda h: implies(0 <= h and h < hix, self.houses[h].store.stamp == stamp))",
] + SETUP_COMMON
SETUP_INNER = [
    "len(self.ready) == %s + g_off[hix] + _i" % R0LEN,
    "forall(lambda t: implies(0 <= t and t < _i, %s))" % ADDED_CUR,
] + SETUP_COMMON
SETUP_POST = [
    "len(self.ready) == %s + g_off[len(self.houses)]" % R0LEN,
    "forall(lambda h, t: implies(0 <= h and h < len(self.houses) and 0 <= t and t < len(self.houses[h].taskables), %s))"
    % ADDED_HT,
    "forall(lambda h: implies(0 <= h and h < len(self.houses), self.houses[h].store.stamp == self.stamp))",
]

POS = "ready[len(g_R0) - _i + g_k[j]]"
TICK_INV = [
    # (1) unprocessed tail untouched and in order
    "len(ready) == len(g_R0) - _i + g_k[_i]",
    "forall(lambda j: implies(0 <= j and j < len(g_R0) - _i, ready[j] == g_R0[_i + j]), trigger=lambda j: ready[j][0])",
    # prefix counts
    "g_k[0] == 0 and g_d[0] == 0 and g_a[0] == 0 and 0 <= g_k[_i] and 0 <= g_d[_i] and 0 <= g_a[_i]",
    "forall(lambda j: implies(0 <= j and j < _i, 0 <= g_out[j] and g_out[j] <= 3), trigger=lambda j: g_out[j])",
    "forall(lambda j: implies(0 <= j and j < _i, g_k[j + 1] == g_k[j] + (1 if g_out[j] <= 1 else 0)), trigger=lambda j: g_out[j])",
    "forall(lambda j: implies(0 <= j and j < _i, g_d[j + 1] == g_d[j] + (0 if g_out[j] == 0 else 1)), trigger=lambda j: g_out[j])",
    "forall(lambda j: implies(0 <= j and j < _i, g_a[j + 1] == g_a[j] + (1 if g_out[j] >= 2 else 0)), trigger=lambda j: g_out[j])",
    "forall(lambda j: implies(0 <= j and j < _i and g_out[j] <= 1, 0 <= g_k[j] and g_k[j] < g_k[_i]), trigger=lambda j: g_out[j])",
    "forall(lambda j: implies(0 <= j and j < _i and g_out[j] != 0, 0 <= g_d[j] and g_d[j] < g_d[_i]), trigger=lambda j: g_out[j])",
    "forall(lambda j: implies(0 <= j and j < _i and g_out[j] >= 2, 0 <= g_a[j] and g_a[j] < g_a[_i]), trigger=lambda j: g_out[j])",
    # run iff due
    "forall(lambda j: implies(0 <= j and j < _i, iff(g_out[j] == 0, g_R0[j][1] > stamp)), trigger=lambda j: g_out[j])",
    # (2) re-appended entries: not due -> identical triple; run -> retime + period read after the send
    "forall(lambda j: implies(0 <= j and j < _i and g_out[j] == 0, %s == g_R0[j]), trigger=lambda j: g_out[j])" % POS,
    "forall(lambda j: implies(0 <= j and j < _i and g_out[j] == 1, "
    "%s == (g_R0[j][0], g_R0[j][1] + g_per[j], g_per[j])), trigger=lambda j: g_out[j])" % POS,
    # (3) the sends of this tick: one per due entry, in queue order, control = the tasker's desire at that moment
    "ct_len() == g_base + g_d[_i]",
    "forall(lambda j: implies(0 <= j and j < _i and g_out[j] != 0, "
    "ct_is(g_base + g_d[j], 'send', g_R0[j][0], g_des[j])), trigger=lambda j: g_out[j])",
    "forall(lambda j: implies(0 <= j and j < _i and (g_out[j] == 1 or g_out[j] == 2), "
    "ct_res(g_base + g_d[j]) == g_st[j] and iff(g_out[j] == 2, g_st[j] == 3)), trigger=lambda j: g_out[j])",
    # (4) ABORTED / StopIteration entries are appended to `aborted` (and are not among the kept ones)
    "len(aborted) == len(g_A0) + g_a[_i]",
    "forall(lambda k: implies(0 <= k and k < len(g_A0), aborted[k] == g_A0[k]), trigger=lambda k: g_A0[k][0])",
    "forall(lambda j: implies(0 <= j and j < _i and g_out[j] >= 2, "
    "aborted[len(g_A0) + g_a[j]] == (g_R0[j][0], stamp, g_R0[j][2])), trigger=lambda j: g_out[j])",
]
TICK_POST = [
    # the invariant at i == m, the form the statement uses
    "len(ready) == g_k[len(g_R0)] and len(aborted) == len(g_A0) + g_a[len(g_R0)] and "
    "ct_len() == g_base + g_d[len(g_R0)]",
    "forall(lambda j: implies(0 <= j and j < len(g_R0), iff(g_out[j] == 0, g_R0[j][1] > stamp)), trigger=lambda j: g_out[j])",
    "forall(lambda j: implies(0 <= j and j < len(g_R0) and g_out[j] != 0, "
    "ct_is(g_base + g_d[j], 'send', g_R0[j][0], g_des[j])), trigger=lambda j: g_out[j])",
    "forall(lambda j: implies(0 <= j and j < len(g_R0) and g_out[j] == 1, "
    "ready[g_k[j]] == (g_R0[j][0], g_R0[j][1] + g_per[j], g_per[j])), trigger=lambda j: g_out[j])",
    "forall(lambda j: implies(0 <= j and j < len(g_R0) and g_out[j] == 0, ready[g_k[j]] == g_R0[j]), trigger=lambda j: g_out[j])",
]
# (5) `more` == some handled entry of this tick is STARTED or RUNNING (a runner that stopped does not count)
MORE_INV = [
    "implies(not more, forall(lambda j: implies(0 <= j and j < _i and g_out[j] != 3, g_st[j] != 1 and g_st[j] != 2), "
    "trigger=lambda j: g_out[j]))",
    "implies(more, 0 <= g_w and g_w < _i and g_out[g_w] != 3 and (g_st[g_w] == 1 or g_st[g_w] == 2))",
]
SWEEP_INV = [
    "len(ready) == len(g_F0) - _i",
    "forall(lambda j: implies(0 <= j and j < len(ready), ready[j] == g_F0[_i + j]), trigger=lambda j: ready[j][0])",
    "ct_len() == g_fbase + _i",
    "forall(lambda k: implies(0 <= k and k < _i, ct_is(g_fbase + k, 'send', g_F0[k][0], 3)), trigger=lambda k: g_F0[k][0])",
]
OUTER_INV = [
    "stamp == self.stamp",
    "forall(lambda h: implies(0 <= h and h < len(self.houses), self.houses[h].store.stamp == self.stamp))",
]
STAMP_INV = ["forall(lambda h: implies(0 <= h and h < _i, self.houses[h].store.stamp == stamp))"]
STAMP_POST = ["self.stamp == g_s0 + self.period", "stamp == self.stamp"]
CONTINUE_POST = ["len(ready) > 0 and more"]

KBI_LINE = r'console.terse("KeyboardInterrupt forcing shutdown of Skedder ...\n")'
EXIT_LINE = r'console.terse("SystemExit forcing shutdown of Skedder ...\n")'
EXC_LINE = r'console.terse("Surprise exception forcing shutdown of Skedder ...\n")'
GHOST = {"before": {"more = False": _tick_boundary, KBI_LINE: _flag("g_kbi"), EXIT_LINE: _flag("g_exc"),
                    EXC_LINE: _flag("g_exc")}}


# what [v2] needs of the queue during a tick: shape of `ready` and WHICH tasker sits where (not the times)
QUEUE_INV = [
    "len(ready) == len(g_R0) - _i + g_k[_i]",
    "forall(lambda j: implies(0 <= j and j < len(g_R0) - _i, ready[j] == g_R0[_i + j]), trigger=lambda j: ready[j][0])",
    "0 <= g_k[_i]",
    "forall(lambda j: implies(0 <= j and j < _i and g_out[j] <= 1, 0 <= g_k[j] and g_k[j] < g_k[_i]), "
    "trigger=lambda j: g_out[j])",
    "forall(lambda j: implies(0 <= j and j < _i and g_out[j] <= 1, %s[0] is g_R0[j][0]), trigger=lambda j: g_out[j])" % POS,
]
IF_MORE = "if status == RUNNING or status == STARTED: more = True"


def _status_maybe(E):
    """[v3] reading `status` at the end of the tick body: when no statement of this path has bound it (the runner
    raised StopIteration before the assignment), the local is either still unbound (no earlier entry of the whole
    run assigned it) or holds the value left by the previously handled entry: both are explored"""
    from pyvc.engine import _UNBOUND
    env = E.frame.env
    if "status" not in env or env["status"] is _UNBOUND:
        if E.branch(E.fresh("bound_status", z3.BoolSort()), free=True):
            env["status"] = E.fresh_val("stale_status", INT)


def _loops(variant):
    """Skedder.run is verified in four passes over the same source text, each carrying the invariants of its own
    clauses only (a pass that does not carry the queue shape sees a popleft from an empty deque as one more exceptional
    path; the passes that carry it exclude that path):
       'setup' C02  setup loops, stamp of every tick          'tick'  C02  the tick rule (queue, sends, aborted)
       'sweep' C03  abort sweep on every route                'more'  C03  the `more` flag and the exit conditions"""
    none = dict(inv=[], force=True)
    light_sweep = dict(inv=SWEEP_INV[:1], force=True, enter=_sweep_enter, body_begin=_sweep_begin, exit=_sweep_exit)
    tick = dict(inv=[], locals={"g_w": INT, "status": INT}, enter=lambda E: _tick_enter(E, variant),
                havoc=_havoc_ghost(GHOST_TICK), body_begin=_tick_begin, body_end=_tick_end, force=True)
    loops = {0: dict(none, index_name="hix"), 1: none, 2: dict(inv=[]), 3: tick, 4: dict(inv=["True"]), 5: none,
             6: light_sweep}
    if variant == "setup":
        loops.update({0: dict(inv=SETUP_OUTER, index_name="hix", force=True, havoc=_havoc_ghost(("g_off",)),
                              exit=_obliger("setup-post", SETUP_POST)),
                      1: dict(inv=SETUP_INNER, force=True, exit=_inner_exit),
                      2: dict(inv=OUTER_INV),
                      5: dict(inv=STAMP_INV, force=True, enter=_obliger("tick-post", STAMP_POST))})
    elif variant == "tick":
        tick.update(inv=TICK_INV, exit=lambda E: _tick_exit(E, TICK_POST))
    elif variant == "sweep":
        tick.update(inv=QUEUE_INV)
        loops[6] = dict(inv=SWEEP_INV, force=True, enter=_sweep_enter, body_begin=_sweep_begin, exit=_sweep_exit)
    elif variant == "more":
        tick.update(inv=MORE_INV, locals={"g_w": INT})
        loops[5] = dict(inv=[], force=True, enter=_obliger("tick-post", CONTINUE_POST))
    return loops


RUN_MODIFIES = ["self.ready[*]", "self.aborted[*]", "self.stamp",
                havoc_all_but({"TaskerS": ["desire", "period", "status"], "StoreS": ["stamp"]}, keep=[])]
ANY_EXC = {"Exception": ["True"], "KeyboardInterrupt": ["True"], "SystemExit": ["True"]}
RUN_PARAMS = dict(self=Ref("Skedder"), growable=BOOL)

contract(FS, "Skedder.run", "C02", params=RUN_PARAMS, setup=_setup_run, assumes=DISTINCT, dedupe=True,
         ghost=GHOST, loops=_loops("setup"), modifies=RUN_MODIFIES, frame=False, raises=ANY_EXC,
         note="[v0] C02 setup loops (ready == old ready ++ one entry per taskable of each house, in order) and the stamp "
              "of every completed tick")
contract(FS, "Skedder.run", "C02", params=RUN_PARAMS, setup=_setup_run, assumes=DISTINCT, dedupe=True,
         ghost=GHOST, loops=_loops("tick"), modifies=RUN_MODIFIES, frame=False, raises=ANY_EXC,
         note="[v1] C02 tick rule.  The exits and the sweep are decided in [v2]/[v3] (C03); the path on which the local "
              "`status` is read unbound is generated in [v3] only")

SWEPT = ["len(self.ready) == 0", "ct_len() == L_g_fbase + len(L_g_F0)", "aborts_in_order(L_g_F0, L_g_fbase)"]
PARTIAL = ["len(self.ready) == len(L_g_F0) - L_g_swi - 1",
           "ct_len() == L_g_fbase + L_g_swi + 1",
           "forall(lambda k: implies(0 <= k and k <= L_g_swi, ct_is(L_g_fbase + k, 'send', L_g_F0[k][0], 3)))",
           "forall(lambda j: implies(0 <= j and j < len(self.ready), self.ready[j] == L_g_F0[L_g_swi + 1 + j]))"]
# the run was cut inside a tick by a send that raised: everything still scheduled EXCEPT the raiser is in the sweep list
CUT = ["len(L_g_F0) == len(L_g_R0) - L_g_cur - 1 + L_g_k[L_g_cur]",
       "forall(lambda j: implies(L_g_cur < j and j < len(L_g_R0), L_g_F0[j - L_g_cur - 1] == L_g_R0[j]))",
       "forall(lambda j: implies(0 <= j and j < L_g_cur and L_g_out[j] <= 1, "
       "L_g_F0[len(L_g_R0) - L_g_cur - 1 + L_g_k[j]][0] is L_g_R0[j][0]))"]
RAISER = "implies(L_g_insend, swept_abort(L_g_R0[L_g_cur][0]))"
EXC_POST = (["implies(L_g_swept, %s)" % c for c in SWEPT] + ["implies(not L_g_swept, %s)" % c for c in PARTIAL] +
            ["implies(L_g_insend, %s)" % c for c in CUT] + [RAISER] +
            # a runner that stops (StopIteration) is absorbed in the tick and in the sweep: what escapes is never that
            ["not is_stopiteration(exc)"])

contract(FS, "Skedder.run", "C03", params=RUN_PARAMS, setup=_setup_run, assumes=DISTINCT, dedupe=True,
         ghost=GHOST, loops=_loops("sweep"), modifies=RUN_MODIFIES, frame=False,
         ensures=SWEPT + ["L_g_swept and not L_g_exc"] + ["implies(L_g_insend, %s)" % c for c in CUT] + [RAISER],
         raises={"Exception": EXC_POST, "KeyboardInterrupt": EXC_POST, "SystemExit": EXC_POST},
         findings={"tasker-send-raised": "g_reg_raise"},
         note="[v2] C03: abort sweep on every route (normal, KeyboardInterrupt, exception re-raised); an exception out "
              "of an ABORT send in the sweep escapes and leaves the remaining entries un-aborted (declared in raises: "
              "limitation of the code)")

GHOST2 = {"before": dict(GHOST["before"])}
GHOST2["before"][IF_MORE] = _status_maybe
contract(FS, "Skedder.run", "C03", params=RUN_PARAMS, setup=_setup_run, assumes=DISTINCT, dedupe=True,
         ghost=GHOST2, loops=_loops("more"), modifies=RUN_MODIFIES, frame=False,
         ensures=[
             # the loop is left by `break` only right after a tick with nothing queued or nothing started / running
             # (or by KeyboardInterrupt)
             "L_g_kbi or (not L_more) or len(L_g_F0) == 0"],
         raises=ANY_EXC, findings={"runner-stopped": "g_reg_stop"},
         note="[v3] C03: the `more` flag and the exit conditions; the queue shape is not carried here (a popleft from an "
              "empty deque is then one more exceptional path, excluded in [v1]/[v2])")


# ---------------------------------------------------------------- static obligation: who writes .ready
def _ready_writers(repo):
    """every syntactic use of an attribute named `ready` (or getattr/setattr with that name) in the non-test tree
    lies inside Skedder.__init__, Skedder.addReadyTask or Skedder.run, and in skedding.py the bare name `ready` is
    used in Skedder.run only"""
    import ast as _ast
    from pyvc.source import all_repo_files, SourceError
    allowed = {"Skedder.__init__", "Skedder.addReadyTask", "Skedder.run"}
    bad = []
    n = 0
    import os as _os
    for rel in all_repo_files(repo.root):
        if "/test/" in rel:
            continue
        try:
            with open(_os.path.join(repo.root, rel), "rb") as fh:
                if b"ready" not in fh.read():
                    continue                      # the identifier cannot occur in this file
            m = repo.module(rel)
        except (SourceError, OSError):
            continue
        owner = {}
        # innermost enclosing function of every node (deeper qualified names win)
        for qual, fn in sorted(m.functions.items(), key=lambda kv: kv[0].count(".")):
            for node in _ast.walk(fn):
                owner[id(node)] = qual
        for node in _ast.walk(m.tree):
            hit = False
            if isinstance(node, _ast.Attribute) and node.attr == "ready":
                hit = True
            elif isinstance(node, _ast.Call) and isinstance(node.func, _ast.Name) and \
                    node.func.id in ("getattr", "setattr", "delattr") and len(node.args) >= 2 and \
                    isinstance(node.args[1], _ast.Constant) and node.args[1].value == "ready":
                hit = True
            elif rel == FS and isinstance(node, _ast.Name) and node.id == "ready":
                hit = True
                if owner.get(id(node)) != "Skedder.run":
                    bad.append("%s:%d bare name `ready` in %s" % (rel, node.lineno, owner.get(id(node))))
                    continue
            if hit:
                n += 1
                if not (rel == FS and owner.get(id(node)) in allowed):
                    bad.append("%s:%d `.ready` used in %s" % (rel, node.lineno, owner.get(id(node), "<module>")))
    return (not bad), "; ".join(bad) or "%d uses, all inside %s" % (n, sorted(allowed))


REG.static_checks.append(("C02", "only Skedder.__init__, addReadyTask and run touch .ready (nothing else appends to it)",
                          _ready_writers))


# ---------------------------------------------------------------- period lemma (exact reals)
def _period_lemmas():
    """abstract per-tick transition proved above for an entry (t, r, p) that stays queued, with constant period p:
    at a tick with stamp s the entry runs iff r <= s, and then r' = r + p; otherwise r' = r.  Ticks have stamps
    s, s + T, s + 2T, ... with T > 0.  Ghost invariant INV(k, r): r == t0 + k*p, k = number of runs so far (the
    start run is k = 0, at the first tick whose stamp >= t0)."""
    t0, p, T, r, s, r2 = z3.Reals("t0 p T r s r2")
    k = z3.Int("k")
    kr = z3.ToReal(k)
    inv = r == t0 + kr * p
    out = [
        ("period/base: before any run retime == t0 (k = 0)", [r == t0, k == 0], inv),
        ("period/step-run: the k-th run happens at a tick with stamp >= t0 + k*p and re-establishes INV(k + 1)",
         [inv, k >= 0, r <= s, r2 == r + p], z3.And(s >= t0 + kr * p, r2 == t0 + z3.ToReal(k + 1) * p)),
        ("period/step-wait: a tick with stamp < t0 + k*p does not run the k-th run and keeps INV(k)",
         [inv, k >= 0, r > s, r2 == r], z3.And(s < t0 + kr * p, r2 == t0 + kr * p)),
        ("period/first: the k-th run is not delayed past the first tick with stamp >= t0 + k*p",
         [inv, k >= 0, s >= t0 + kr * p], r <= s),
        ("period/every-tick: with p <= T a tasker that ran at stamp s runs again at the next tick s + T",
         [r <= s, r2 == r + p, p <= T, T > 0], r2 <= s + T),
    ]
    return out


for _n, _pc, _g in _period_lemmas():
    REG.lemmas.append(("C02", _n, _pc, _g))


# ================================================================= native side (cross-check and replay)
# Real Skedder (object.__new__ + attributes), tasker doubles whose runner is a scripted generator (statuses,
# StopIteration, raising, bids that change period / desire / status of any tasker), store / house / timer doubles and a
# console double that marks the tick starts, the exits and the start of the finally clause.
import collections as _co


class _Rec:
    def __init__(self):
        self.events = []          # sends, in call order
        self.reads = []           # (index into events at the time, tasker, value) for every read of tasker.status
        self.ticks = []           # one record per tick start
        self.fin = None           # record at the start of the finally clause
        self.flags = set()
        self.sk = None
        self.quiet = False

    def snap_queue(self, q):
        return [tuple(e) for e in q]


_REC = _Rec()          # recorder of the run in progress (the native twins of ct_len / ct_is read it)


class ConsoleD:
    class Wordage:
        concise, terse, verbose, profuse = 1, 2, 3, 4
    _verbosity = 0

    def __init__(self, rec):
        self.rec = rec

    def profuse(self, msg, *a, **k):
        rec = self.rec
        if msg.startswith("\nRunning Skedder") and rec.sk is not None:
            sk = rec.sk
            if len(rec.ticks) > 300:
                # safety valve of the harness (a seeded mutant may never leave the loop): scripts end within a few ticks
                raise ScriptedError("runaway scheduler: more than 300 ticks")
            rec.ticks.append(dict(index=len(rec.events), ready=rec.snap_queue(sk.ready), aborted=rec.snap_queue(sk.aborted),
                                  stamp=sk.stamp, stores=[h.store.stamp for h in sk.houses]))

    def terse(self, msg, *a, **k):
        rec = self.rec
        for key, flag in (("No ready taskers", "no_ready"), ("No running or started", "no_more"),
                          ("KeyboardInterrupt forcing", "kbi"), ("SystemExit forcing", "exc"), ("Surprise exception", "exc")):
            if msg.startswith(key):
                rec.flags.add(flag)
        if msg.startswith("Aborting all ready Taskers") and rec.sk is not None:
            rec.fin = dict(index=len(rec.events), ready=rec.snap_queue(rec.sk.ready), aborted=rec.snap_queue(rec.sk.aborted))

    concise = verbose = lambda self, *a, **k: None


class StoreD:
    def __init__(self, name, stamp):
        self.name = name
        self.stamp = stamp

    def changeStamp(self, stamp):
        self.stamp = float(stamp)

    def expose(self, **k):
        pass

    def __deepcopy__(self, memo):
        return self


class TimerD:
    elapsed = 0.0
    remaining = 0.0
    expired = True

    def restart(self, *a, **k):
        pass

    repeat = restart


class HouseD:
    def __init__(self, name, store, taskables):
        self.name, self.store, self.taskables = name, store, taskables


class ScriptedError(Exception):
    pass


class TaskerD:
    """tasker double: .runner is a primed generator that follows `script`, one step per send:
    ('st', status, bids) | ('stop',) | ('raise', exception instance); bids = [(tasker index, attr, value)]"""

    def __init__(self, name, rec, period, schedule, store, script, status=0, desire=0):
        self.name, self.rec, self.period, self.schedule, self.store = name, rec, period, schedule, store
        self.script = list(script)
        self._status = status
        self.desire = desire
        self.all = None
        self.runner = self._gen()
        next(self.runner)

    def _get_status(self):
        if not self.rec.quiet:
            self.rec.reads.append((len(self.rec.events), self, self._status))
        return self._status

    def _set_status(self, v):
        self._status = v

    status = property(_get_status, _set_status)

    def __deepcopy__(self, memo):
        return self

    def _gen(self):
        control = yield self._status
        while True:
            step = self.script.pop(0) if self.script else ("st", 0, [])
            ev = dict(tasker=self, control=control, desire=self.desire, outcome=None, period_after=None,
                      exc=None)
            self.rec.events.append(ev)
            for (ix, attr, val) in (step[2] if step[0] == "st" else []):
                t = self.all[ix % len(self.all)]
                if attr == "status":
                    t._status = val
                else:
                    setattr(t, attr, val)
            if step[0] == "stop":
                ev["outcome"] = ("stop",)
                ev["period_after"] = self.period
                return
            if step[0] == "raise":
                ev["outcome"] = ("raise",)
                ev["exc"] = step[1]
                ev["period_after"] = self.period
                raise step[1]
            self._status = step[1] if not any(a == "status" and self.all[ix % len(self.all)] is self
                                              for ix, a, _v in step[2]) else self._status
            ev["outcome"] = ("ret", step[1])
            ev["period_after"] = self.period
            control = yield step[1]


PERIODS = [0.0, 0.125, 0.25, 0.5, 1.0]


def _mk_taskers(rng, rec, stores, n, raising=True):
    ts = []
    for k in range(n):
        script = []
        for _ in range(rng.randint(0, 5)):
            r = rng.random()
            if r < 0.08:
                script.append(("stop",))
                break
            if raising and r < 0.13:
                script.append(("raise", ScriptedError("scripted failure of an action")))
                break
            if raising and r < 0.15:
                script.append(("raise", KeyboardInterrupt()))
                break
            bids = []
            for _b in range(rng.choice([0, 0, 1, 2])):
                attr = rng.choice(["period", "desire", "status"])
                val = rng.choice(PERIODS) if attr == "period" else rng.randint(0, 4)
                bids.append((rng.randint(0, 7), attr, val))
            script.append(("st", rng.choice([0, 1, 2, 2, 2, 3, 4]), bids))
        ts.append(TaskerD("t%d" % k, rec, rng.choice(PERIODS), rng.choice([0, 1, 1, 2]), rng.choice(stores), script,
                          status=rng.randint(0, 4), desire=rng.randint(0, 4)))
    for t in ts:
        t.all = ts
    return ts


def _mk_skedder(nr, rng, rec, houses, pre_ready=()):
    sk = object.__new__(nr.mod.Skedder)
    sk.name = "native"
    sk.period = rng.choice([0.125, 0.25, 0.5])
    sk.stamp = rng.choice([0.0, 0.5, 3.0])
    sk.real = False
    sk.timer, sk.elapsed = TimerD(), TimerD()
    sk.houses = houses
    sk.ready = _co.deque(pre_ready)
    sk.aborted = _co.deque()
    rec.sk = sk
    return sk


def _mk_add(rng, i, cex, nr):
    rec = _Rec()
    rec.quiet = True
    store = StoreD("s", rng.choice([0.0, 0.5, 2.25]))
    ts = _mk_taskers(rng, rec, [store], rng.randint(1, 4))
    sk = _mk_skedder(nr, rng, rec, [], [(t, rng.choice(PERIODS), t.period) for t in ts[1:]])
    return {"self": sk, "tasker": ts[0], "_old": list(sk.ready)}


def _check_add(env, nr, outcome, result, exc):
    sk, old = env["self"], env["_old"]
    return [] if list(sk.ready)[:len(old)] == old else ["addReadyTask changed the entries already queued"]


class _Obj:
    pass


def _mk_order(rng, i, cex, nr):
    h = object.__new__(nr.mod.House)
    for name in ("fronts", "mids", "backs"):
        setattr(h, name, [_Obj() for _ in range(rng.randint(0, 3))])
    h.taskables = []
    h.name = "h"
    return {"self": h}


def _mk_run(rng, i, cex, nr):
    global _REC
    rec = _REC = _Rec()
    nr.mod.console = ConsoleD(rec)
    nh = rng.choice([1, 1, 2])
    stores = [StoreD("s%d" % k, rng.choice([0.0, 7.0])) for k in range(nh)]
    ts = _mk_taskers(rng, rec, stores, rng.randint(0, 5), raising=(i % 3 != 0))
    houses = []
    pool = list(ts)
    rng.shuffle(pool)
    for k in range(nh):
        cut = len(pool) if k == nh - 1 else rng.randint(0, len(pool))
        mine, pool = pool[:cut], pool[cut:]
        for t in mine:
            if rng.random() < 0.85:
                t.store = stores[k]
        houses.append(HouseD("h%d" % k, stores[k], mine))
    sk = _mk_skedder(nr, rng, rec, houses)
    rec.old_ready = list(sk.ready)
    rec.order = [t for h in houses for t in h.taskables]
    return {"self": sk, "growable": False}


def _call_run(env, nr):
    sk = env["self"]
    try:
        return type(sk).run(sk, growable=env["growable"])
    except (KeyboardInterrupt, SystemExit) as ex:
        # the cross-check driver only handles Exception: re-raise under the same class NAME
        raise type(type(ex).__name__, (Exception,), {})(*ex.args)


def _tick_reference(rec, sk):
    """replay every tick of the log against the statement; returns (messages, per-tick info)"""
    msgs = []
    info = []
    marks = list(rec.ticks)
    for t, tk in enumerate(marks):
        end = marks[t + 1]["index"] if t + 1 < len(marks) else (rec.fin["index"] if rec.fin else len(rec.events))
        evs = rec.events[tk["index"]:end]
        nxt = marks[t + 1] if t + 1 < len(marks) else rec.fin
        p = 0
        kept, ab, more, cut, out, crash = [], [], False, None, [], False
        reads = [r for r in rec.reads if tk["index"] <= r[0] <= end]
        for j, (tasker, retime, period) in enumerate(tk["ready"]):
            if retime > tk["stamp"]:
                kept.append((tasker, retime, period))
                out.append(0)
                vals = [v for (_ix, who, v) in reads if who is tasker]
                if vals and vals[-1] in (1, 2):
                    more = True
                continue
            if p >= len(evs):
                if t + 1 == len(marks) and (rec.flags & {"exc", "kbi"}):
                    cut, crash = j, True        # the tick was cut by an exception that no send raised: entry j not popped
                else:
                    msgs.append("tick %d: due entry %d (%s) was not run" % (t, j, tasker.name))
                break
            e = evs[p]
            p += 1
            if e["tasker"] is not tasker:
                msgs.append("tick %d: send %d went to %s, queue order wants %s" % (t, p, e["tasker"].name, tasker.name))
                break
            if e["control"] != e["desire"]:
                msgs.append("tick %d: %s was sent %r, its desire at that moment was %r" % (t, tasker.name, e["control"], e["desire"]))
            if e["outcome"][0] == "ret":
                if e["outcome"][1] == 3:
                    ab.append((tasker, tk["stamp"], period))
                    out.append(2)
                else:
                    kept.append((tasker, retime + e["period_after"], e["period_after"]))
                    out.append(1)
                    if e["outcome"][1] in (1, 2):
                        more = True
            elif e["outcome"][0] == "stop":
                ab.append((tasker, tk["stamp"], period))
                out.append(3)
            else:
                cut = j
                break
        else:
            if p != len(evs):
                msgs.append("tick %d: %d sends, %d entries were due" % (t, len(evs), p))
        exp_ready = (tk["ready"][cut + (0 if crash else 1):] + kept) if cut is not None else kept
        if nxt is not None and not msgs:
            if nxt["ready"] != exp_ready:
                msgs.append("tick %d: ready afterwards is %r, the tick rule gives %r" % (
                    t, [(a.name, b, c) for a, b, c in nxt["ready"]], [(a.name, b, c) for a, b, c in exp_ready]))
            if nxt["aborted"] != tk["aborted"] + ab:
                msgs.append("tick %d: aborted afterwards differs from old aborted ++ entries aborted in this tick" % t)
        if t + 1 < len(marks) and not msgs:
            if marks[t + 1]["stamp"] != tk["stamp"] + sk.period or any(s_ != marks[t + 1]["stamp"] for s_ in marks[t + 1]["stores"]):
                msgs.append("tick %d: stamp / store stamps after the tick are not stamp + period" % t)
        info.append(dict(kept=kept, more=more, cut=cut, out=out, ready=tk["ready"], crash=crash))
        if msgs:
            break
    return msgs, info


def _check_c02(env, nr, outcome, result, exc):
    rec, sk = _REC, env["self"]
    msgs = []
    if rec.ticks:
        first = rec.ticks[0]
        exp = rec.old_ready + [(t, first["stamp"] if t.store in [h.store for h in sk.houses] else t.store.stamp, None)
                               for t in rec.order]
        got = first["ready"]
        if len(got) != len(exp) or any(g[0] is not e[0] for g, e in zip(got, exp)):
            msgs.append("setup: ready is not old ready ++ one entry per taskable of each house in order")
        if any(s_ != first["stamp"] for s_ in first["stores"]):
            msgs.append("setup: a house store's stamp differs from the skedder's")
    m2, _info = _tick_reference(rec, sk)
    return msgs + m2


def _check_c03(env, nr, outcome, result, exc):
    rec, sk = _REC, env["self"]
    msgs, info = _tick_reference(rec, sk)
    if msgs:
        return []            # a tick-rule deviation is C02's subject (reported there)
    out = []
    if rec.fin is None:
        return ["the finally clause never started"]
    last = info[-1] if info else None
    complete = [x for x in info if x["cut"] is None]
    for t, x in enumerate(info):
        cont = t + 1 < len(info)
        if x["cut"] is None and "kbi" not in rec.flags:
            should = bool(x["kept"]) and x["more"]
            if cont != should:
                out.append("tick %d: %s although ready %s and %s tasker started / running" % (
                    t, "another tick follows" if cont else "the run ended", "is non-empty" if x["kept"] else "is empty",
                    "some" if x["more"] else "no"))
    f0 = rec.fin["ready"]
    sweep = rec.events[rec.fin["index"]:]
    swept_all = len(sweep) == len(f0) and all(e["control"] == 3 and e["tasker"] is q[0] for e, q in zip(sweep, f0))
    escaped = bool(sweep) and sweep[-1]["outcome"][0] == "raise"
    if not escaped and not swept_all:
        out.append("sweep: the ABORT sends are not exactly one per entry still queued, in order")
    if not escaped and len(sk.ready) != 0:
        out.append("sweep: ready is not empty afterwards")
    if last is not None and last["crash"]:
        out.append("the run was cut inside a tick by %r, which no runner raised" % (exc,))
    if last is not None and last["cut"] is not None and not last["crash"]:
        raiser = last["ready"][last["cut"]][0]
        if not any(e["tasker"] is raiser and e["control"] == 3 for e in sweep):
            out.append("implies(L_g_insend, swept_abort(L_g_R0[L_g_cur][0])): %s, whose run raised, got no ABORT" % raiser.name)
    return out


def _view_run(env, nr):
    rec, sk = _REC, env["self"]
    _msgs, info = _tick_reference(rec, sk)
    fin = rec.fin or dict(index=len(rec.events), ready=[])
    sweep = rec.events[fin["index"]:]
    last = info[-1] if info else dict(kept=[], more=False, cut=None, out=[], ready=[], crash=False)
    cut = None if last["crash"] else last["cut"]
    ks = [0]
    for o in last["out"]:
        ks.append(ks[-1] + (1 if o <= 1 else 0))
    return {"L_g_F0": fin["ready"], "L_g_fbase": fin["index"], "L_g_kbi": "kbi" in rec.flags, "L_g_exc": "exc" in rec.flags,
            "L_g_swept": not (bool(sweep) and sweep[-1]["outcome"][0] == "raise"),
            "L_g_swi": max(0, len(sweep) - 1), "L_g_insend": cut is not None, "L_g_cur": cut if cut is not None else 0,
            "L_g_R0": last["ready"], "L_g_k": ks + [ks[-1]] * 4, "L_g_out": last["out"] + [9] * 4, "L_more": last["more"]}


ct_len.native = lambda: len(_REC.events)


def _ct_is_native(k, name, recv=None, arg=None):
    if not (0 <= k < len(_REC.events)):
        return False
    e = _REC.events[k]
    return name == "send" and (recv is None or e["tasker"] is recv) and (arg is None or e["control"] == arg)


ct_is.native = _ct_is_native
aborts_in_order.native = lambda f0, fbase: all(_ct_is_native(fbase + k, "send", f0[k][0], 3) for k in range(len(f0)))
swept_abort.native = lambda tasker: any(e["tasker"] is tasker and e["control"] == 3
                                        for e in _REC.events[(_REC.fin or {"index": len(_REC.events)})["index"]:])

_cs = REG.contracts
_cs[(FS, "Skedder.addReadyTask")][0].replay = dict(make=_mk_add, check=_check_add, count=200)
_cs[(FH, "House.orderTaskables")][0].replay = dict(make=_mk_order, count=100)
_cs[(FS, "Skedder.run")][1].replay = dict(make=_mk_run, call=_call_run, view=_view_run, check=_check_c02, count=250)
_cs[(FS, "Skedder.run")][2].replay = dict(make=_mk_run, call=_call_run, view=_view_run, check=_check_c03, count=250)
_cs[(FS, "Skedder.run")][3].replay = dict(make=_mk_run, call=_call_run, view=_view_run, count=150)
