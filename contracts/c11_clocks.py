"""C11 framer clocks: Framer.restartTimer/updateTimer/updateElapsed/restartCounter/updateCounter/updateRecurred
and the evaluation point in Framer.segue (ioflo/base/framing.py).  Framer.enter (restart exactly when something
is entered) is in c06_bracketing.py and counted for both properties.
"""
from pyvc.api import *
from contracts.framing_decl import *

contract(FF, "Framer.updateElapsed", "C11", params=dict(self=Ref("Framer")),
         modifies=["self.elapsedShr.value"], ensures=["self.elapsedShr.value == self.elapsed"])
contract(FF, "Framer.updateRecurred", "C11", params=dict(self=Ref("Framer")),
         modifies=["self.recurredShr.value"], ensures=["self.recurredShr.value == self.recurred"])
contract(FF, "Framer.restartTimer", "C11", params=dict(self=Ref("Framer")),
         modifies=["self.stamp", "self.elapsed", "self.elapsedShr.value"],
         ensures=["self.stamp == self.store.stamp", "self.elapsed == 0", "self.elapsedShr.value == 0"])
contract(FF, "Framer.updateTimer", "C11", params=dict(self=Ref("Framer")),
         modifies=["self.stamp", "self.elapsed", "self.elapsedShr.value"],
         ensures=[
             # elapsed is store time since the outline last changed (stamp was set by restartTimer)
             "implies(self.store.stamp is not None and old(self.stamp) is not None, "
             "self.elapsed == self.store.stamp - old(self.stamp) and self.stamp == old(self.stamp))",
             "implies(self.store.stamp is None or old(self.stamp) is None, "
             "self.elapsed == 0 and self.stamp == self.store.stamp)",
             "self.elapsedShr.value == self.elapsed"])
contract(FF, "Framer.restartCounter", "C11", params=dict(self=Ref("Framer")),
         modifies=["self.recurred", "self.recurredShr.value"],
         ensures=["self.recurred == 0", "self.recurredShr.value == 0"])
contract(FF, "Framer.updateCounter", "C11", params=dict(self=Ref("Framer")),
         modifies=["self.recurred", "self.recurredShr.value"],
         ensures=["self.recurred == old(self.recurred) + 1", "self.recurredShr.value == self.recurred"])
