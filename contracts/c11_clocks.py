"""C11 framer clocks: Framer.restartTimer/updateTimer/updateElapsed/restartCounter/updateCounter/updateRecurred
and the evaluation point in Framer.segue (ioflo/base/framing.py).  Framer.enter (restart exactly when something
is entered) is in c06_bracketing.py and counted for both properties.
"""
from pyvc.api import *
from contracts.framing_decl import *

contract(FF, "Framer.updateElapsed", "C11", params=dict(self=Ref("Framer")),
         modifies=["self.elapsedShr.value"], ensures=["self.elapsedShr.value == self.elapsed"])
contract(FF, "Framer.updateRecurred", "C11", params=dict(self=Ref("Framer")),
         modifies=["self.recurredShr.value"], ensures=["self.recurredShr.value == self.recurred"])
contract(FF, "Framer.restartTimer", "C11", params=dict(self=Ref("Framer")),
         modifies=["self.stamp", "self.elapsed", "self.elapsedShr.value"],
         ensures=["self.stamp == self.store.stamp", "self.elapsed == 0", "self.elapsedShr.value == 0"])
contract(FF, "Framer.updateTimer", "C11", params=dict(self=Ref("Framer")),
         modifies=["self.stamp", "self.elapsed", "self.elapsedShr.value"],
         ensures=[
             # elapsed is store time since the outline last changed (stamp was set by restartTimer)
             "implies(self.store.stamp is not None and old(self.stamp) is not None, "
             "self.elapsed == self.store.stamp - old(self.stamp) and self.stamp == old(self.stamp))",
             "implies(self.store.stamp is None or old(self.stamp) is None, "
             "self.elapsed == 0 and self.stamp == self.store.stamp)",
             "self.elapsedShr.value == self.elapsed"])
contract(FF, "Framer.restartCounter", "C11", params=dict(self=Ref("Framer")),
         modifies=["self.recurred", "self.recurredShr.value"],
         ensures=["self.recurred == 0", "self.recurredShr.value == 0"])
contract(FF, "Framer.updateCounter", "C11", params=dict(self=Ref("Framer")),
         modifies=["self.recurred", "self.recurredShr.value"],
         ensures=["self.recurred == old(self.recurred) + 1", "self.recurredShr.value == self.recurred"])

# ---------------------------------------------------------------- the evaluation point: Framer.segue
# Transition conditions are evaluated inside frame.precur().  Ghost snapshot taken right after the two
# updates: that is the elapsed / recurred every condition of this tick sees (until a transition restarts them).
from contracts.lib import *

LF = List(Ref("Frame"))
ANY_FRAMER = havoc_all_but(FRAMER_RUN_FIELDS, keep=[], wf=[ACTIVES_OWNED])
contract(FF, "Frame.precur", "C11,C09,C10", params=dict(self=Ref("Frame")), modifies=[ANY_FRAMER], returns=BOOL,
         verify=False, may_raise_at_call=False,
         note="call-site view: a pre-act may be a transition or conditional auxiliary, which re-enters the framer "
              "(exit/enter/activate), so every framer's run fields may change; body verified in C10")
contract(FF, "Frame.segueAuxes", "C11,C09", params=dict(self=Ref("Frame")), modifies=[OTHER_FRAMERS], verify=False,
         may_raise_at_call=False, note="call-site view; body verified in C09")


def _snap(E):
    me = E.frame.env["self"]
    E.ghost["g_elapsed"] = E.rd_field(me, "elapsed")
    E.ghost["g_recurred"] = E.rd_field(me, "recurred")
    E.ghost["g_ctlen"] = Sym(E.ct_length(), "int")


OWN_A = "forall(lambda j: implies(0 <= j and j < len(old(self.actives)), old(self.actives)[j].framer is self))"
contract(FF, "Framer.segue", "C11,C09", params=dict(self=Ref("Framer")),
         assumes=["forall(lambda j: implies(0 <= j and j < len(self.actives), self.actives[j].framer is self))"],
         modifies=[ANY_FRAMER, "self.elapsedShr.value", "self.recurredShr.value", "self.stamp", "self.elapsed",
                   "self.recurred"],
         ghost={"after": {"self.updateCounter()": _snap}},
         loops={0: dict(inv=["ct_len() == 2 + _i", "ct_is(0, 'Framer.updateTimer', self)",
                             "ct_is(1, 'Framer.updateCounter', self)",
                             "forall(lambda j: implies(0 <= j and j < _i, "
                             "ct_is(2 + j, 'Frame.segueAuxes', old(self.actives)[j])))",
                             "forall(lambda k: implies(2 <= k and k < 2 + _i, ct_code(k) == code('Frame.segueAuxes')))",
                             "self.actives is old(self.actives)", OWN_A,
                             "seq_eq(old(self.actives), oldlist(self.actives))"]),
                1: dict(inv=["ct_len() == 2 + len(old(self.actives)) + _i", "ct_is(0, 'Framer.updateTimer', self)",
                             "ct_is(1, 'Framer.updateCounter', self)",
                             "forall(lambda j: implies(0 <= j and j < len(old(self.actives)), "
                             "ct_is(2 + j, 'Frame.segueAuxes', old(self.actives)[j])))",
                             "forall(lambda k: implies(2 <= k and k < 2 + len(old(self.actives)), "
                             "ct_code(k) == code('Frame.segueAuxes')))",
                             "forall(lambda j: implies(2 + len(old(self.actives)) <= j and j < ct_len(), "
                             "ct_code(j) == code('Frame.precur')))",
                             "seq_eq(old(self.actives), oldlist(self.actives))"])},
         ensures=[],
         local_ensures=[
             # both clocks are brought up to date before any condition is evaluated
             "g_ctlen == 2 and ct_is(0, 'Framer.updateTimer', self) and ct_is(1, 'Framer.updateCounter', self)",
             "forall(lambda k: implies(0 <= k and k < ct_len() and ct_code(k) == code('Frame.precur'), k >= 2))",
             # what the conditions see: store time since the outline last changed, completed iterations
             "implies(self.store.stamp is not None and old(self.stamp) is not None, "
             "g_elapsed == self.store.stamp - old(self.stamp))",
             "g_recurred == old(self.recurred) + 1",
             # all auxiliaries segue (top-down) before any frame's own pre-acts (C09)
             "forall(lambda k: implies(0 <= k and k < ct_len() and ct_code(k) == code('Frame.precur'), "
             "k >= 2 + len(old(self.actives))))",
             "forall(lambda j: implies(0 <= j and j < ct_len() and ct_code(j) == code('Frame.segueAuxes'), "
             "j < 2 + len(old(self.actives))))",
             # one segueAuxes per active frame, in outline order
             "forall(lambda j: implies(0 <= j and j < len(old(self.actives)), "
             "ct_is(2 + j, 'Frame.segueAuxes', oldlist(self.actives)[j])))",
         ],
         returns=Opt(BOOL))

contract(FF, "Framer.recur", "C09", params=dict(self=Ref("Framer")),
         assumes=["forall(lambda j: implies(0 <= j and j < len(self.actives), self.actives[j].framer is self))"],
         modifies=[framers_may_change(keep=["self"])],     # a recur act may be a `done` act: self.done False -> True
         loops={0: dict(inv=["ct_len() == _i",
                             "forall(lambda j: implies(0 <= j and j < _i, ct_is(j, 'Frame.recur', self.actives[j])))",
                             "self.actives is old(self.actives)", "seq_eq(self.actives, oldlist(self.actives))",
                             "forall(lambda j: implies(0 <= j and j < len(self.actives), self.actives[j].framer is self))"])},
         local_ensures=["ct_len() == len(self.actives)",
                        "forall(lambda j: implies(0 <= j and j < len(self.actives), "
                        "ct_is(j, 'Frame.recur', self.actives[j])))"])
