"""C24 stream transports deliver queued bytes once and in order; C25 error classification.
Client / ClientTls (ioflo/aio/tcp/clienting.py), Incomer / IncomerTls (ioflo/aio/tcp/serving.py),
serial Driver (ioflo/aio/serial/serialing.py).  One contract template, instantiated per class: every instance
generates its obligations from that class's own FunctionDef.
"""
from pyvc.api import *
from contracts.transport_decl import *
import z3

for _name, _pc, _goal in flat_lemmas():
    REG.lemmas.append(("C24", _name, _pc, _goal))


@specfunc
def since(E, cur, old):
    """the part of `cur` after the prefix `old`"""
    c, o = zbytes(cur), zbytes(old)
    return Sym(z3.Extract(c, z3.Length(o), z3.Length(c) - z3.Length(o)), "bytes")


@specfunc
def extends(E, cur, old):
    return Sym(z3.PrefixOf(zbytes(old), zbytes(cur)), "bool")


since.native = lambda cur, old: bytes(cur)[len(old):]
extends.native = lambda cur, old: bytes(cur).startswith(bytes(old))


def ghost_acc_setup(E):
    E.frame.env["g_acc"] = b""


def _acc_sent(E):
    env = E.frame.env
    d, n = zbytes(env["data"]), zint(env["count"])
    env["g_acc"] = Sym(z3.Concat(zbytes(env["g_acc"]), z3.Extract(d, 0, n)), "bytes")


def _acc_rcvd(E):
    env = E.frame.env
    d = env["data"]
    cur = zbytes(env["g_acc"])
    if d is None:
        return
    if isinstance(d, OptV):
        env["g_acc"] = Sym(z3.If(d.isnone, cur, z3.Concat(cur, zbytes(d.val))), "bytes")
    else:
        env["g_acc"] = Sym(z3.Concat(cur, zbytes(d)), "bytes")


# ------------------------------------------------------------------ native doubles (cross-check and replay)
import collections as _collections
import errno as _errno


class SockD:
    """scripted socket: steps ('n', count) | ('err', errno, tls) for send, ('d', bytes) | ('err', ...) for recv"""
    def __init__(self, script):
        self.script = list(script)
        self.wire = b""
        self.got = b""
        self.raised = False
        self.errno = 0

    def _err(self, step):
        import ssl as _ssl
        self.raised = True
        self.errno = step[1]
        raise (_ssl.SSLError if step[2] else OSError)(step[1], "scripted")

    def send(self, data):
        step = self.script.pop(0) if self.script else ("n", len(data))
        if step[0] == "err":
            self._err(step)
        n = max(0, min(step[1], len(data)))
        self.wire += bytes(data[:n])
        return n

    def recv(self, n):
        step = self.script.pop(0) if self.script else ("d", b"")
        if step[0] == "err":
            self._err(step)
        d = bytes(step[1])[:n]
        self.got += d
        return d


class WLogD:
    def __init__(self):
        self.txcat = b""
        self.rxcat = b""

    def writeTx(self, ha, data):
        self.txcat += bytes(data)

    def writeRx(self, ha, data):
        self.rxcat += bytes(data)


class DequeD(_collections.deque):
    """deque with the front/back offsets of the model (lo counts front removals minus front insertions)"""
    lo = 0
    hi = 0

    def append(self, x):
        self.hi += 1
        return super().append(x)

    def appendleft(self, x):
        self.lo -= 1
        return super().appendleft(x)

    def popleft(self):
        x = super().popleft()
        self.lo += 1
        return x


class BArrD(bytearray):
    @property
    def content(self):
        return bytes(self)


ERR_POOL = [_errno.EAGAIN, _errno.EWOULDBLOCK, _errno.ECONNRESET, _errno.ENETRESET, _errno.ENETUNREACH,
            _errno.EHOSTUNREACH, _errno.ENETDOWN, _errno.EHOSTDOWN, _errno.ETIMEDOUT, _errno.ECONNREFUSED,
            _errno.EPIPE, _errno.EINVAL, 2, 3, 8]


def _mk_transport(cls, tls, op):
    def make(rng, i, cex, nr):
        import importlib
        timing = importlib.import_module("ioflo.aid.timing")
        klass = getattr(nr.mod, cls)
        o = object.__new__(klass)
        nmsg = rng.randint(0, 3)
        msgs = [bytes(rng.randrange(256) for _ in range(rng.randint(0, 6))) for _ in range(nmsg)]
        script = []
        for _ in range(rng.randint(0, 6)):
            r = rng.random()
            if r < 0.3:
                script.append(("err", rng.choice(ERR_POOL), tls and rng.random() < 0.6))
            elif op in ("receive", "serviceReceives", "serviceReceiveOnce"):
                script.append(("d", bytes(rng.randrange(256) for _ in range(rng.randint(0, 5)))))
            else:
                script.append(("n", rng.randint(0, 7)))
        o.cs = SockD(script)
        o.bs = 4096
        o.wlog = WLogD() if rng.random() < 0.7 else None
        o.cutoff = False
        o.txes = DequeD()
        for m in msgs:
            o.txes.append(m)
        o.rxbs = BArrD(bytes(rng.randrange(256) for _ in range(rng.randint(0, 3))))
        o._accepted = True
        o._connected = True
        o.ha = ("127.0.0.1", 1)
        o.ca = ("127.0.0.1", 2)
        o.refreshable = rng.random() < 0.7
        st = timing.Stamper(rng.randint(0, 80) / 8.0)
        o.timer = timing.StoreTimer(st, duration=rng.choice([0.5, 1.0, 2.0]))
        st.advance(rng.choice([0.0, 0.25, 0.75]))
        o.timeout = 1.0
        env = {"self": o}
        if "data" in nr.params:
            env["data"] = bytes(rng.randrange(256) for _ in range(rng.randint(0, 6)))
        return env
    return make


def _tview(env, nr):
    cs = env["self"].cs
    return {"sock_raised": cs.raised, "errno": cs.errno}


def sock_setup(E):
    E.ghost["sock_raised"] = False
    E.ghost["errno"] = 0


from contracts import c42_timers      # StoreTimer contracts

FIELDS = dict(timer=Ref("StoreTimer"), timeout=REAL, cs=Ref("Sock"), bs=INT, wlog=Opt(Ref("WLog")), cutoff=BOOL, txes=Ref("DequeB"), rxbs=Ref("BArr"),
              _accepted=BOOL, _connected=BOOL, ha=Opaque("ha"), ca=Opaque("ha"), refreshable=BOOL)


TIMER_WF = ("self.timer.duration >= 0 and self.timer.store.stamp is not None and self.timer.store.stamp >= 0 "
            "and self.timer.start >= 0 and self.timer.stop == self.timer.start + self.timer.duration")
TIMER_MOD = ["self.timer.start", "self.timer.stop", "self.timer.duration"]
RESTARTED = "self.timer.start == self.timer.store.stamp and self.timer.stop == self.timer.start + self.timer.duration"
TIMER_SAME = "self.timer.start == old(self.timer.start) and self.timer.stop == old(self.timer.stop)"


def transport(cls, rel, tls, prop="C24,C25", base=None, native=None, idle=False):
    """instantiate the send / receive / serviceTxes / serviceReceives / serviceReceiveOnce / tx contracts;
    idle=True adds the C28 clauses: moving bytes restarts the idle timer (when refreshable)"""
    classdecl(cls, file=rel, fields=FIELDS if base is None else {}, bases=(base,) if base else ())
    if idle:
        prop = prop + ",C28"
    IDLE_REQ = [TIMER_WF] if idle else []
    IDLE_MOD = TIMER_MOD if idle else []
    IDLE_SEND = ["implies(result > 0 and self.refreshable, %s)" % RESTARTED,
                 "implies(result == 0 or not self.refreshable, %s)" % TIMER_SAME,
                 "self.timer.duration == old(self.timer.duration)"] if idle else []
    IDLE_RECV = ["implies(result is not None and len(result) > 0 and self.refreshable, %s)" % RESTARTED,
                 "implies(result is None or len(result) == 0 or not self.refreshable, %s)" % TIMER_SAME,
                 "self.timer.duration == old(self.timer.duration)"] if idle else []
    if idle and base is None:
        contract(rel, cls + ".refresh", "C28", params=dict(self=Ref(cls)), requires=[TIMER_WF], modifies=TIMER_MOD,
                 ensures=[RESTARTED, "self.timer.duration == old(self.timer.duration)", TIMER_WF])
    WB = TLS_WOULDBLOCK if tls else WOULDBLOCK
    LOSS_ = LOSS + ((TLS_EOF,) if tls else ())
    wb, loss = repr(WB), repr(LOSS_)
    for acc in ("connected", "accepted"):
        REG.inline_ok.add("%s.%s" % (cls, acc))
    P = dict(self=Ref(cls))
    contract(rel, cls + ".send", prop, params=dict(P, data=BYTES), setup=sock_setup, requires=IDLE_REQ,
             modifies=["self.cs.wire", "self.wlog.txcat", "self.cutoff"] + IDLE_MOD,
             ensures=IDLE_SEND + [
                 "0 <= result and result <= len(data)",
                 # what the socket accepted is exactly the prefix reported, and the wire log records the same
                 "self.cs.wire == old(self.cs.wire) + data[:result]",
                 "implies(self.wlog is not None, self.wlog.txcat == old(self.wlog.txcat) + data[:result])",
                 # classification (C25)
                 "implies(not sock_raised, self.cutoff == old(self.cutoff))",
                 "implies(sock_raised and errno in %s, result == 0 and self.cutoff == old(self.cutoff))" % wb,
                 "implies(sock_raised and errno not in %s and errno in %s, result == 0 and self.cutoff)" % (wb, loss),
                 "implies(sock_raised, errno in %s or errno in %s)" % (wb, loss),
             ],
             raises={"OSError": ["errno not in %s and errno not in %s" % (wb, loss),
                                 "self.cutoff == old(self.cutoff) and self.cs.wire == old(self.cs.wire)"]},
             returns=INT, findings={"tls-eof": "True"} if tls else {},
             replay=dict(make=_mk_transport(cls, tls, "send"), view=_tview, count=400))
    contract(rel, cls + ".receive", prop, params=dict(P), setup=sock_setup, requires=IDLE_REQ,
             modifies=["self.cs.got", "self.wlog.rxcat", "self.cutoff"] + IDLE_MOD,
             ensures=IDLE_RECV + [
                 "implies(not sock_raised, result is not None and self.cs.got == old(self.cs.got) + result)",
                 "implies(not sock_raised and len(result) > 0, self.cutoff == old(self.cutoff))",
                 "implies(not sock_raised and len(result) == 0, self.cutoff)",
                 "implies(not sock_raised and self.wlog is not None, self.wlog.rxcat == old(self.wlog.rxcat) + result)",
                 "implies(sock_raised and errno in %s, result is None and self.cutoff == old(self.cutoff))" % wb,
                 "implies(sock_raised and errno not in %s and errno in %s, "
                 "result is not None and len(result) == 0 and self.cutoff)" % (wb, loss),
                 "implies(sock_raised, errno in %s or errno in %s)" % (wb, loss),
                 "implies(sock_raised, self.cs.got == old(self.cs.got))",
                 "extends(self.cs.got, old(self.cs.got))",
                 "implies(result is None, self.cs.got == old(self.cs.got))",
                 "implies(result is not None, self.cs.got == old(self.cs.got) + result)",
             ],
             raises={"OSError": ["errno not in %s and errno not in %s" % (wb, loss),
                                 "self.cutoff == old(self.cutoff) and self.cs.got == old(self.cs.got)"]},
             returns=Opt(BYTES), findings={"tls-eof": "True"} if tls else {},
             replay=dict(make=_mk_transport(cls, tls, "receive"), view=_tview, count=400))
    if base is not None:
        return
    contract(rel, cls + ".tx", "C24", params=dict(P, data=BYTES), requires=["self.txes.lo <= self.txes.hi"],
             modifies=["self.txes.hi", "self.txes.buf[*]"],
             ensures=["flat(self.txes) == old(flat(self.txes)) + data", "self.txes.lo == old(self.txes.lo)"],
             replay=dict(make=_mk_transport(cls, tls, "tx"), view=_tview, count=100))
    CONS = "self.cs.wire + flat(self.txes) == old(self.cs.wire) + old(flat(self.txes))"
    # ghost g_acc (L_g_acc in post-conditions): concatenation of the prefixes the socket accepted in this call
    WIREG = "self.cs.wire == old(self.cs.wire) + %s"
    LOGG = "implies(self.wlog is not None, self.wlog.txcat == old(self.wlog.txcat) + %s)"
    contract(rel, cls + ".serviceTxes", "C24", params=dict(P), requires=["self.txes.lo <= self.txes.hi"] + IDLE_REQ,
             setup=ghost_acc_setup, ghost={"after": {"count = self.send(data)": _acc_sent}},
             modifies=["self.cs.wire", "self.wlog.txcat", "self.cutoff", "self.txes.lo", "self.txes.buf[*]"] + IDLE_MOD,
             loops={0: dict(inv=[CONS, WIREG % "g_acc", LOGG % "g_acc",
                                 "self.txes.lo <= self.txes.hi", "self.txes.hi == old(self.txes.hi)"] + IDLE_REQ,
                            locals={"g_acc": BYTES})},
             ensures=[
                 # nothing lost, repeated or reordered: bytes on the wire followed by what is still queued never changes
                 CONS,
                 # the wire grew by exactly what the sends reported, and the wire log recorded exactly the same bytes
                 WIREG % "L_g_acc", LOGG % "L_g_acc",
                 "self.txes.hi == old(self.txes.hi)",
             ],
             raises={"OSError": ["True"]}, replay=dict(make=_mk_transport(cls, tls, "serviceTxes"), view=_tview, count=600),
             note="an error other than would-block / connection-loss propagates (C25); the message being sent at "
                  "that moment is not requeued - outside the statement's quantifier (partial sends and would-block)")
    # received chunks are appended to the receive buffer in arrival order: buffer and socket grow by the same bytes
    RXG = "self.rxbs.content == old(self.rxbs.content) + %s and self.cs.got == old(self.cs.got) + %s"
    contract(rel, cls + ".serviceReceives", "C24", params=dict(P), requires=IDLE_REQ,
             setup=ghost_acc_setup, ghost={"after": {"data = self.receive()": _acc_rcvd}},
             modifies=["self.cs.got", "self.wlog.rxcat", "self.cutoff", "self.rxbs.content"] + IDLE_MOD,
             loops={0: dict(inv=[RXG % ("g_acc", "g_acc")] + IDLE_REQ, locals={"g_acc": BYTES})},
             ensures=[RXG % ("L_g_acc", "L_g_acc"),
                      "self.rxbs.content == old(self.rxbs.content) + since(self.cs.got, old(self.cs.got))"],
             raises={"OSError": ["True"]},
             replay=dict(make=_mk_transport(cls, tls, "serviceReceives"), view=_tview, count=400))
    contract(rel, cls + ".serviceReceiveOnce", "C24", params=dict(P), requires=IDLE_REQ,
             setup=ghost_acc_setup, ghost={"after": {"data = self.receive()": _acc_rcvd}},
             modifies=["self.cs.got", "self.wlog.rxcat", "self.cutoff", "self.rxbs.content"] + IDLE_MOD,
             ensures=[RXG % ("L_g_acc", "L_g_acc")],
             raises={"OSError": ["True"]})


transport("Client", "ioflo/aio/tcp/clienting.py", tls=False)
transport("ClientTls", "ioflo/aio/tcp/clienting.py", tls=True, base="Client")
transport("Incomer", "ioflo/aio/tcp/serving.py", tls=False, idle=True)
transport("IncomerTls", "ioflo/aio/tcp/serving.py", tls=True, base="Incomer", idle=True)
