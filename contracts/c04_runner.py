"""C04 / C08 / C03: the step function of Framer.makeRunner (ioflo/base/framing.py), mechanically extracted:
"resume at `control = (yield self.status)`, run to the next yield".  Dropped by the extraction (stated in
DESIGN.md 3.1): the prelude (status STOPPED, desire STOP, done True at creation), the generator protocol, and
the try/finally that marks the framer ABORTED when the generator dies.

Transition table proved for every control and status value (symbolic ints): which of checkStart / enterAll /
recur / segue / exitAll are called, in which order, and the resulting status and desire.
"""
from pyvc.api import *
from contracts.framing_decl import *
from contracts.lib import *
from contracts import c06_bracketing, c08_guards, c11_clocks

STOP, START, RUN, ABORT, READY = 0, 1, 2, 3, 4          # globaling.py (control and status codes coincide)
RUNNING_ = "(old(self.status) == 2 or old(self.status) == 1)"
IDLE_ = "(old(self.status) == 0 or old(self.status) == 4)"
KEEP = ("self.actives is old(self.actives) and self.active is old(self.active) and "
        "self.elapsed == old(self.elapsed) and self.recurred == old(self.recurred) and self.stamp == old(self.stamp)")

contract(FF, "Framer.makeRunner", "C04,C08,C03", tags=("step",),
         params=dict(self=Ref("Framer"), control=INT),
         requires=["self.humanShr is not self.activeShr", "self.first is not None",
                   "implies(self.status == 2 or self.status == 1, self.active is not None)"],
         assumes=[c08_guards.AUX_WF,
                  "forall(lambda j: implies(0 <= j and j < len(self.actives), self.actives[j].framer is self))",
                  "forall(lambda j: implies(0 <= j and j < len(self.first.outline), self.first.outline[j].framer is self))"],
         modifies=[havoc_all_but(FRAMER_RUN_FIELDS, keep=[], wf=[ACTIVES_OWNED]), "self.elapsedShr.value",
                   "self.recurredShr.value", "self.humanShr.value", "self.activeShr.value"],
         ensures=["result == self.status"],
         local_ensures=[
             # ---- START / READY from stopped or readied: guarded by checkStart (C08)
             "implies((control == 1 or control == 4) and %s, ct_len() >= 1 and ct_is(0, 'Framer.checkStart', self))" % IDLE_,
             # refused: nothing entered, nothing run, framer untouched, status STOPPED and desire STOP
             "implies((control == 1 or control == 4) and %s and ct_res(0) == 0, "
             "ct_len() == 1 and self.status == 0 and self.desire == 0 and %s)" % (IDLE_, KEEP),
             # READY accepted: only readied
             "implies(control == 4 and %s and ct_res(0) == 1, ct_len() == 1 and self.status == 4 and %s)" % (IDLE_, KEEP),
             # START accepted: enterAll then recur, status STARTED
             "implies(control == 1 and %s and ct_res(0) == 1, ct_len() == 3 and ct_is(1, 'Framer.enterAll', self) "
             "and ct_is(2, 'Framer.recur', self) and self.status == 1)" % IDLE_,
             # every enterAll of a step is preceded by a successful checkStart in the same step
             "forall(lambda k: implies(0 <= k and k < ct_len() and ct_code(k) == code('Framer.enterAll'), "
             "k == 1 and ct_is(0, 'Framer.checkStart', self) and ct_res(0) == 1))",
             # START/READY while already running: no call at all
             "implies((control == 1 or control == 4) and %s, ct_len() == 0 and self.status == old(self.status) and %s)"
             % (RUNNING_, KEEP),
             # ---- RUN
             "implies(control == 2 and %s, ct_len() == 2 and ct_is(0, 'Framer.segue', self) and "
             "ct_is(1, 'Framer.recur', self) and self.status == 2)" % RUNNING_,
             "implies(control == 2 and %s, ct_len() == 0 and self.desire == 1 and self.status == old(self.status) and %s)"
             % (IDLE_, KEEP),
             # ---- STOP: exit every active frame (abort=True keeps .done), status STOPPED
             "implies(control == 0 and %s, ct_len() == 1 and ct_is(0, 'Framer.exitAll', self, 1) and "
             "self.status == 0 and self.desire == 0 and len(self.actives) == 0 and self.active is None)" % RUNNING_,
             "implies(control == 0 and %s, ct_len() == 0 and self.status == old(self.status) and %s)" % (IDLE_, KEEP),
             # ---- ABORT or unknown control: exit every active frame when running, status ABORTED
             "implies(control not in (0, 1, 2, 4) and %s, ct_len() == 1 and ct_is(0, 'Framer.exitAll', self, 0) and "
             "len(self.actives) == 0 and self.active is None)" % RUNNING_,
             "implies(control not in (0, 1, 2, 4), self.status == 3 and self.desire == 3)",
             "implies(control not in (0, 1, 2, 4) and not %s, ct_len() == 0)" % RUNNING_,
             # ---- a status outside the five known ones (or ABORTED) with a known control: aborted, nothing run
             "implies(control in (0, 1, 2, 4) and not %s and not %s, ct_len() == 0 and self.status == 3 and "
             "self.desire == 3)" % (RUNNING_, IDLE_),
         ],
         returns=INT)

# ---------------------------------------------------------------- Tasker runner step
FT = "ioflo/base/tasking.py"
FW = "ioflo/base/wanting.py"
classdecl("Tasker", file=FT, fields=dict(name=STR, status=INT, desire=INT, done=BOOL, period=REAL,
                                         stamp=Opt(REAL), store=Ref("StoreLike"), schedule=INT))
ST = "old(self.status)"
contract(FT, "Tasker.makeRunner", "C04", tags=("step",), params=dict(self=Ref("Tasker"), control=INT),
         modifies=["self.status", "self.desire", "self.done", "self.stamp"],
         ensures=[
             "implies(control == 2 and (%s == 1 or %s == 2), self.status == 2 and self.desire == old(self.desire))" % (ST, ST),
             "implies(control == 2 and not (%s == 1 or %s == 2), self.status == %s and self.desire == 1)" % (ST, ST, ST),
             "implies(control == 4, self.status == 4 and self.desire == 1)",
             "implies(control == 1, self.status == 1 and self.desire == 2 and not self.done)",
             "implies(control == 0 and (%s == 1 or %s == 2), self.status == 0 and self.desire == 0 and self.done)" % (ST, ST),
             "implies(control == 0 and not (%s == 1 or %s == 2), self.status == %s and self.desire == old(self.desire))"
             % (ST, ST, ST),
             "implies(control not in (0, 1, 2, 4), self.status == 3 and self.desire == 3)",
             "implies(control in (0, 1, 2, 3, 4), self.stamp == self.store.stamp and result == self.status)",
         ], returns=Opt(INT),
         note="an unknown control breaks out of the runner loop (the generator ends): the step then yields nothing")

# ---------------------------------------------------------------- bids: Want*.action
LT = List(Ref("Tasker"))
for _cls, _code, _period in (("WantStop", 0, False), ("WantAbort", 3, False), ("WantStart", 1, True),
                             ("WantRun", 2, True), ("WantReady", 4, True)):
    classdecl(_cls, file=FW, fields={})
    inv = ["forall(lambda j: implies(0 <= j and j < _i, taskers[j].desire == %d))" % _code,
           "forall(Ref('Tasker'), lambda t: t.desire == old(t.desire) or t.desire == %d)" % _code,
           "forall(Ref('Tasker'), lambda t: t.status == old(t.status))"]
    ens = ["forall(lambda j: implies(0 <= j and j < len(taskers), taskers[j].desire == %d))" % _code,
           "forall(Ref('Tasker'), lambda t: t.desire == old(t.desire) or t.desire == %d)" % _code,
           "forall(Ref('Tasker'), lambda t: t.status == old(t.status))"]
    if _period:
        P_ = "(period if period is not None else None)"
        inv += ["implies(period is not None, forall(lambda j: implies(0 <= j and j < _i, "
                "taskers[j].period == max(0, period))))",
                "implies(period is None, forall(Ref('Tasker'), lambda t: t.period == old(t.period), "
                "))"]
        ens += ["implies(period is not None, forall(lambda j: implies(0 <= j and j < len(taskers), "
                "taskers[j].period == max(0, period))))",
                "implies(period is None, forall(Ref('Tasker'), lambda t: t.period == old(t.period), "
                "))"]
        contract(FW, _cls + ".action", "C04",
                 params=dict(self=Ref(_cls), taskers=LT, period=Opt(REAL), source=NONE, sourceField=NONE),
                 modifies=[havoc_all_but({"Tasker": ["desire", "period"]}, keep=[])], frame=False,
                 loops={0: dict(inv=inv)}, ensures=ens,
                 note="period given directly (the `source` share variant reads the period from a share field first)")
    else:
        ens.append("forall(Ref('Tasker'), lambda t: t.period == old(t.period))")
        contract(FW, _cls + ".action", "C04", params=dict(self=Ref(_cls), taskers=LT),
                 modifies=[havoc_all_but({"Tasker": ["desire"]}, keep=[])], frame=False,
                 loops={0: dict(inv=inv)}, ensures=ens)
