"""C37 a stack's remote indexes stay mutually consistent: RemoteStack.addRemote / moveRemote / renameRemote /
rehaRemote / removeRemote (ioflo/aio/proto/stacking.py), verified against the odict contracts of C39.

I3 (the three-index invariant), over the three maps U (by uid), N (by name), H (by address):
  every entry of each index is a remote whose current uid / name / ha is its key in all three, and is the same
  object there; no key equals the local device's uid / name / ha.
Each operation: I3 preserved; on every ValueError path nothing changed; move / rename / reha keep the position
of the entry in iteration order (the key sequence is the old one with the one key replaced).
"""
from pyvc.api import *
from contracts.lib import *
from contracts import c39_odict as OD
import z3

F = "ioflo/aio/proto/stacking.py"
HA = Opaque("rha")
classdecl("Remote", fields=dict(uid=INT, name=STR, ha=HA, stack=Opt(Ref("RemoteStack"))))
classdecl("LocalDev", fields=dict(uid=INT, name=STR, ha=HA))
for _n, _k in (("odictU", INT), ("odictN", STR), ("odictH", HA)):
    classdecl(_n, file=OD.F, bases=("odict",),
              fields=dict(_keys=List(_k), _d=Dict(_k, Ref("Remote")), _pos=Dict(_k, INT)))
    REG.classes[_n].hooks.update(REG.classes["odict"].hooks)
    REG.classes[_n].source = "odict"
classdecl("RemoteStack", file=F, fields=dict(uidRemotes=Ref("odictU"), nameRemotes=Ref("odictN"),
                                             haRemotes=Ref("odictH"), local=Ref("LocalDev")))
# method lookup for the three instantiations goes to class odict in odicting.py
for _n in ("odictU", "odictN", "odictH"):
    pass


@specfunc
def I3(E, st):
    U = E.rd_field(E.rd_field(st, "uidRemotes"), "_d")
    N = E.rd_field(E.rd_field(st, "nameRemotes"), "_d")
    H = E.rd_field(E.rd_field(st, "haRemotes"), "_d")
    loc = E.rd_field(st, "local")

    def fld(cls, attr, i=0):
        name, ty = E.fkey(cls, attr)
        return E.harr(("f", name, i), [z3.IntSort()], sorts(ty)[i])
    uid, nam, ha = fld("Remote", "uid"), fld("Remote", "name"), fld("Remote", "ha")
    Ud, Uv = E.ddom(U), E.dvals(U)[0]
    Nd, Nv = E.ddom(N), E.dvals(N)[0]
    Hd, Hv = E.ddom(H), E.dvals(H)[0]
    ku = z3.Int("ku!%d" % next(E.counter))
    kn = z3.Const("kn!%d" % next(E.counter), z3.StringSort())
    kh = z3.Const("kh!%d" % next(E.counter), opaque_sort("rha"))

    def consistent(r):
        return z3.And(r != 0,
                      z3.Select(Ud, z3.Select(uid, r)), z3.Select(Uv, z3.Select(uid, r)) == r,
                      z3.Select(Nd, z3.Select(nam, r)), z3.Select(Nv, z3.Select(nam, r)) == r,
                      z3.Select(Hd, z3.Select(ha, r)), z3.Select(Hv, z3.Select(ha, r)) == r)
    fu = z3.ForAll([ku], z3.Implies(z3.Select(Ud, ku), z3.And(z3.Select(uid, z3.Select(Uv, ku)) == ku,
                                                           consistent(z3.Select(Uv, ku)))))
    fn = z3.ForAll([kn], z3.Implies(z3.Select(Nd, kn), z3.And(z3.Select(nam, z3.Select(Nv, kn)) == kn,
                                                           consistent(z3.Select(Nv, kn)))))
    fh = z3.ForAll([kh], z3.Implies(z3.Select(Hd, kh), z3.And(z3.Select(ha, z3.Select(Hv, kh)) == kh,
                                                           consistent(z3.Select(Hv, kh)))))
    lu, ln, lh = zint(E.rd_field(loc, "uid")), zstr(E.rd_field(loc, "name")), E.rd_field(loc, "ha").t
    nolocal = z3.And(z3.Not(z3.Select(Ud, lu)), z3.Not(z3.Select(Nd, ln)), z3.Not(z3.Select(Hd, lh)))
    return Sym(z3.And(fu, fn, fh, nolocal), "bool")


@specfunc
def replaced_at(E, cur, old, p, x):
    """cur == old with position p replaced by x"""
    n0 = E.llen(old)
    p = zint(p)
    i = z3.Int("i!rp%d" % next(E.counter))
    e = z3.ForAll([i], z3.Implies(z3.And(i >= 0, i < n0, i != p), E.tobool(E.equal(E.lget(cur, i), E.lget(old, i)))))
    return Sym(z3.And(E.llen(cur) == n0, e, E.tobool(E.equal(E.lget(cur, p), x))), "bool")


WF = ["inv(self.uidRemotes)", "inv(self.nameRemotes)", "inv(self.haRemotes)",
      "self.uidRemotes is not self.nameRemotes and self.uidRemotes is not self.haRemotes and "
      "self.nameRemotes is not self.haRemotes",
      "self.uidRemotes._keys is not self.nameRemotes._keys and self.uidRemotes._keys is not self.haRemotes._keys and "
      "self.nameRemotes._keys is not self.haRemotes._keys",
      "self.uidRemotes._d is not self.nameRemotes._d and self.uidRemotes._d is not self.haRemotes._d and "
      "self.nameRemotes._d is not self.haRemotes._d",
      "self.uidRemotes._pos is not self.nameRemotes._pos and self.uidRemotes._pos is not self.haRemotes._pos and "
      "self.nameRemotes._pos is not self.haRemotes._pos", "I3(self)"]
ALLMOD = ["self.%s.%s" % (ix, part) for ix in ("uidRemotes", "nameRemotes", "haRemotes")
          for part in ("_keys[*]", "_d{*}", "_pos{*}")]
SAME = " and ".join("keys_unchanged(self.%s) and same_vals_except(self.%s, None)" % (ix, ix)
                    for ix in ("uidRemotes", "nameRemotes", "haRemotes"))
P = dict(self=Ref("RemoteStack"), remote=Ref("Remote"))

contract(F, "RemoteStack.addRemote", "C37", params=P, requires=WF,
         modifies=ALLMOD + ["remote.stack"],
         ensures=WF + ["remote.uid in self.uidRemotes and self.uidRemotes[remote.uid] is remote",
                       "self.nameRemotes[remote.name] is remote and self.haRemotes[remote.ha] is remote",
                       "remote.stack is self", "result is remote",
                       # appended at the end of each index, everything else untouched
                       "is_concat(self.uidRemotes._keys, old_keys(self.uidRemotes), [remote.uid])",
                       "is_concat(self.nameRemotes._keys, old_keys(self.nameRemotes), [remote.name])",
                       "is_concat(self.haRemotes._keys, old_keys(self.haRemotes), [remote.ha])",
                       "same_vals_except(self.uidRemotes, remote.uid) and same_vals_except(self.nameRemotes, remote.name) "
                       "and same_vals_except(self.haRemotes, remote.ha)"],
         raises={"ValueError": [SAME, "remote.stack is old(remote.stack)"]}, returns=Ref("Remote"))


def _move(meth, field, index, keyty):
    ix = "self.%s" % index
    contract(F, "RemoteStack." + meth, "C37", params=dict(P, new=keyty), requires=WF,
             modifies=["%s._keys[*]" % ix, "%s._d{*}" % ix, "%s._pos{*}" % ix, "remote.%s" % field],
             ensures=WF + [
                 "implies(new == old(remote.%s), %s and remote.%s == new)" % (field, SAME, field),
                 "implies(new != old(remote.{f}), remote.{f} == new and new in {ix} and {ix}[new] is remote and "
                 "old(remote.{f}) not in {ix})".format(f=field, ix=ix),
                 # same position in iteration order: the key sequence is the old one with that one key replaced
                 "implies(new != old(remote.{f}), replaced_at({ix}._keys, old_keys({ix}), "
                 "old_pos({ix}, old(remote.{f})), new))".format(f=field, ix=ix),
             ],
             raises={"ValueError": [SAME, "remote.%s == old(remote.%s)" % (field, field)]})


_move("moveRemote", "uid", "uidRemotes", INT)
_move("renameRemote", "name", "nameRemotes", STR)
_move("rehaRemote", "ha", "haRemotes", HA)

contract(F, "RemoteStack.removeRemote", "C37", params=P, requires=WF, modifies=ALLMOD,
         ensures=WF + ["remote.uid not in self.uidRemotes and remote.name not in self.nameRemotes and "
                       "remote.ha not in self.haRemotes",
                       "same_vals_except(self.uidRemotes, remote.uid) and same_vals_except(self.nameRemotes, remote.name) "
                       "and same_vals_except(self.haRemotes, remote.ha)"],
         raises={"ValueError": [SAME]})
