"""Sidecar contracts.  PROPS maps a property id to the contract modules that carry it."""
PROPS = {
    "C43": ["c43_wrap"],
}
