"""Sidecar contracts.  PROPS maps a property id to the contract modules that carry it."""
PROPS = {
    "C04": ["c04_runner"],
    "C05": ["c05_outline", "c06_bracketing"],
    "C06": ["c06_bracketing"],
    "C08": ["c08_guards", "c06_bracketing", "c04_runner"],
    "C09": ["c09_auxes", "c11_clocks"],
    "C11": ["c11_clocks", "c06_bracketing"],
    "C21": ["c21_needs"],
    "C24": ["c24_streams"],
    "C25": ["c24_streams"],
    "C26": ["c26_server"],
    "C28": ["c24_streams"],
    "C38": ["c38_exchange"],
    "C41": ["c41_crc"],
    "C42": ["c42_timers"],
    "C43": ["c43_wrap"],
    "C46": ["c46_pid"],
}
