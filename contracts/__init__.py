"""Sidecar contracts.  PROPS maps a property id to the contract modules that carry it."""
PROPS = {
    "C01": [],
    "C04": ["c04_runner"],
    "C05": ["c05_outline", "c06_bracketing"],
    "C06": ["c06_bracketing"],
    "C08": ["c08_guards", "c06_bracketing", "c04_runner"],
    "C09": ["c09_auxes", "c11_clocks"],
    "C11": ["c11_clocks", "c06_bracketing", "c11_build"],
    "C21": ["c21_needs", "c11_build"],
    "C24": ["c24_streams", "c24_serial"],
    "C25": ["c24_streams", "c24_serial", "c35_gramstack", "c25_udp"],
    "C26": ["c26_server"],
    "C28": ["c24_streams", "c28_connects"],
    "C37": ["c37_remotes"],
    "C38": ["c38_exchange"],
    "C39": ["c39_odict"],
    "C41": ["c41_crc"],
    "C42": ["c42_timers"],
    "C43": ["c43_wrap"],
    "C46": ["c46_pid"],
}


# overlay: contracts/registry/<ID>.txt lists (one per line) the contract modules carrying property <ID>
import os as _os
_rd = _os.path.join(_os.path.dirname(_os.path.abspath(__file__)), "registry")
# An overlay for a property that is ALREADY registered above (an extension under development) only takes effect once
# the id is released in claimed.json - or, for the developer, with PYVC_DEV=1 - so that work in progress never changes
# what the registered check of a claimed property verifies.
try:
    import json as _json
    with open(_os.path.join(_os.path.dirname(_os.path.dirname(_os.path.abspath(__file__))), "claimed.json")) as _fh:
        _released = set(_json.load(_fh))
except Exception:
    _released = set()
_builtin = set(PROPS)
if _os.path.isdir(_rd):
    for _f in sorted(_os.listdir(_rd)):
        if _f.endswith(".txt") and not _f.endswith(".dev.txt"):
            _id = _f[:-4]
            if _id in _builtin and _id not in _released and not _os.environ.get("PYVC_DEV"):
                continue
            with open(_os.path.join(_rd, _f)) as _fh:
                PROPS[_id] = [l.strip() for l in _fh if l.strip() and not l.startswith("#")]
    # extension of a released property under development: registry/<ID>.dev.txt lists ADDITIONAL modules, read only
    # with PYVC_DEV=1 (never by a registered command)
    if _os.environ.get("PYVC_DEV"):
        for _f in sorted(_os.listdir(_rd)):
            if _f.endswith(".dev.txt"):
                _id = _f[:-8]
                with open(_os.path.join(_rd, _f)) as _fh:
                    PROPS[_id] = list(PROPS.get(_id, [])) + [l.strip() for l in _fh
                                                               if l.strip() and not l.startswith("#") and l.strip() not in PROPS.get(_id, [])]
