"""Models shared by the stream-transport contracts (C24, C25, C28, C36).

socket (external, demonic, assumed): send(data) accepts any prefix (0 <= n <= len(data); ghost `wire` grows by
exactly data[:n]) or raises socket.error / ssl.SSLError with ANY errno, leaving the wire unchanged;
recv(n) returns any byte string or raises likewise.
deque of byte strings: front/back offsets over a backing array, `flat` = concatenation front to back
(uninterpreted, unfolded at the front on demand; two lemmas about it are proved by induction in this file).
"""
from pyvc.api import *
from pyvc import builtins_ as B
import z3
import errno
import socket
import ssl

SeqSeq = z3.ArraySort(z3.IntSort(), SeqInt)
FLAT = z3.Function("flat", SeqSeq, z3.IntSort(), z3.IntSort(), SeqInt)

classdecl("Sock", fields=dict(wire=BYTES, got=BYTES))
classdecl("WLog", fields=dict(txcat=BYTES, rxcat=BYTES))
classdecl("BArr", fields=dict(content=BYTES))
classdecl("DequeB", fields=dict(lo=INT, hi=INT, buf=List(BYTES)),
          truthy=lambda E, obj: zint(E.rd_field(obj, "hi")) > zint(E.rd_field(obj, "lo")))

REG.assume_note("socket double (assumed external contract): send(data) returns any 0 <= n <= len(data) and the wire "
                "grows by exactly data[:n], or raises socket.error/ssl.SSLError carrying any errno with the wire "
                "unchanged; recv returns any bytes or raises likewise; wire log writeTx/writeRx append to a ghost "
                "concatenation")


# ---------------------------------------------------------------- deque of byte strings
def dq_arr(E, dq):
    buf = E.rd_field(dq, "buf")
    return E.larrs(buf)[0], buf


def dq_flat(E, dq):
    arr, _ = dq_arr(E, dq)
    return FLAT(arr, zint(E.rd_field(dq, "lo")), zint(E.rd_field(dq, "hi")))


def flat_unfold_front(E, arr, lo, hi):
    """definition of flat, unfolded once at the front"""
    E.assume(z3.Implies(lo >= hi, FLAT(arr, lo, hi) == z3.Empty(SeqInt)))
    E.assume(z3.Implies(lo < hi, FLAT(arr, lo, hi) == z3.Concat(z3.Select(arr, lo), FLAT(arr, lo + 1, hi))))


def flat_frame(E, a, b, lo, hi):
    """LEMMA (proved by induction below, file-level obligation `flat-frame`): arrays that agree on [lo, hi) have
    the same flat over that range.  Instance for b == Store(a, k, v) with k outside [lo, hi)."""
    E.assume(FLAT(a, lo, hi) == FLAT(b, lo, hi))


@hook("DequeB", "getattr", "popleft")
def _dq_popleft(E, dq):
    def m(E2):
        lo, hi = zint(E2.rd_field(dq, "lo")), zint(E2.rd_field(dq, "hi"))
        if "IndexError" in E2.raises_decl or E2.in_try():
            if not E2.branch(hi > lo):
                from pyvc.engine import PyRaise
                raise PyRaise(ExcV(IndexError, ("pop from an empty deque",)))
        else:
            E2.oblige("safe", hi > lo, "popleft from non-empty deque")
        arr, _ = dq_arr(E2, dq)
        flat_unfold_front(E2, arr, lo, hi)
        x = Sym(z3.Select(arr, lo), "bytes")
        E2.wr_field(dq, "lo", Sym(lo + 1, "int"))
        return x
    m._specfunc = True
    return m


@hook("DequeB", "getattr", "appendleft")
def _dq_appendleft(E, dq):
    def m(E2, x):
        lo, hi = zint(E2.rd_field(dq, "lo")), zint(E2.rd_field(dq, "hi"))
        arr, buf = dq_arr(E2, dq)
        new = z3.Store(arr, lo - 1, zbytes(x))
        E2.set_larrs(buf, [new])
        E2.wr_field(dq, "lo", Sym(lo - 1, "int"))
        flat_frame(E2, arr, new, lo, hi)                 # slot lo-1 is outside [lo, hi)
        flat_unfold_front(E2, new, lo - 1, hi)
        return None
    m._specfunc = True
    return m


@hook("DequeB", "getattr", "append")
def _dq_append(E, dq):
    def m(E2, x):
        lo, hi = zint(E2.rd_field(dq, "lo")), zint(E2.rd_field(dq, "hi"))
        arr, buf = dq_arr(E2, dq)
        new = z3.Store(arr, hi, zbytes(x))
        E2.set_larrs(buf, [new])
        E2.wr_field(dq, "hi", Sym(hi + 1, "int"))
        # LEMMA flat-snoc (proved by induction below): flat(a[hi := x], lo, hi + 1) == flat(a, lo, hi) ++ x
        E2.assume(z3.Implies(lo <= hi, FLAT(new, lo, hi + 1) == z3.Concat(FLAT(arr, lo, hi), zbytes(x))))
        return None
    m._specfunc = True
    return m


@hook("DequeB", "len")
def _dq_len(E, dq):
    return Sym(zint(E.rd_field(dq, "hi")) - zint(E.rd_field(dq, "lo")), "int")


@specfunc
def flat(E, dq):
    return Sym(dq_flat(E, dq), "bytes")


@specfunc
def dq_same(E, dq, lo_old, hi_old):
    return Sym(z3.And(zint(E.rd_field(dq, "lo")) == zint(lo_old), zint(E.rd_field(dq, "hi")) == zint(hi_old)), "bool")


flat.native = lambda dq: b"".join(bytes(x) for x in dq)


# ---------------------------------------------------------------- bytearray
@hook("BArr", "getattr", "extend")
def _ba_extend(E, ba):
    def m(E2, data):
        data = E2.unopt(data, "argument of extend")
        cur = E2.rd_field(ba, "content")
        E2.wr_field(ba, "content", Sym(z3.Concat(zbytes(cur), zbytes(data)), "bytes"))
        return None
    m._specfunc = True
    return m


@hook("BArr", "len")
def _ba_len(E, ba):
    return Sym(z3.Length(zbytes(E.rd_field(ba, "content"))), "int")


@hook("BArr", "getslice")
def _ba_getslice(E, ba, lo, hi):
    return B.getslice(E, E.rd_field(ba, "content"), lo, hi, None)


@hook("BArr", "setslice")
def _ba_setslice(E, ba, lo, hi, v):
    cur = zbytes(E.rd_field(ba, "content"))
    n = z3.Length(cur)
    a, b = B.clamp_bounds(E, lo, hi, n)
    v = E.unopt(v, "assigned slice")
    E.wr_field(ba, "content", Sym(z3.Concat(z3.Extract(cur, 0, a), zbytes(v), z3.Extract(cur, b, n - b)), "bytes"))


@hook("BArr", "delslice")
def _ba_delslice(E, ba, lo, hi):
    cur = zbytes(E.rd_field(ba, "content"))
    n = z3.Length(cur)
    a, b = B.clamp_bounds(E, lo, hi, n)
    E.wr_field(ba, "content", Sym(z3.Concat(z3.Extract(cur, 0, a), z3.Extract(cur, b, n - b)), "bytes"))


# ---------------------------------------------------------------- socket
def _raise_sockerr(E, classes):
    """raise one of the given exception classes with an arbitrary errno as args[0]"""
    idx = E.choose(len(classes)) if len(classes) > 1 else 0
    e = Sym(E.fresh("errno", z3.IntSort()), "int")
    E.ghost["errno"] = e
    E.ghost["sock_raised"] = True
    E.ghost["exc_class"] = classes[idx]
    from pyvc.engine import PyRaise
    raise PyRaise(ExcV(classes[idx], (e, Opaque_("strerror")), {"errno_sym": True}))


SOCK_ERRS = [OSError, ssl.SSLError]


@hook("Sock", "getattr", "send")
def _sock_send(E, sock):
    def m(E2, data):
        if E2.choose(2) == 1:
            _raise_sockerr(E2, SOCK_ERRS)
        zb = zbytes(data)
        n = E2.fresh("sent", z3.IntSort())
        E2.assume(z3.And(n >= 0, n <= z3.Length(zb)))
        E2.ghost["sent_n"] = Sym(n, "int")
        wire = zbytes(E2.rd_field(sock, "wire"))
        E2.wr_field(sock, "wire", Sym(z3.Concat(wire, z3.Extract(zb, 0, n)), "bytes"))
        return Sym(n, "int")
    m._specfunc = True
    return m


@hook("Sock", "getattr", "recv")
def _sock_recv(E, sock):
    def m(E2, bufsize):
        if E2.choose(2) == 1:
            _raise_sockerr(E2, SOCK_ERRS)
        d = E2.fresh("rcvd", SeqInt)
        E2.assume(z3.Length(d) <= zint(bufsize))
        got = zbytes(E2.rd_field(sock, "got"))
        E2.wr_field(sock, "got", Sym(z3.Concat(got, d), "bytes"))
        E2.ghost["rcvd"] = Sym(d, "bytes")
        return Sym(d, "bytes")
    m._specfunc = True
    return m


for _meth, _field in (("writeTx", "txcat"), ("writeRx", "rxcat")):
    def _mk(field):
        def attr(E, wl):
            def m(E2, ha, data):
                cur = zbytes(E2.rd_field(wl, field))
                E2.wr_field(wl, field, Sym(z3.Concat(cur, zbytes(data)), "bytes"))
                return None
            m._specfunc = True
            return m
        return attr
    REG.classes["WLog"].hooks[("getattr", _meth)] = _mk(_field)

# statement's error sets (written here once, NOT copied from the code)
LOSS = (errno.ECONNRESET, errno.ENETRESET, errno.ENETUNREACH, errno.EHOSTUNREACH, errno.ENETDOWN, errno.EHOSTDOWN,
        errno.ETIMEDOUT, errno.ECONNREFUSED)
WOULDBLOCK = (errno.EAGAIN, errno.EWOULDBLOCK)
TLS_WOULDBLOCK = (int(ssl.SSL_ERROR_WANT_READ), int(ssl.SSL_ERROR_WANT_WRITE))
TLS_EOF = int(ssl.SSL_ERROR_EOF)


# ---------------------------------------------------------------- lemmas about flat, proved by induction
def flat_lemmas():
    """returns [(name, pc, goal)] : induction steps discharged with the other obligations of C24.
    Definition D (for all a, lo, hi): lo >= hi -> flat = empty ; lo < hi -> flat(a,lo,hi) = a[lo] ++ flat(a,lo+1,hi).
    frame:  a, b agree on [lo, hi)  ->  flat(a,lo,hi) = flat(b,lo,hi)      (induction on hi - lo)
    snoc :  lo <= hi -> flat(a[hi:=x], lo, hi+1) = flat(a,lo,hi) ++ x      (induction on hi - lo)"""
    a = z3.Const("a", SeqSeq)
    b = z3.Const("b", SeqSeq)
    lo, hi, k = z3.Ints("lo hi k")
    x = z3.Const("x", SeqInt)

    def D(arr, l, h):
        return [z3.Implies(l >= h, FLAT(arr, l, h) == z3.Empty(SeqInt)),
                z3.Implies(l < h, FLAT(arr, l, h) == z3.Concat(z3.Select(arr, l), FLAT(arr, l + 1, h)))]
    out = []
    agree = z3.ForAll([k], z3.Implies(z3.And(lo <= k, k < hi), z3.Select(a, k) == z3.Select(b, k)))
    # frame: base (lo >= hi) and step (lo < hi with IH at lo+1)
    out.append(("flat-frame/base", D(a, lo, hi) + D(b, lo, hi) + [lo >= hi], FLAT(a, lo, hi) == FLAT(b, lo, hi)))
    ih = FLAT(a, lo + 1, hi) == FLAT(b, lo + 1, hi)
    out.append(("flat-frame/step", D(a, lo, hi) + D(b, lo, hi) + [lo < hi, agree, ih],
                FLAT(a, lo, hi) == FLAT(b, lo, hi)))
    # snoc: base lo == hi ; step lo < hi with IH at lo+1 (and frame for the stored slot)
    a2 = z3.Store(a, hi, x)
    out.append(("flat-snoc/base", D(a2, lo, hi + 1) + D(a2, lo + 1, hi + 1) + D(a, lo, hi) + [lo == hi],
                FLAT(a2, lo, hi + 1) == z3.Concat(FLAT(a, lo, hi), x)))
    ih2 = FLAT(a2, lo + 1, hi + 1) == z3.Concat(FLAT(a, lo + 1, hi), x)
    out.append(("flat-snoc/step", D(a2, lo, hi + 1) + D(a, lo, hi) + [lo < hi, ih2],
                FLAT(a2, lo, hi + 1) == z3.Concat(FLAT(a, lo, hi), x)))
    return out
