"""Class declarations for ioflo/base/framing.py (Framer, Frame) and the acts they call.

Acts (`act()`), needs and auxiliary framers' own runs are opaque: a call is recorded in the ghost call
trace and may change store data that is not modelled; by assumption (stated in DESIGN.md) an act does not
call methods of the framer that is running it (no re-entrancy).
"""
from pyvc.api import *
from contracts import c42_timers   # StoreLike
from contracts.lib import *
import z3

FF = "ioflo/base/framing.py"

classdecl("Act", fields={})
classdecl("ShareReal", fields=dict(value=REAL))
classdecl("ShareInt", fields=dict(value=INT))
classdecl("ShareStr", fields=dict(value=STR, name=STR))


def _share_update(E, obj, args, kwargs):
    if "value" in kwargs:
        E.wr_field(obj, "value", kwargs["value"])


for _c in ("ShareReal", "ShareInt", "ShareStr"):
    @hook(_c, "getattr", "update")
    def _upd(E, obj):
        def m(E2, *args, **kwargs):
            _share_update(E2, obj, args, kwargs)
            return obj
        m._specfunc = True
        return m


@hook("Act", "call")
def _act_call(E, act, args, kwargs):
    """an act is an opaque callable: traced, returns an arbitrary truth value"""
    slot = E.ct_append("act", act, None)
    v = E.fresh_val("act_result", BOOL)
    E.ct_bind_result(slot, v)
    E.ghost.setdefault("act_results", []).append(v)
    return v


FRAME_F = dict(name=STR, framer=Ref("Framer"), over=Opt(Ref("Frame")), unders=List(Ref("Frame")),
               outline=List(Ref("Frame")), head=List(Ref("Frame")), human=STR, headHuman=STR,
               beacts=List(Ref("Act")), enacts=List(Ref("Act")), renacts=List(Ref("Act")),
               reacts=List(Ref("Act")), preacts=List(Ref("Act")), exacts=List(Ref("Act")),
               rexacts=List(Ref("Act")), auxes=List(Ref("Framer")))
classdecl("Frame", file=FF, fields=FRAME_F)

FRAMER_F = dict(name=STR, store=Ref("StoreLike"), stamp=Opt(REAL), elapsed=REAL, recurred=INT,
                elapsedShr=Ref("ShareReal"), recurredShr=Ref("ShareInt"), activeShr=Ref("ShareStr"),
                humanShr=Ref("ShareStr"), first=Opt(Ref("Frame")), active=Opt(Ref("Frame")),
                actives=List(Ref("Frame")), human=STR, done=BOOL, status=INT, desire=INT, schedule=INT,
                main=Opt(Ref("Frame")), original=BOOL)
classdecl("Framer", file=FF, fields=FRAMER_F)

# ---------------------------------------------------------------- frame-level methods as seen by the framer
# Effects visible to the caller: auxiliary framers (other Framer objects) may change their own run state;
# the framer that owns the frame keeps its fields (no re-entrancy assumption).  What each method does
# inside (acts, auxes, order) is its own contract in c09_auxes.py.
FRAMER_RUN_FIELDS = {"Framer": ["main", "actives", "active", "done", "human", "status", "desire", "stamp",
                                "elapsed", "recurred"]}
# system-wide well-formedness (established by build/resolve, preserved by every run operation): the frames a
# framer has active are its own frames
ACTIVES_OWNED = ("forall(Ref('Framer'), lambda a: forall(lambda j: implies(0 <= j and j < len(a.actives), "
                 "a.actives[j].framer is a)), trigger=lambda a: a.actives)")
OTHER_FRAMERS = havoc_all_but(FRAMER_RUN_FIELDS, keep=["self.framer"], wf=[ACTIVES_OWNED])
REG.assume_note("opaque parts (acts, auxiliary framers' runs) are assumed to preserve the ownership "
                "well-formedness: every framer's active frames are frames of that framer")
REG.assume_note("no re-entrancy: acts, needs and auxiliary framers run by a frame do not call methods of, nor write "
                "fields of, the framer that owns that frame (their effects on store data are not modelled)")

FA = "ioflo/base/acting.py"
