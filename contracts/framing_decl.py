"""Class declarations for ioflo/base/framing.py (Framer, Frame) and the acts they call.

Acts (`act()`), needs and auxiliary framers' own runs are opaque: a call is recorded in the ghost call
trace and may change store data that is not modelled; by assumption (stated in DESIGN.md) an act does not
call methods of the framer that is running it (no re-entrancy).  One field write by acts IS modelled: a `done` act
sets .done of a framer (possibly its own) to True.
"""
from pyvc.api import *
from contracts import c42_timers   # StoreLike
from contracts.lib import *
import z3

FF = "ioflo/base/framing.py"

classdecl("Act", fields={})
classdecl("ShareReal", fields=dict(value=REAL))
classdecl("ShareInt", fields=dict(value=INT))
classdecl("ShareStr", fields=dict(value=STR, name=STR))


def _share_update(E, obj, args, kwargs):
    if "value" in kwargs:
        E.wr_field(obj, "value", kwargs["value"])


for _c in ("ShareReal", "ShareInt", "ShareStr"):
    @hook(_c, "getattr", "update")
    def _upd(E, obj):
        def m(E2, *args, **kwargs):
            _share_update(E2, obj, args, kwargs)
            return obj
        m._specfunc = True
        return m


@hook("Act", "call")
def _act_call(E, act, args, kwargs):
    """an act is an opaque callable: traced, returns an arbitrary truth value"""
    slot = E.ct_append("act", act, None)
    v = E.fresh_val("act_result", BOOL)
    E.ct_bind_result(slot, v)
    E.ghost.setdefault("act_results", []).append(v)
    return v


# Action acts (enter / renter / recur / precur / exit / rexit contexts) versus conditions: a `done` act
# (completing.CompleteDone.action: `tasker.done = True` for each named framer, `me` included) is an action act and
# WRITES a framer field: .done of any framer, the one running the act included, may go from False to True during such a
# call (never back: the only writers of Framer.done are CompleteDone (True), Framer.enterAll (False), Framer.exitAll
# (True) and the runner prelude).  Needs (benter conditions, transition / conditional-auxiliary needs) and the transit
# acts their resolution generates (marker resets) are conditions / store updates: they stay plain `Act`.
classdecl("DoAct", fields={}, bases=("Act",))
DONE_KEY = ("f", "Framer.done", 0)


def acts_may_complete(E):
    """every framer's .done may have been set True (monotone); usable as a `modifies` entry and from the DoAct hook"""
    old = E.harr(DONE_KEY, [z3.IntSort()], z3.BoolSort())
    new = E.fresh("hvf_done_acts", old.sort())
    r = z3.Int("r!done")
    E.assume(z3.ForAll([r], z3.Implies(z3.Select(old, r), z3.Select(new, r)), patterns=[z3.Select(new, r)]))
    E.heap[DONE_KEY] = new
    E.note_write(DONE_KEY, ("allbut", ()))


acts_may_complete.frame = lambda E: []
acts_may_complete.allbut = ({"Framer": ["done"]}, [])


@hook("DoAct", "call")
def _doact_call(E, act, args, kwargs):
    """an action act: traced, arbitrary truth value, may complete framers (.done := True)"""
    v = _act_call(E, act, args, kwargs)
    acts_may_complete(E)
    return v


FRAME_F = dict(name=STR, framer=Ref("Framer"), over=Opt(Ref("Frame")), unders=List(Ref("Frame")),
               outline=List(Ref("Frame")), head=List(Ref("Frame")), human=STR, headHuman=STR,
               beacts=List(Ref("Act")), enacts=List(Ref("DoAct")), renacts=List(Ref("DoAct")),
               reacts=List(Ref("DoAct")), preacts=List(Ref("DoAct")), exacts=List(Ref("DoAct")),
               rexacts=List(Ref("DoAct")), auxes=List(Ref("Framer")))
classdecl("Frame", file=FF, fields=FRAME_F)

FRAMER_F = dict(name=STR, store=Ref("StoreLike"), stamp=Opt(REAL), elapsed=REAL, recurred=INT,
                elapsedShr=Ref("ShareReal"), recurredShr=Ref("ShareInt"), activeShr=Ref("ShareStr"),
                humanShr=Ref("ShareStr"), first=Opt(Ref("Frame")), active=Opt(Ref("Frame")),
                actives=List(Ref("Frame")), human=STR, done=BOOL, status=INT, desire=INT, schedule=INT,
                main=Opt(Ref("Frame")), original=BOOL)
classdecl("Framer", file=FF, fields=FRAMER_F)

# ---------------------------------------------------------------- frame-level methods as seen by the framer
# Effects visible to the caller: auxiliary framers (other Framer objects) may change their own run state;
# the framer that owns the frame keeps its fields (no re-entrancy assumption).  What each method does
# inside (acts, auxes, order) is its own contract in c09_auxes.py.
FRAMER_RUN_FIELDS = {"Framer": ["main", "actives", "active", "done", "human", "status", "desire", "stamp",
                                "elapsed", "recurred"]}
# system-wide well-formedness (established by build/resolve, preserved by every run operation): the frames a
# framer has active are its own frames
ACTIVES_OWNED = ("forall(Ref('Framer'), lambda a: forall(lambda j: implies(0 <= j and j < len(a.actives), "
                 "a.actives[j].framer is a)), trigger=lambda a: a.actives)")


def framers_may_change(keep, wf=(ACTIVES_OWNED,)):
    """modifies entry for operations that run opaque acts / auxiliary framers: the run fields of every framer may
    change except on the `keep` objects (no re-entrancy) - EXCEPT .done, which a `done` act may set True on any framer,
    the kept ones included: on a kept framer .done changes monotonically (False -> True), everything else is kept"""
    base = havoc_all_but(FRAMER_RUN_FIELDS, keep=list(keep), wf=list(wf))

    def m(E):
        keeps = [E.spec_value(k) for k in keep]
        olds = [z3.Select(E.harr(DONE_KEY, [z3.IntSort()], z3.BoolSort()), kv.t) for kv in keeps]
        base(E)
        for kv, o in zip(keeps, olds):
            d = E.fresh("done_after_acts", z3.BoolSort())
            E.assume(z3.Implies(o, d))
            E.heap[DONE_KEY] = z3.Store(E.heap[DONE_KEY], kv.t, d)
            E.note_write(DONE_KEY, kv.t)

    def allowed(E):
        # frame check: the kept objects' .done is an allowed location (evaluated in the pre-state, as the keeps are)
        saved = E.heap
        E.heap = dict(E.heap_old)
        try:
            return [(DONE_KEY, E.spec_value(k).t) for k in keep]
        finally:
            E.heap = saved
    m.frame = allowed
    m.allbut = base.allbut
    return m


OTHER_FRAMERS = framers_may_change(keep=["self.framer"])
REG.assume_note("opaque parts (acts, auxiliary framers' runs) are assumed to preserve the ownership "
                "well-formedness: every framer's active frames are frames of that framer")
REG.assume_note("no re-entrancy: acts, needs and auxiliary framers run by a frame do not call methods of, nor write "
                "fields of, the framer that owns that frame (their effects on store data are not modelled) - with ONE "
                "exception that IS modelled: an action act may be a `done` act (CompleteDone: framer.done = True), so "
                ".done of any framer, the owning one included, may go from False to True across enter / renter / recur / "
                "precur / exit / rexit acts; needs and the transit (marker) acts generated from needs are conditions / "
                "store updates and are assumed not to write framer fields at all")

FA = "ioflo/base/acting.py"
