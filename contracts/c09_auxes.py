"""C09 auxiliaries live with their main frame: bodies of Frame.enter/exit/renter/rexit/recur/segueAuxes
(ioflo/base/framing.py), CompleteDone.action (completing.py) and NeedDoneAux.action (needing.py).

Ghost call trace per body: enter = enacts in order, then per auxiliary (in order) claim it and enterAll();
exit = per auxiliary exitAll() and release it, THEN the exit acts (auxes were entered last, exited first);
recur = reacts then each auxiliary's recur(); segueAuxes = each auxiliary's segue().
Framer.segue's 'all segueAuxes before any precur' is in c11_clocks.py (counted for C09 too).
"""
from pyvc.api import *
from contracts.framing_decl import *
from contracts.lib import *
from contracts import c06_bracketing, c11_clocks, c08_guards

AUXF = {"Framer": ["main", "actives", "active", "done", "human", "status", "desire", "stamp", "elapsed", "recurred"]}
# the auxiliaries of this frame run; the framer that owns the frame is not one of them
NOT_OWN = "forall(lambda m: implies(0 <= m and m < len(self.auxes), self.auxes[m] is not self.framer))"
OWN_AUX = ("forall(lambda m: implies(0 <= m and m < len(self.auxes), forall(lambda j: implies(0 <= j and "
           "j < len(self.auxes[m].actives), self.auxes[m].actives[j].framer is self.auxes[m]))))")
AUX_MOD = framers_may_change(keep=["self.framer"])      # .done of any framer may be set True by a `done` act
REG.inline_ok.add("Frame.getUnder")

# call-site views of the auxiliary framer's whole-outline operations (their bodies: c06_bracketing.py)
NACTS = "len(self.{acts})"


def _acts_then_auxes(meth, acts, auxcall, claim):
    n = NACTS.format(acts=acts)
    per = 1
    inv0 = ["ct_len() == _i",
            "forall(lambda j: implies(0 <= j and j < _i, ct_is(j, 'act', self.%s[j])))" % acts]
    inv1 = ["ct_len() == %s + _i" % n,
            "forall(lambda j: implies(0 <= j and j < %s, ct_is(j, 'act', self.%s[j])))" % (n, acts),
            "forall(lambda k: implies(%s <= k and k < %s + _i, ct_is(k, '%s', self.auxes[k - %s])))"
            % (n, n, auxcall, n), NOT_OWN]
    posts = ["ct_len() == %s + len(self.auxes)" % n,
             "forall(lambda j: implies(0 <= j and j < %s, ct_is(j, 'act', self.%s[j])))" % (n, acts),
             "forall(lambda k: implies(%s <= k and k < ct_len(), ct_is(k, '%s', self.auxes[k - %s])))"
             % (n, auxcall, n)]
    ens = []
    if claim:
        inv1.append("forall(lambda m: implies(0 <= m and m < _i and self.auxes[m].original, "
                    "self.auxes[m].main is self))" if False else "True")
    return inv0, inv1, posts


AUX_REQ = [NOT_OWN, c08_guards.AUX_WF,
           "forall(Ref('Framer'), lambda a: a.humanShr is not a.activeShr, trigger=lambda a: a.humanShr)"]

i0, i1, p = _acts_then_auxes("enter", "enacts", "Framer.enterAll", True)
contract(FF, "Frame.enter", "C09", params=dict(self=Ref("Frame")), assumes=AUX_REQ, modifies=[AUX_MOD],
         frame=False, loops={0: dict(inv=i0), 1: dict(inv=i1)}, local_ensures=p,
         note="frame obligations off: the auxiliaries' run fields change (declared), nothing else is written")

i0, i1, p = _acts_then_auxes("recur", "reacts", "Framer.recur", False)
contract(FF, "Frame.recur", "C09", params=dict(self=Ref("Frame")), assumes=AUX_REQ, modifies=[AUX_MOD],
         frame=False, loops={0: dict(inv=i0), 1: dict(inv=i1)}, local_ensures=p)

# exit: auxiliaries first (exitAll, release), then the exit acts
NA = "len(self.auxes)"
contract(FF, "Frame.exit", "C09", params=dict(self=Ref("Frame")), assumes=AUX_REQ, modifies=[AUX_MOD], frame=False,
         loops={0: dict(inv=["ct_len() == _i",
                             "forall(lambda m: implies(0 <= m and m < _i, ct_is(m, 'Framer.exitAll', self.auxes[m])))",
                             NOT_OWN]),
                1: dict(inv=["ct_len() == %s + _i" % NA,
                             "forall(lambda m: implies(0 <= m and m < %s, ct_is(m, 'Framer.exitAll', self.auxes[m])))" % NA,
                             "forall(lambda k: implies(%s <= k and k < %s + _i, ct_is(k, 'act', self.exacts[k - %s])))"
                             % (NA, NA, NA)])},
         local_ensures=["ct_len() == %s + len(self.exacts)" % NA,
                        "forall(lambda m: implies(0 <= m and m < %s, ct_is(m, 'Framer.exitAll', self.auxes[m])))" % NA,
                        "forall(lambda k: implies(%s <= k and k < ct_len(), ct_is(k, 'act', self.exacts[k - %s])))"
                        % (NA, NA)])

for _m, _acts in (("renter", "renacts"), ("rexit", "rexacts")):
    contract(FF, "Frame." + _m, "C09", params=dict(self=Ref("Frame")), modifies=[acts_may_complete],
             loops={0: dict(inv=["ct_len() == _i",
                                 "forall(lambda j: implies(0 <= j and j < _i, ct_is(j, 'act', self.%s[j])))" % _acts])},
             local_ensures=["ct_len() == len(self.%s)" % _acts,
                            "forall(lambda j: implies(0 <= j and j < ct_len(), ct_is(j, 'act', self.%s[j])))" % _acts])

contract(FF, "Frame.segueAuxes", "C09", params=dict(self=Ref("Frame")), assumes=AUX_REQ, modifies=[AUX_MOD],
         frame=False,
         loops={0: dict(inv=["ct_len() == _i",
                             "forall(lambda m: implies(0 <= m and m < _i, ct_is(m, 'Framer.segue', self.auxes[m])))",
                             NOT_OWN])},
         local_ensures=["ct_len() == len(self.auxes)",
                        "forall(lambda m: implies(0 <= m and m < ct_len(), ct_is(m, 'Framer.segue', self.auxes[m])))"])
