"""C35 datagram stacks send each destination's packets once, in queue order; C25 (datagram clause): transient
destination errors on send and receive are retryable, not fatal.
GramStack._serviceOneTxPkt / serviceTxPkts / serviceTxPktsOnce / transmit / _serviceOneReceived / parserize
(ioflo/aio/proto/stacking.py; UdpStack inherits the first three and _serviceOneReceived unchanged).

Model
  .txPkts            deque of (packet, destination) duples            List(Tup(Ref GramPkt, ha))
  .handler           external datagram handler (assumed, demonic): send(packed, ha) either appends the datagram
                     (packed, ha) to the GHOST wire (wire[nwire], nwire += 1) and returns a count, or raises
                     socket.error with an ARBITRARY errno, recording ghost: failed += {ha}, nfail += 1,
                     nhard += 1 iff the errno is not one of the statement's transient ones, errno = that errno.
                     receive() returns any (raw, source) duple or raises likewise.  .opened is a bool.
  ghost enqueue number = position in the queue at entry of the call (g_old = snapshot of .txPkts at entry).
  Ghost tag lists kept by ONE ghost statement after each call of _serviceOneTxPkt:
     g_st[j]  = entry position of the j-th datagram sent in this call,
     g_lt[j]  = entry position of the j-th duple deferred to `laters`,
     g_w[i]   = where entry position i went (>= 0: j-th datagram sent; < 0: duple -(g_w[i])-1 of laters).
  The post-conditions are statements about the existence of a bijection between entry positions and the positions
  of  C = (datagrams sent in this call) ++ (.txPkts afterwards); the prover exhibits the bijection built from the
  ghost tags, the native twin of each clause decides the same statement by direct search on concrete data.

Statement -> serviceTxPkts:
  c35_conserved        every queued duple is in exactly one place of C (sent once, or still queued once) and C has
                       nothing else;
  c35_dest_order_kept  two entries of C with the same destination appear in their entry order (so a later pass
                       continues in order; nothing is reordered within a destination);
  c35_only_failed_left every duple still queued afterwards has a destination whose send failed in THIS call
                       (a failing destination never blocks packets to other destinations);
  C25: a send error that does not propagate was transient (nhard unchanged); any other errno propagates.
serviceTxPktsOnce: same bijection and order clauses (the deferred head must go back to the FRONT of the queue:
  loop invariant and witness are written for `self.txPkts.appendleft(laters.pop())`); transmit: appended at the back.
Receive side (C25 only): _serviceOneReceived - transient errno => returns False, no raise, .rxPkts unchanged; any
  other errno propagates; parserize (callee) verified against the base packeting.Packet.

Findings on the tree as of 2026-09-22 (native demonstrations findings/c35_reorder.py, findings/c25_gram_receive.py):
  serviceTxPkts breaks at the first already-blocked destination (reorders a destination, blocks the others);
  serviceTxPktsOnce requeues a transiently failed head at the BACK (A1 A2 A3 -> sent A2 A3 A1);
  _serviceOneReceived compares errno == (tuple): every transient receive error is re-raised.
"""
from pyvc.api import *
from pyvc import builtins_ as B
from pyvc.engine import PyRaise
from contracts.lib import *
import collections as _collections
import errno as _errno
import z3

F = "ioflo/aio/proto/stacking.py"
FP = "ioflo/aio/proto/packeting.py"
HA = Opaque("ha")
PACKED = Opaque("packed")
DUPLE = Tup(Ref("GramPkt"), HA)          # element of .txPkts / laters
GRAM = Tup(PACKED, HA)                   # datagram on the ghost wire
RXDUPLE = Tup(Ref("Packet"), HA)         # element of .rxPkts

# the statement's transient destination errors (C25 / DESIGN.md section 4), written here, NOT imported from the code
TRANSIENT = (_errno.ECONNREFUSED, _errno.ECONNRESET, _errno.ENETRESET, _errno.ENETUNREACH, _errno.EHOSTUNREACH,
             _errno.ENETDOWN, _errno.EHOSTDOWN, _errno.ETIMEDOUT, _errno.ETIME)
TR = repr(TRANSIENT)

classdecl("GramPkt", file=FP, fields=dict(packed=PACKED))
REG.classes["GramPkt"].source = "Packet"          # pkt.pack() resolves to the real packeting.Packet.pack
classdecl("Packet", file=FP, fields=dict(packed=BYTES, stack=Opt(Ref("GramStack"))))
for _q in ("Packet.pack", "Packet.parse", "Part.size", "Part.__len__"):
    REG.inline_ok.add(_q)
classdecl("GramHandler", fields=dict(opened=BOOL, nwire=INT, wire=Dict(INT, GRAM), failed=Dict(HA, INT),
                                     nfail=INT, nhard=INT, errno=INT))
classdecl("GramStack", file=F, fields=dict(txPkts=List(DUPLE), rxPkts=List(RXDUPLE), handler=Ref("GramHandler")))

REG.assume_note("datagram handler (assumed external contract, demonic): handler.send(packed, ha) either appends "
                "(packed, ha) to the ghost wire and returns a count, or raises socket.error carrying ANY errno with "
                "the wire unchanged (ghost: destination recorded in `failed`, nfail/nhard counters, last errno); "
                "handler.receive() returns any (raw, source) duple or raises socket.error with any errno; "
                "handler.opened is a plain bool")
REG.assume_note("collections.deque() is modelled as an empty list with popleft/append/appendleft; a destination "
                "address is an opaque hashable value with equality (None is one more such value)")
REG.assume_note("packeting.Packet(stack=...) construction is not followed (ctor hook: new object, empty .packed); "
                "Packet.pack / Packet.parse / Part.size are inlined from the real source (base class Packet; a "
                "subclass whose pack()/parse() raises ValueError is outside these contracts)")


@external("collections.deque", obj=_collections.deque)
def _deque(E, args, kwargs):
    if args or kwargs:
        raise Unsupported("deque(...) with arguments")
    return E.new_list(None, 0, kind="deque")


def _raise_gram_err(E, h, da=None):
    e = Sym(E.fresh("errno", z3.IntSort()), "int")
    E.wr_field(h, "nfail", Sym(zint(E.rd_field(h, "nfail")) + 1, "int"))
    hard = z3.Not(z3.Or(*[e.t == k for k in TRANSIENT]))
    E.wr_field(h, "nhard", Sym(zint(E.rd_field(h, "nhard")) + z3.If(hard, 1, 0), "int"))
    E.wr_field(h, "errno", e)
    if da is not None:
        E.dset(E.rd_field(h, "failed"), da, 0)
    raise PyRaise(ExcV(OSError, (e, Opaque_("strerror")), {"errno_sym": True}))


@hook("GramHandler", "getattr", "send")
def _h_send(E, h):
    def m(E2, data, da):
        if E2.choose(2) == 1:
            _raise_gram_err(E2, h, da)
        n = E2.rd_field(h, "nwire")
        E2.dset(E2.rd_field(h, "wire"), n, (data, da))
        E2.wr_field(h, "nwire", Sym(zint(n) + 1, "int"))
        cnt = E2.fresh("sent", z3.IntSort())
        E2.assume(cnt >= 0)
        return Sym(cnt, "int")
    m._specfunc = True
    return m


@hook("GramHandler", "getattr", "receive")
def _h_receive(E, h):
    def m(E2):
        if E2.choose(2) == 1:
            _raise_gram_err(E2, h)
        raw = Sym(E2.fresh("rcvd", SeqInt), "bytes")
        src = E2.fresh_val("src", HA)
        return (raw, src)
    m._specfunc = True
    return m


@hook("Packet", "ctor")
def _packet_ctor(E, cv, args, kwargs):
    obj = RefV(E.new_ref(), "Packet", nn=True)
    E.wr_field(obj, "packed", b"")
    E.wr_field(obj, "stack", kwargs.get("stack"))
    return obj


# ------------------------------------------------------------------ old-state views of the ghost handler
def _in_old(E, fn):
    heap = E.heap
    E.heap = dict(E.heap_old)
    try:
        return fn()
    finally:
        E.heap = heap


@specfunc
def c35_failed_same(E, h):
    """no destination was added to (or removed from) the failed set"""
    now = E.ddom(E.rd_field(h, "failed"))
    was = _in_old(E, lambda: E.ddom(E.rd_field(h, "failed")))
    return Sym(now == was, "bool")


@specfunc
def c35_failed_added(E, h, ha):
    """failed set == old failed set + {ha}"""
    now = E.ddom(E.rd_field(h, "failed"))
    was = _in_old(E, lambda: E.ddom(E.rd_field(h, "failed")))
    return Sym(now == z3.Store(was, ha.t, z3.BoolVal(True)), "bool")


@specfunc
def c35_wire_prefix_kept(E, h):
    """datagrams already on the wire at entry are untouched (the wire only grows at its end)"""
    wnow = E.dvals(E.rd_field(h, "wire"))
    wold, n0 = _in_old(E, lambda: (E.dvals(E.rd_field(h, "wire")), zint(E.rd_field(h, "nwire"))))
    j = z3.Int("j!b35w%d" % next(E.counter))
    same = z3.And(*[z3.Select(a, j) == z3.Select(b, j) for a, b in zip(wnow, wold)])
    return Sym(z3.And(zint(E.rd_field(h, "nwire")) >= n0,
                      z3.ForAll([j], z3.Implies(j < n0, same))), "bool")       # every slot below the old length


c35_failed_same.native = lambda h: set(h.failed) == set(h.pre_failed)
c35_failed_added.native = lambda h, ha: set(h.failed) == set(h.pre_failed) | {ha}
c35_wire_prefix_kept.native = lambda h: list(h.wire[:len(h.pre_wire)]) == list(h.pre_wire)


@specfunc
def c35_appended(E, cur, old, x):
    """cur == old ++ [x] pointwise"""
    n0 = E.llen(old)
    k = z3.Int("k!b35a%d" % next(E.counter))
    parts = [E.llen(cur) == n0 + 1]
    if cur.et is not None and old.et is not None:
        parts.append(z3.ForAll([k], z3.Implies(z3.And(k >= 0, k < n0),
                                               E.tobool(E.equal(E.lget(cur, k), E.lget(old, k))))))
    if cur.et is not None:
        parts.append(E.tobool(E.equal(E.lget(cur, n0), x)))
    return Sym(z3.And(*parts), "bool")


c35_appended.native = lambda cur, old, x: list(cur) == list(old) + [x]


@specfunc
def c35_only_failed_left(E, tx, failed):
    """every duple (still) queued has a destination whose send failed in this call"""
    k = z3.Int("k!b35f%d" % next(E.counter))
    n = E.llen(tx)
    if tx.et is None:
        return Sym(n == 0, "bool")
    return Sym(z3.ForAll([k], z3.Implies(z3.And(k >= 0, k < n), E.dhas(failed, E.lget(tx, k)[1]))), "bool")


c35_only_failed_left.native = lambda tx, failed: all(d[1] in failed for d in tx)


# ------------------------------------------------------------------ the bijection (witness from the ghost tags)
def _tags(E):
    env = E.frame.env
    return env["g_st"], env["g_lt"], env["g_w"]


def _maps(E, old, ls):
    """fw: position in C -> entry position ; bw: entry position -> position in C, built from the ghost tags.
    C = sent-in-this-call (ls datagrams) ++ .txPkts afterwards, where .txPkts afterwards is read as
      full pass  : (entry duples not yet examined) ++ (deferred duples in deferral order)
      once       : (deferred duples in deferral order) ++ (entry duples not examined)   [env g_front]"""
    g_st, g_lt, g_w = _tags(E)
    n, p, ll = E.llen(old), E.llen(g_w), E.llen(g_lt)
    t0 = n - p
    st, lt, w = E.larrs(g_st)[0], E.larrs(g_lt)[0], E.larrs(g_w)[0]
    front = bool(E.frame.env.get("g_front"))

    def fw(j):
        k = j - ls
        if front:
            return z3.If(j < ls, z3.Select(st, j), z3.If(k < ll, z3.Select(lt, k), p + (k - ll)))
        return z3.If(j < ls, z3.Select(st, j), z3.If(k < t0, p + k, z3.Select(lt, k - t0)))

    def bw(i):
        wi = z3.Select(w, i)
        if front:
            return z3.If(i < p, z3.If(wi >= 0, wi, ls + (-wi - 1)), ls + ll + (i - p))
        return z3.If(i < p, z3.If(wi >= 0, wi, ls + t0 + (-wi - 1)), ls + (i - p))
    return fw, bw


def _same_entry(E, wire, s0, ls, tx, old, j, i):
    """position j of C holds entry duple i: on the wire the packet's packed bytes and destination, in the queue the
    same packet object and destination"""
    o = E.lget(old, i)
    wv = E.dget(wire, Sym(s0 + j, "int"))
    sent_ok = z3.And(wv[0].t == E.rd_field(o[0], "packed").t, wv[1].t == o[1].t)
    if tx.et is None:
        return z3.And(j < ls, sent_ok)
    tv = E.lget(tx, j - ls)
    return z3.If(j < ls, sent_ok, z3.And(tv[0].t == o[0].t, tv[1].t == o[1].t))


@specfunc
def c35_conserved(E, wire, s0, nw, tx, old):
    """EXISTS a bijection between the entry positions of the queue and the positions of
    C = wire[s0:nw] ++ tx  under which every entry duple is found again (same packet, same destination):
    each queued packet is sent exactly once or still queued exactly once, and C holds nothing else."""
    s0, nw = zint(s0), zint(nw)
    ls, n = nw - s0, E.llen(old)
    m = ls + E.llen(tx)
    fw, bw = _maps(E, old, ls)
    i = z3.Int("i!b35c%d" % next(E.counter))
    j = z3.Int("j!b35c%d" % next(E.counter))
    total = z3.ForAll([i], z3.Implies(z3.And(i >= 0, i < n),
                                      z3.And(bw(i) >= 0, bw(i) < m, fw(bw(i)) == i,
                                             _same_entry(E, wire, s0, ls, tx, old, bw(i), i))))
    onto = z3.ForAll([j], z3.Implies(z3.And(j >= 0, j < m), z3.And(fw(j) >= 0, fw(j) < n, bw(fw(j)) == j)))
    return Sym(z3.And(ls >= 0, m == n, total, onto), "bool")


@specfunc
def c35_dest_order_kept(E, wire, s0, nw, tx, old):
    """under that bijection two positions of C = wire[s0:nw] ++ tx that carry the same destination are in the
    order of their entry positions"""
    s0, nw = zint(s0), zint(nw)
    ls = nw - s0
    m = ls + E.llen(tx)
    fw, _bw = _maps(E, old, ls)
    a = z3.Int("a!b35o%d" % next(E.counter))
    b = z3.Int("b!b35o%d" % next(E.counter))

    def dest(j):
        wv = E.dget(wire, Sym(s0 + j, "int"))[1].t
        if tx.et is None:
            return wv
        return z3.If(j < ls, wv, E.lget(tx, j - ls)[1].t)
    return Sym(z3.ForAll([a, b], z3.Implies(z3.And(a >= 0, a < b, b < m, dest(a) == dest(b)), fw(a) < fw(b))), "bool")


@specfunc
def c35_sent_once_in_order(E, wire, s0, nw, old):
    """the datagrams sent in this call are distinct entry duples, in entry order (nothing sent twice or out of
    order) - used on the path where a non-transient error propagates"""
    s0, nw = zint(s0), zint(nw)
    ls, n = nw - s0, E.llen(old)
    g_st = _tags(E)[0]
    st = E.larrs(g_st)[0]
    j = z3.Int("j!b35s%d" % next(E.counter))
    a = z3.Int("a!b35s%d" % next(E.counter))
    b = z3.Int("b!b35s%d" % next(E.counter))
    o = E.lget(old, z3.Select(st, j))
    wv = E.dget(wire, Sym(s0 + j, "int"))
    each = z3.ForAll([j], z3.Implies(z3.And(j >= 0, j < ls),
                                     z3.And(z3.Select(st, j) >= 0, z3.Select(st, j) < n,
                                            wv[0].t == E.rd_field(o[0], "packed").t, wv[1].t == o[1].t)))
    incr = z3.ForAll([a, b], z3.Implies(z3.And(a >= 0, a < b, b < ls), z3.Select(st, a) < z3.Select(st, b)))
    return Sym(z3.And(ls >= 0, ls == E.llen(g_st), each, incr), "bool")


def _nkeys(wire, s0, nw, tx, old):
    ident = {}
    for d in old:
        ident.setdefault(bytes(d[0].packed), id(d[0]))
    ok = [(id(d[0]), d[1]) for d in old]
    ck = [(ident.get(bytes(w[0]), ("?", bytes(w[0]))), w[1]) for w in list(wire)[s0:nw]]
    ck += [(id(d[0]), d[1]) for d in tx]
    return ok, ck


def _n_conserved(wire, s0, nw, tx, old):
    ok, ck = _nkeys(wire, s0, nw, tx, old)
    return _collections.Counter(ok) == _collections.Counter(ck)


def _n_order(wire, s0, nw, tx, old):
    ok, ck = _nkeys(wire, s0, nw, tx, old)
    # positions of C are matched to entry positions destination by destination in order (the only candidates for
    # an order-preserving bijection); the clause holds iff every destination's sub-sequence is unchanged
    return all([k for k in ok if k[1] == ha] == [k for k in ck if k[1] == ha] for ha in set(k[1] for k in ok + ck))


def _n_sent_once(wire, s0, nw, old):
    ok, ck = _nkeys(wire, s0, nw, [], old)
    it = iter(ok)
    return all(any(k == o for o in it) for k in ck)          # ck is a sub-sequence of ok


c35_conserved.native = _n_conserved
c35_dest_order_kept.native = _n_order
c35_sent_once_in_order.native = _n_sent_once


# ------------------------------------------------------------------ ghost code
def _copy(E, lv):
    if lv.et is None:
        return E.new_list(None, 0)
    return E.new_list(lv.et, E.llen(lv), E.larrs(lv))


def _setup_one(E):
    """snapshots of the three queues at entry (also at every call site of the contract)"""
    env = E.frame.env
    env["g_tx0"] = _copy(E, E.rd_field(env["self"], "txPkts"))
    env["g_lat0"] = _copy(E, env["laters"])
    env["g_blk0"] = _copy(E, env["blockeds"])


def _setup_pass(E):
    """entry of a service pass: snapshot of the queue (= enqueue numbers), wire length, empty ghost tag lists, and
    the ghost set of destinations that failed IN THIS CALL starts empty"""
    env = E.frame.env
    me = env["self"]
    h = E.rd_field(me, "handler")
    env["g_old"] = _copy(E, E.rd_field(me, "txPkts"))
    env["g_nw0"] = E.rd_field(h, "nwire")
    for nm in ("g_st", "g_lt", "g_w"):
        env[nm] = E.new_list(INT, 0)
    failed = E.rd_field(h, "failed")
    E.set_ddom(failed, z3.K(E.ksort(failed.kt), z3.BoolVal(False)))


def _setup_once(E):
    _setup_pass(E)
    E.frame.env["g_front"] = True         # a deferred head goes back to the FRONT of the queue


def _setup_tx0(E):
    env = E.frame.env
    env["g_tx0"] = _copy(E, E.rd_field(env["self"], "txPkts"))


def _setup_rx0(E):
    env = E.frame.env
    env["g_rx0"] = _copy(E, E.rd_field(env["self"], "rxPkts"))


def _sync(E):
    """ghost statement after each call of _serviceOneTxPkt: record where the examined entry duple went"""
    env = E.frame.env
    h = E.rd_field(env["self"], "handler")
    g_st, g_lt, g_w = env["g_st"], env["g_lt"], env["g_w"]
    p, ls, ll = E.llen(g_w), E.llen(g_st), E.llen(g_lt)
    sent_now = zint(E.rd_field(h, "nwire")) - zint(env["g_nw0"])
    if E.branch(sent_now > ls):
        B.list_method(E, g_st, "append", [Sym(p, "int")], {})
        B.list_method(E, g_w, "append", [Sym(ls, "int")], {})
    else:
        B.list_method(E, g_lt, "append", [Sym(p, "int")], {})
        B.list_method(E, g_w, "append", [Sym(-(ll + 1), "int")], {})


# ------------------------------------------------------------------ native doubles
class PktD:
    def __init__(self, packed):
        self.packed = packed

    def pack(self):
        return self.packed

    def __deepcopy__(self, memo):
        return self

    def __repr__(self):
        return "Pkt(%r)" % (self.packed,)


class _Local:
    name = "gram.double"


ERRS = list(TRANSIENT) + [_errno.EPERM, _errno.EMSGSIZE, _errno.EINVAL, _errno.EAGAIN, _errno.EPIPE]


class HandlerD:
    """scripted datagram handler: per destination a list of outcomes consumed one per send to that destination
    (0 = accepted, errno = raise OSError(errno)); receive steps ('d', raw, src) | ('e', errno)"""
    def __init__(self, plan, rx=(), opened=True):
        self.opened = opened
        self.plan = {k: list(v) for k, v in plan.items()}
        self.rx = list(rx)
        self.wire = []
        self.failed = set()
        self.nfail = 0
        self.nhard = 0
        self.errno = 0
        self.pre_wire = []
        self.pre_failed = set()

    @property
    def nwire(self):
        return len(self.wire)

    def _err(self, e, *da):
        self.nfail += 1
        self.nhard += 0 if e in TRANSIENT else 1
        self.errno = e
        for d in da:                      # (None is a legal destination value)
            self.failed.add(d)
        raise OSError(e, "scripted")

    def send(self, data, da):
        steps = self.plan.get(da)
        e = steps.pop(0) if steps else 0
        if e:
            self._err(e, da)
        self.wire.append((bytes(data), da))
        return len(data)

    def receive(self):
        step = self.rx.pop(0) if self.rx else ("d", b"", None)
        if step[0] == "e":
            self._err(step[1])
        return (step[1], step[2])

    def __deepcopy__(self, memo):
        return self


DESTS = [("10.0.0.1", 7001), ("10.0.0.2", 7002), ("10.0.0.3", 7003), None]


def _mk_stack(rng, nr, fatal=0.15):
    import collections
    o = object.__new__(nr.mod.GramStack)
    o.local = _Local()
    pkts = [PktD(bytes([65 + k]) + b"-pkt") for k in range(6)]
    n = rng.choice([0, 1, 2, 3, 4, 4, 5, 6, 7])
    dests = DESTS[:rng.randint(1, len(DESTS))]
    o.txPkts = collections.deque((rng.choice(pkts), rng.choice(dests)) for _ in range(n))
    o.rxPkts = collections.deque()
    plan = {}
    for d in dests:
        # random failure pattern per destination: mostly accepted, transient failures, now and then a fatal errno
        pat = []
        for _ in range(rng.randint(0, 4)):
            r = rng.random()
            pat.append(0 if r < 0.5 else (rng.choice(TRANSIENT) if r < 1 - fatal else rng.choice(ERRS)))
        plan[d] = pat
    o.handler = HandlerD(plan, opened=rng.random() < 0.9)
    for _ in range(rng.randint(0, 2)):                      # datagrams of earlier passes already on the wire
        o.handler.wire.append((b"earlier", rng.choice(dests)))
    return o, dests


def _freeze(env):
    o = env["self"]
    h = o.handler
    h.pre_wire = list(h.wire)
    h.pre_failed = set(h.failed)
    pre = {"g_old": list(o.txPkts), "g_tx0": list(o.txPkts), "g_rx0": list(o.rxPkts)}
    if "laters" in env:
        pre["g_lat0"] = list(env["laters"])
        pre["g_blk0"] = list(env["blockeds"])
    env["_pre"] = pre
    return env


def _mk_pass(rng, i, cex, nr):
    o, _d = _mk_stack(rng, nr)
    return _freeze({"self": o})


def _mk_one(rng, i, cex, nr):
    import collections
    o, dests = _mk_stack(rng, nr)
    if not o.txPkts:
        return None
    blk = [d for d in dests if rng.random() < 0.3]
    o.handler.failed = set(blk)
    lat = collections.deque((PktD(b"later%d" % k), rng.choice(blk)) for k in range(rng.randint(0, 2)) if blk)
    return _freeze({"self": o, "laters": lat, "blockeds": list(blk)})


def _mk_transmit(rng, i, cex, nr):
    o, dests = _mk_stack(rng, nr)
    return _freeze({"self": o, "pkt": PktD(b"new-pkt"), "ha": rng.choice(dests)})


def _mk_rx(rng, i, cex, nr):
    o, dests = _mk_stack(rng, nr)
    r = rng.random()
    if r < 0.4:
        step = ("e", rng.choice(ERRS))
    elif r < 0.6:
        step = ("d", b"", None)
    else:
        step = ("d", bytes(rng.randrange(256) for _ in range(rng.randint(1, 5))), rng.choice(dests))
    o.handler.rx = [step]
    return _freeze({"self": o})


def _view(env, nr):
    return dict(env.get("_pre", {}))


# ------------------------------------------------------------------ _serviceOneTxPkt
PS = dict(self=Ref("GramStack"))
HEAD = "g_tx0[0]"
NW, NW0 = "self.handler.nwire", "old(self.handler.nwire)"
H_MOD = ["self.handler.nwire", "self.handler.wire{*}", "self.handler.failed{*}", "self.handler.nfail",
         "self.handler.nhard", "self.handler.errno"]
SAME_SETS = "c35_failed_same(self.handler) and self.handler.nfail == old(self.handler.nfail)"

contract(F, "GramStack._serviceOneTxPkt", "C35,C25",
         params=dict(PS, laters=List(DUPLE), blockeds=List(HA)), returns=BOOL, setup=_setup_one,
         # "Assumes there is a duple on the deque"; laters / blockeds are the caller's own fresh containers
         requires=["len(self.txPkts) > 0",
                   "laters is not self.txPkts and blockeds is not self.txPkts and laters is not blockeds"],
         modifies=["self.txPkts[*]", "laters[*]", "blockeds[*]"] + H_MOD,
         ensures=[
             # C25: a send error that does not propagate was a transient one
             "self.handler.nhard == old(self.handler.nhard)",
             "implies(self.handler.nfail != old(self.handler.nfail), self.handler.errno in %s)" % TR,
             # the head of the queue is taken, the rest keeps its order
             "is_slice(self.txPkts, g_tx0, 1, len(g_tx0))",
             # it goes to the END of exactly one of {wire, laters}
             "%s == %s or (%s == %s + 1 and self.handler.wire[%s] == (%s[0].packed, %s[1]))"
             % (NW, NW0, NW, NW0, NW0, HEAD, HEAD),
             "c35_wire_prefix_kept(self.handler)",
             # sent only if its destination is not blocked; nothing else changes then
             "implies(%s != %s, result and %s[1] not in g_blk0 and seq_eq(laters, g_lat0) and "
             "seq_eq(blockeds, g_blk0) and %s)" % (NW, NW0, HEAD, SAME_SETS),
             # otherwise kept for later, in order, and its destination is blocked for the rest of the pass
             "implies(%s == %s, c35_appended(laters, g_lat0, %s) and %s[1] in blockeds)" % (NW, NW0, HEAD, HEAD),
             # already blocked: no send attempted
             "implies(%s == %s and not result, %s[1] in g_blk0 and seq_eq(blockeds, g_blk0) and %s)"
             % (NW, NW0, HEAD, SAME_SETS),
             # C25: a transient destination error on send keeps the packet for later and blocks the destination
             "implies(%s == %s and result, self.handler.nfail == old(self.handler.nfail) + 1 and "
             "self.handler.errno in %s and %s[1] not in g_blk0 and c35_appended(blockeds, g_blk0, %s[1]) and "
             "c35_failed_added(self.handler, %s[1]))" % (NW, NW0, TR, HEAD, HEAD, HEAD),
         ],
         raises={"OSError": [
             # C25: only a non-transient errno propagates; nothing was sent; the caller's containers are untouched
             "self.handler.errno not in %s" % TR,
             "self.handler.nfail == old(self.handler.nfail) + 1",
             "%s == %s and c35_wire_prefix_kept(self.handler)" % (NW, NW0),
             "seq_eq(laters, g_lat0) and seq_eq(blockeds, g_blk0)",
             "is_slice(self.txPkts, g_tx0, 1, len(g_tx0))",
         ]},
         replay=dict(make=_mk_one, view=_view, count=600),
         note="on a non-transient errno the exception propagates and the packet being sent is dropped (outside "
              "the statement's quantifier: `regardless of which destinations TRANSIENTLY fail`)")

# ------------------------------------------------------------------ serviceTxPkts / serviceTxPktsOnce
P = "len(g_w)"                                   # entry duples examined so far
T0 = "(len(g_old) - len(g_w))"                   # entry duples not examined (still at the front of .txPkts)
SENT_J = "self.handler.wire[g_nw0 + j] == (g_old[g_st[j]][0].packed, g_old[g_st[j]][1])"
GHOST_INV = [
    # tag lists mirror the containers
    "len(g_st) == self.handler.nwire - g_nw0",
    "len(g_st) + len(g_lt) == len(g_w) and len(g_w) <= len(g_old)",
    # forward maps: what was sent / deferred is the tagged entry duple
    "forall(lambda j: implies(0 <= j and j < len(g_st), 0 <= g_st[j] and g_st[j] < len(g_w)))",
    "forall(lambda j: implies(0 <= j and j < len(g_st), g_w[g_st[j]] == j))",
    "forall(lambda j: implies(0 <= j and j < len(g_st), %s))" % SENT_J,
    "forall(lambda j: implies(0 <= j and j < len(g_lt), 0 <= g_lt[j] and g_lt[j] < len(g_w)))",
    "forall(lambda j: implies(0 <= j and j < len(g_lt), g_w[g_lt[j]] == -(j + 1)))",
    # inverse map: every examined entry duple is in exactly one of the two
    "forall(lambda i: implies(0 <= i and i < len(g_w), "
    "(g_w[i] >= 0 and g_w[i] < len(g_st) and g_st[g_w[i]] == i) or "
    "(g_w[i] < 0 and -g_w[i] - 1 < len(g_lt) and g_lt[-g_w[i] - 1] == i)))",
    # both keep entry order
    "forall(lambda a, b: implies(0 <= a and a < b and b < len(g_st), g_st[a] < g_st[b]))",
    "forall(lambda a, b: implies(0 <= a and a < b and b < len(g_lt), g_lt[a] < g_lt[b]))",
    # a datagram was sent only BEFORE anything to the same destination was deferred
    "forall(lambda a, b: implies(0 <= a and a < len(g_st) and 0 <= b and b < len(g_lt) and "
    "g_old[g_st[a]][1] == g_old[g_lt[b]][1], g_st[a] < g_lt[b]))",
    # deferred duples go to destinations that failed in this call
    "forall(lambda j: implies(0 <= j and j < len(g_lt), g_old[g_lt[j]][1] in self.handler.failed))",
    "c35_wire_prefix_kept(self.handler)",
    "self.handler.nhard == old(self.handler.nhard)",
]
LOOP1_INV = [
    "len(g_w) + len(self.txPkts) == len(g_old)",
    "forall(lambda k: implies(0 <= k and k < len(self.txPkts), self.txPkts[k] == g_old[%s + k]))" % P,
    "len(g_lt) == len(laters)",
    "forall(lambda j: implies(0 <= j and j < len(laters), laters[j] == g_old[g_lt[j]]))",
    "forall(lambda j: implies(0 <= j and j < len(laters), laters[j][1] in blockeds))",
    "forall(lambda k: implies(0 <= k and k < len(blockeds), blockeds[k] in self.handler.failed))",
] + GHOST_INV
Q = "(len(g_lt) - len(laters))"                  # deferred duples already moved back
LOOP2_INV = [
    "0 <= len(laters) and len(laters) <= len(g_lt) and len(g_w) <= len(g_old)",
    "len(self.txPkts) == %s + %s" % (T0, Q),
    "forall(lambda k: implies(0 <= k and k < %s, self.txPkts[k] == g_old[%s + k]))" % (T0, P),
    "forall(lambda m: implies(%s <= m and m < %s + %s, self.txPkts[m] == g_old[g_lt[m - %s]]))" % (T0, T0, Q, T0),
    "forall(lambda k: implies(0 <= k and k < len(laters), laters[k] == g_old[g_lt[%s + k]]))" % Q,
]
R = "len(laters)"                                # once: deferred duples not yet put back (taken from the back)
ONCE_INV = [
    "0 <= len(laters) and len(laters) <= len(g_lt) and len(g_w) <= len(g_old)",
    "len(self.txPkts) == (len(g_lt) - %s) + %s" % (R, T0),
    "forall(lambda k: implies(0 <= k and k < len(g_lt) - %s, self.txPkts[k] == g_old[g_lt[%s + k]]))" % (R, R),
    "forall(lambda m: implies(len(g_lt) - %s <= m and m < (len(g_lt) - %s) + %s, "
    "self.txPkts[m] == g_old[%s + (m - (len(g_lt) - %s))]))" % (R, R, T0, P, R),
    "forall(lambda k: implies(0 <= k and k < %s, laters[k] == g_old[g_lt[k]]))" % R,
]
WIRE_ARGS = "self.handler.wire, old(self.handler.nwire), self.handler.nwire"
PASS_POST = [
    # each queued packet is sent exactly once or is still queued exactly once
    "c35_conserved(%s, self.txPkts, g_old)" % WIRE_ARGS,
    # packets to the same destination keep their queue order (on the wire, and wire-then-queue)
    "c35_dest_order_kept(%s, self.txPkts, g_old)" % WIRE_ARGS,
    "c35_wire_prefix_kept(self.handler)",
    # C25: transient send errors are absorbed (retryable), nothing else is
    "self.handler.nhard == old(self.handler.nhard)",
    "implies(not self.handler.opened, self.handler.nwire == old(self.handler.nwire) and seq_eq(self.txPkts, g_old))",
]
PASS_RAISES = {"OSError": [
    "self.handler.errno not in %s" % TR,
    # nothing was sent twice or out of order before the error propagated
    "c35_sent_once_in_order(%s, g_old)" % WIRE_ARGS,
    "c35_wire_prefix_kept(self.handler)",
]}
CALL_TEXTS = ("again = self._serviceOneTxPkt(laters, blockeds)", "self._serviceOneTxPkt(laters, blockeds)")
LOCALS = {"laters": List(DUPLE), "blockeds": List(HA)}
PASS_MOD = ["self.txPkts[*]"] + H_MOD

contract(F, "GramStack.serviceTxPkts", "C35", params=dict(PS), setup=_setup_pass, local_types=LOCALS,
         ghost={"after": {CALL_TEXTS: _sync}}, modifies=PASS_MOD,
         loops={0: dict(inv=LOOP1_INV), 1: dict(inv=LOOP2_INV)},
         ensures=PASS_POST + [
             # a failing destination never blocks packets to other destinations: whatever is still queued after
             # the pass goes to a destination whose send failed during this pass
             "implies(self.handler.opened, c35_only_failed_left(self.txPkts, self.handler.failed))",
         ],
         raises=PASS_RAISES, replay=dict(make=_mk_pass, view=_view, count=1500),
         note="when a non-transient errno propagates, the duples deferred so far in this pass (local `laters`) and "
              "the packet being sent are dropped - outside the statement's quantifier (transient failures)")

contract(F, "GramStack.serviceTxPktsOnce", "C35", params=dict(PS), setup=_setup_once, local_types=LOCALS,
         ghost={"after": {CALL_TEXTS: _sync}}, modifies=PASS_MOD,
         loops={0: dict(inv=ONCE_INV)},
         ensures=PASS_POST + [
             # only the head is examined: at most one datagram leaves
             "self.handler.nwire <= old(self.handler.nwire) + 1",
         ],
         raises=PASS_RAISES, replay=dict(make=_mk_pass, view=_view, count=600))

# ------------------------------------------------------------------ transmit: queue order is call order
contract(F, "GramStack.transmit", "C35", params=dict(PS, pkt=Ref("GramPkt"), ha=HA), setup=_setup_tx0,
         modifies=["self.txPkts[*]"],
         ensures=["c35_appended(self.txPkts, g_tx0, (pkt, ha))"],
         replay=dict(make=_mk_transmit, view=_view, count=100),
         note="pkt is a packeting.Packet (base pack() never raises); ha given explicitly")

# ------------------------------------------------------------------ receive side (C25)
contract(F, "GramStack.parserize", "C25", params=dict(PS, raw=BYTES, ha=HA), returns=Opt(Ref("Packet")),
         modifies=[],
         ensures=["result is not None", "fresh(result)", "result.packed == raw"],
         note="base packeting.Packet: parse() copies raw into .packed and never raises")

contract(F, "GramStack._serviceOneReceived", "C25", params=dict(PS), returns=BOOL, setup=_setup_rx0,
         modifies=["self.rxPkts[*]", "self.handler.nfail", "self.handler.nhard", "self.handler.errno"],
         ensures=[
             # C25: a transient destination error on receive is `nothing received`, not fatal
             "implies(self.handler.nfail != old(self.handler.nfail), "
             "not result and self.handler.errno in %s and seq_eq(self.rxPkts, g_rx0))" % TR,
             "self.handler.nhard == old(self.handler.nhard)",
             "implies(not result, seq_eq(self.rxPkts, g_rx0))",
             # received data: at most one packet, appended at the back
             "is_slice(g_rx0, self.rxPkts, 0, len(g_rx0)) and len(self.rxPkts) <= len(g_rx0) + 1",
         ],
         raises={"OSError": ["self.handler.errno not in %s" % TR, "seq_eq(self.rxPkts, g_rx0)"]},
         replay=dict(make=_mk_rx, view=_view, count=600))
