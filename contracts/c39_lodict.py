"""C39 lodict (ioflo/aid/odicting.py): "treats keys case-insensitively in every mapping operation".

View: a lodict is an odict over lower(key).  `lower` (str.lower) is an UNINTERPRETED function on strings; the one
assumed library fact is idempotence, lower(lower(s)) == lower(s) (stated for every term lower(s) that occurs).
Each method is proved modularly against the odict contracts (callee = the odict method's contract, or the dict base
for the operations odict inherits from dict), for a receiver whose map holds lower-case keys only (lo_inv).
Case-insensitivity = every contract depends on the key only through lower(key): a lookup with any casing of a key
finds what was stored under any other casing.

Which operations ARE case-insensitive is decided on the class text: a static obligation requires every mapping
operation that takes a key to be (re)defined in the lodict class body; an operation resolved to odict / dict acts
on the raw key (see findings/c39_lodict_pop.py).
"""
from pyvc.api import *
from pyvc import builtins_ as B
from contracts.lib import *
from contracts import c39_odict as OD
from contracts import c39_more as M
from contracts.c39_odict import F, V_, MODS, UNCHANGED, _d, inv
import ast
import z3

# keys are strings seen through equality and lower() only: an opaque sort (the string theory of the solvers is not
# needed and is slow under quantifiers)
SK = Opaque("lstr")
SKS = opaque_sort("lstr")
SFIELDS = dict(_keys=List(SK), _d=Dict(SK, V_), _pos=Dict(SK, INT))
classdecl("lodict", file=F, bases=("odict",), fields=dict(SFIELDS))
classdecl("odictS", file=F, bases=("odict",), fields=dict(SFIELDS))      # odict over str keys (built inside lodict.update)
REG.classes["odictS"].source = "odict"
LOWER = z3.Function("c39_lower", SKS, SKS)
SPAIR = Tup(SK, V_)


def _low(E, t):
    r = LOWER(t)
    E.assume(LOWER(r) == r)
    return r


@external("opaque:lstr.lower")
def _str_lower(E, args, kw):
    if len(args) != 1:
        raise Unsupported("lower() of %r" % (args,))
    return Sym(_low(E, args[0].t), ("opaque", "lstr"))


REG.assume_note("C39 lodict: keys are strings seen through equality and .lower() only (opaque sort); str.lower is an "
                "uninterpreted function on them; assumed library fact: idempotence lower(lower(s)) == lower(s)")


@specfunc
def lower(E, s):
    return Sym(_low(E, s.t), ("opaque", "lstr"))


lower.native = lambda s: s.lower()


@specfunc
def lo_inv(E, o):
    """odict invariant + every key of the map is lower case"""
    _n, _a, dom, _v = M.view(E, o)
    k = z3.Const("k!lo%d" % next(E.counter), SKS)
    return Sym(z3.And(inv(E, o).t, z3.ForAll([k], z3.Implies(z3.Select(dom, k), LOWER(k) == k))), "bool")


lo_inv.native = lambda o: OD.inv.native(o) and all(k == k.lower() for k in o._keys)


# ---- operations lodict passes to the dict base through super() (odict does not define them)
@hook("lodict", "super", "__contains__")
def _sup_contains(E, selfv, args, kwargs):
    return Sym(E.dhas(_d(E, selfv), args[0]), "bool")


@hook("lodict", "super", "__getitem__")
def _sup_getitem(E, selfv, args, kwargs):
    return B.getitem(E, _d(E, selfv), args[0])


@hook("lodict", "super", "get")
def _sup_get(E, selfv, args, kwargs):
    return B.dict_method(E, _d(E, selfv), "get", list(args), dict(kwargs))


REG.assume_note("C39 lodict: super().__contains__ / __getitem__ / get resolve to the dict base (odict does not define "
                "them) and have the map semantics")

# ---- static obligation: the mapping operations that take a key are defined by lodict itself
KEY_OPS = ["__setitem__", "__getitem__", "__delitem__", "__contains__", "get", "pop", "setdefault", "update"]


def _lodict_overrides(repo):
    cd = repo.classdef(F, "lodict")
    if cd is None:
        return False, "class lodict not found"
    have = {n.name: n for n in cd.body if isinstance(n, ast.FunctionDef)}
    missing = [m for m in KEY_OPS if m not in have]
    nolower = []
    for m in KEY_OPS:
        if m in have and not any(isinstance(x, ast.Attribute) and x.attr == "lower" for x in ast.walk(have[m])):
            nolower.append(m)
    if missing or nolower:
        return False, ("lodict does not define %s (resolved to odict / dict: the raw key is used, e.g. "
                       "lodict(A=1).pop('A') raises KeyError while 'A' in it is True)" % missing if missing else "") + \
                      (" %s never calls .lower()" % nolower if nolower else "")
    return True, "lodict defines %s, each lower-casing its key" % KEY_OPS


REG.static_checks.append(("C39", "lodict defines every mapping operation that takes a key (%s) and lower-cases the key "
                          "in it" % ", ".join(KEY_OPS), _lodict_overrides))

# ------------------------------------------------------------------------------------------- contracts
LP = dict(self=Ref("lodict"))
LK = "lower(key)"
LO_UNCHANGED = UNCHANGED


def _lo_harness(extra=None, call=None, model=None):
    return M.harness(extra=extra, call=call, model=model, cls="lodict")


NK = ["a", "A", "b", "B", "Cd", "cD"]


def _key(rng, mod):
    return {"key": rng.choice(NK)}


def _m_set(ks, st, env):
    k = env["key"].lower()
    return ks + ([] if k in st else [k]), dict(st, **{k: env["val"]}), None


def _m_del(ks, st, env):
    k = env["key"].lower()
    if k not in st:
        return ks, st, KeyError
    st = dict(st)
    del st[k]
    return [x for x in ks if x != k], st, None


contract(F, "lodict.__setitem__", "C39", params=dict(LP, key=SK, val=V_), requires=["lo_inv(self)"], modifies=MODS,
         ensures=["lo_inv(self)", "%s in self and self[%s] == val" % (LK, LK), "same_vals_except(self, %s)" % LK,
                  "implies(old(%s in self), keys_unchanged(self))" % LK,
                  "implies(not old(%s in self), is_concat(self._keys, old_keys(self), [%s]))" % (LK, LK)],
         replay=_lo_harness(extra=lambda rng, mod: {"key": rng.choice(NK), "val": rng.randint(10, 19)}, model=_m_set))
contract(F, "lodict.__delitem__", "C39", params=dict(LP, key=SK), requires=["lo_inv(self)"], modifies=MODS,
         ensures=["lo_inv(self)", "%s not in self" % LK, "old(%s in self)" % LK, "same_vals_except(self, %s)" % LK,
                  "removed_at(self._keys, old_keys(self), old_pos(self, %s))" % LK],
         raises={"KeyError": ["old(%s not in self)" % LK, LO_UNCHANGED]},
         replay=_lo_harness(extra=_key, model=_m_del))
contract(F, "lodict.__contains__", "C39", params=dict(LP, key=SK), requires=["lo_inv(self)"], modifies=[],
         ensures=["result == (%s in self)" % LK,
                  # any other casing of the same key gives the same answer
                  "forall(Opaque('lstr'), lambda k2: implies(lower(k2) == lower(key), result == (lower(k2) in self)))"],
         returns=BOOL,
         replay=_lo_harness(extra=_key, model=lambda ks, st, env: (ks, st, env["key"].lower() in st)))
contract(F, "lodict.__getitem__", "C39", params=dict(LP, key=SK), requires=["lo_inv(self)"], modifies=[],
         ensures=["%s in self" % LK, "result == self[%s]" % LK,
                  "forall(Opaque('lstr'), lambda k2: implies(lower(k2) == lower(key), result == self[lower(k2)]))"],
         raises={"KeyError": ["%s not in self" % LK]}, returns=V_,
         replay=_lo_harness(extra=_key, model=lambda ks, st, env: (ks, st, st.get(env["key"].lower(), KeyError))))
contract(F, "lodict.get", "C39", params=dict(LP, key=SK, default=V_), requires=["lo_inv(self)"], modifies=[],
         ensures=["implies(%s in self, result == self[%s])" % (LK, LK), "implies(%s not in self, result == default)" % LK],
         returns=V_,
         replay=_lo_harness(extra=lambda rng, mod: {"key": rng.choice(NK), "default": -1},
                            model=lambda ks, st, env: (ks, st, st.get(env["key"].lower(), -1))),
         note="called with an explicit default of the value type")
contract(F, "lodict.setdefault", "C39", params=dict(LP, key=SK, default=V_), requires=["lo_inv(self)"], modifies=MODS,
         ensures=["lo_inv(self)", "%s in self" % LK, "same_vals_except(self, %s)" % LK,
                  "implies(old(%s in self), result == old(self[%s]) and self[%s] == old(self[%s]) and "
                  "keys_unchanged(self))" % (LK, LK, LK, LK),
                  "implies(not old(%s in self), result == default and self[%s] == default and "
                  "is_concat(self._keys, old_keys(self), [%s]))" % (LK, LK, LK)],
         returns=V_,
         replay=_lo_harness(extra=lambda rng, mod: {"key": rng.choice(NK), "default": rng.randint(10, 19)},
                            model=lambda ks, st, env: (ks + ([] if env["key"].lower() in st else [env["key"].lower()]),
                                                       dict(st, **{env["key"].lower(): st.get(env["key"].lower(),
                                                                                              env["default"])}),
                                                       st.get(env["key"].lower(), env["default"]))),
         note="explicit default of the value type, kind=None (no cast)")


# ------------------------------------------------------------------------------------------- update / constructor
@specfunc
def lowered(E, x):
    """the argument of update with every key lower-cased"""
    s = z3.Const("s!lw", SKS)
    E.assume(z3.ForAll([s], LOWER(LOWER(s)) == LOWER(s), patterns=[LOWER(LOWER(s))]))
    if isinstance(x, tuple):
        if len(x) == 0:
            return x
        x = x[0]
    return M.MappedSrc(x, lambda t: LOWER(t))


def _lo_src(E):
    return lowered(E, E.frame.env["a"])


LO_CASES = [{"pa": ("vararg", (List(SPAIR),))}, {"pa": ("vararg", (Ref("odictS"),))}, {"pa": ("vararg", ())}]
_D_INV = ["d_sep(self, d, a)"] + M.bulk_clauses("lowered(a)", "_i", obj="d", new=True)
_LO_LOOP = dict(M.bulk_loop(obj="d", src=_lo_src), inv=_D_INV)


@specfunc
def d_sep(E, o, d, a):
    """the scratch odict `d` built by lodict.update is a new object (its internals are its own) and holds
    lower-case keys only"""
    _n, _a, dom, _v = M.view(E, d)
    k = z3.Const("k!ds%d" % next(E.counter), SKS)
    lowkeys = z3.ForAll([k], z3.Implies(z3.Select(dom, k), LOWER(k) == k))
    return Sym(z3.And(M.src_ok(E, o, d).t, M.src_ok(E, d, a).t, lowkeys), "bool")


def _m_lo_update(ks, st, env):
    for a in env["pa"]:
        for k, v in (list(a.items()) if hasattr(a, "get") else list(a)):
            k = k.lower()
            if k not in st:
                ks.append(k)
            st[k] = v
    return ks, st, None


def _lo_bulk_extra(rng, mod):
    r = rng.random()
    pairs = [(rng.choice(NK), rng.randint(0, 9)) for _ in range(rng.randint(0, 4))]
    if r < 0.6:
        return {"pa": (pairs,)}
    if r < 0.9:
        return {"pa": (mod.odict(pairs),)}
    return {"pa": ()}


contract(F, "lodict.update", "C39", params=dict(LP), cases=LO_CASES, requires=["lo_inv(self)", "src_ok(self, pa)"],
         modifies=MODS, tags=("odict=odictS",), loops={1: _LO_LOOP, 2: _LO_LOOP},
         ensures=M.bulk_clauses("lowered(pa)", first="lo_inv(%s)"),
         replay=_lo_harness(extra=_lo_bulk_extra, call=M._bulk_call("update"), model=_m_lo_update),
         note="one positional argument (list of pairs | odict over str keys) or none; no keyword arguments; the "
              "post-condition is odict.update's for the lower-cased pairs")
contract(F, "lodict.__init__", "C39", params=dict(LP), cases=LO_CASES, requires=["lo_inv(self)", "src_ok(self, pa)"],
         modifies=MODS, ghost={"after": {"self.update(*pa, **kwa)": M._adopt_bulk_ghost}},
         ensures=M.bulk_clauses("lowered(pa)", first="lo_inv(%s)"),
         replay=_lo_harness(extra=_lo_bulk_extra, call=M._bulk_call("__init__"), model=_m_lo_update))


# ---- pop: NOT defined by lodict on the pinned tree (static obligation above); the contract below is the statement's
# ("every mapping operation": lower-cased key) and is verified as soon as the method exists; natively it is run on
# whatever `lodict.pop` resolves to, which exhibits the defect on the pinned tree.
def _m_pop(ks, st, env):
    k = env["key"].lower()
    if k not in st:
        return (ks, st, env["default"][0]) if env.get("default") else (ks, st, KeyError)
    st = dict(st)
    v = st.pop(k)
    return [x for x in ks if x != k], st, v


def _pop_call(env, nr):
    return env["self"].pop(env["key"], *env.get("default", ()))


contract(F, "lodict.pop", "C39", params=dict(LP, key=SK), requires=["lo_inv(self)"], modifies=MODS, optional=True,
         ensures=["lo_inv(self)", "%s not in self" % LK, "old(%s in self)" % LK, "same_vals_except(self, %s)" % LK,
                  "result == old(self[%s])" % LK, "removed_at(self._keys, old_keys(self), old_pos(self, %s))" % LK],
         raises={"KeyError": ["old(%s not in self)" % LK, LO_UNCHANGED]}, returns=V_,
         replay=_lo_harness(extra=_key, call=_pop_call, model=_m_pop), note="called without a default")
contract(F, "lodict.pop", "C39", params=dict(LP, key=SK, default=("vararg", (V_,))), requires=["lo_inv(self)"],
         modifies=MODS, optional=True,
         ensures=["lo_inv(self)", "%s not in self" % LK, "same_vals_except(self, %s)" % LK,
                  "implies(old(%s in self), result == old(self[%s]) and "
                  "removed_at(self._keys, old_keys(self), old_pos(self, %s)))" % (LK, LK, LK),
                  "implies(not old(%s in self), result == default[0] and keys_unchanged(self))" % LK],
         returns=V_,
         replay=_lo_harness(extra=lambda rng, mod: {"key": rng.choice(NK), "default": (-1,)}, call=_pop_call,
                            model=_m_pop), note="called with a default: never raises")
