"""C39 ordered dictionary: odict (ioflo/aid/odicting.py) against its model - a map plus the sequence of its keys
in first-insertion order.

Representation: the dict base is the map (dom, val); `_keys` is the list (n, a).  Ghost position map `pos`
(a field that exists only in the proof) makes the invariant first-order without nested quantifiers:
   (A) for all i < n:  dom[a[i]]  and  pos[a[i]] == i
   (B) for all k: dom[k]  =>  0 <= pos[k] < n  and  a[pos[k]] == k
(A)+(B) say that `_keys` enumerates exactly the keys of the map, once each.  Ghost updates of `pos` are spliced
after the statements that change `_keys` (append / remove / insert), keyed by the statement text.
Every method's post-condition is on the WHOLE view (keys sequence and map), not just the touched key.
"""
from pyvc.api import *
from pyvc import builtins_ as B
from contracts.lib import *
import z3

F = "ioflo/aid/odicting.py"
K = Opaque("key")
V_ = Opaque("val")
KS = opaque_sort("key")
classdecl("odict", file=F, fields=dict(_keys=List(K), _d=Dict(K, V_), _pos=Dict(K, INT)))


def _d(E, o):
    return E.rd_field(o, "_d")


def _pos(E, o):
    return E.rd_field(o, "_pos")


# ---- dict base methods called as dict.__xxx__(self, ...)
@external("dict.__setitem__", obj=dict.__setitem__)
def _ds(E, args, kw):
    E.dset(_d(E, args[0]), args[1], args[2])


@external("dict.__getitem__", obj=dict.__getitem__)
def _dg(E, args, kw):
    return B.getitem(E, _d(E, args[0]), args[1])


@external("dict.__delitem__", obj=dict.__delitem__)
def _dd(E, args, kw):
    B.delitem(E, _d(E, args[0]), args[1])


@external("dict.clear", obj=dict.clear)
def _dc(E, args, kw):
    B.dict_method(E, _d(E, args[0]), "clear", [], {})


@external("dict.pop", obj=dict.pop)
def _dp(E, args, kw):
    return B.dict_method(E, _d(E, args[0]), "pop", list(args[1:]), {})


@hook("odict", "contains")
def _oc(E, o, x):
    return E.dhas(_d(E, o), x)


@hook("odict", "getitem")
def _og(E, o, idx):
    return B.getitem(E, _d(E, o), idx)


REG.assume_note("dict base of odict: dict.__setitem__/__getitem__/__delitem__/pop/clear have the map semantics; "
                "hasattr(self, '_keys') is true for a constructed odict (__new__ creates it)")


# ---- ghost updates of pos
def _g_after_append(E):
    o = E.frame.env["self"]
    key = E.frame.env["key"]
    keys = E.rd_field(o, "_keys")
    n = E.llen(keys)                       # length AFTER the append
    E.dset(_pos(E, o), key, Sym(n - 1, "int"))


def _ks(E, o):
    return E.ksort(_d(E, o).kt)


def _g_after_remove(E):
    o = E.frame.env["self"]
    key = E.frame.env["key"]
    pos = _pos(E, o)
    p = zint(E.ghost["last_remove_pos"])
    kv = z3.Const("k!gp", _ks(E, o))
    old = E.dvals(pos)[0]
    new = z3.Lambda([kv], z3.If(z3.Select(old, kv) > p, z3.Select(old, kv) - 1, z3.Select(old, kv)))
    E.set_dvals(pos, [new])


def _g_after_insert(E):
    o = E.frame.env["self"]
    key = E.frame.env["key"]
    idx = zint(E.frame.env["index"])
    keys = E.rd_field(o, "_keys")
    n1 = E.llen(keys)                      # AFTER insert
    n = n1 - 1
    at = z3.If(idx < 0, z3.If(n + idx < 0, z3.IntVal(0), n + idx), z3.If(idx > n, n, idx))
    pos = _pos(E, o)
    kv = z3.Const("k!gp", _ks(E, o))
    old = E.dvals(pos)[0]
    kt = E.dkey(pos, key)
    new = z3.Lambda([kv], z3.If(kv == kt, at, z3.If(z3.Select(old, kv) >= at, z3.Select(old, kv) + 1,
                                                     z3.Select(old, kv))))
    E.set_dvals(pos, [new])
    E.ghost["insert_at"] = Sym(at, "int")


@specfunc
def inv(E, o):
    keys = E.rd_field(o, "_keys")
    n = E.llen(keys)
    a = E.larrs(keys)[0]
    d = _d(E, o)
    dom = E.ddom(d)
    pos = E.dvals(_pos(E, o))[0]
    i = z3.Int("i!inv%d" % next(E.counter))
    k = z3.Const("k!inv%d" % next(E.counter), _ks(E, o))
    A = z3.ForAll([i], z3.Implies(z3.And(i >= 0, i < n),
                                  z3.And(z3.Select(dom, z3.Select(a, i)), z3.Select(pos, z3.Select(a, i)) == i)))
    Bq = z3.ForAll([k], z3.Implies(z3.Select(dom, k),
                                   z3.And(z3.Select(pos, k) >= 0, z3.Select(pos, k) < n,
                                          z3.Select(a, z3.Select(pos, k)) == k)))
    return Sym(z3.And(A, Bq), "bool")


@specfunc
def same_vals_except(E, o, key):
    """every key other than `key` keeps membership and value (old vs current map)"""
    d = _d(E, o)
    heap = E.heap
    E.heap = dict(E.heap_old)
    d0 = _d(E, o)
    dom0, val0 = E.ddom(d0), E.dvals(d0)[0]
    E.heap = heap
    dom1, val1 = E.ddom(d), E.dvals(d)[0]
    k = z3.Const("k!sv%d" % next(E.counter), _ks(E, o))
    kt = E.dkey(d, key) if key is not None else None
    cond = (k != kt) if kt is not None else z3.BoolVal(True)
    return Sym(z3.ForAll([k], z3.Implies(cond, z3.And(z3.Select(dom1, k) == z3.Select(dom0, k),
                                                       z3.Implies(z3.Select(dom0, k),
                                                                  z3.Select(val1, k) == z3.Select(val0, k))))), "bool")


@specfunc
def keys_unchanged(E, o):
    return seq_eq(E, E.rd_field(o, "_keys"), _old_keys(E, o))


def _old_keys(E, o):
    heap = E.heap
    E.heap = dict(E.heap_old)
    try:
        lv = E.rd_field(o, "_keys")
        n, arrs = E.llen(lv), E.larrs(lv)
    finally:
        E.heap = heap
    return E.new_list(lv.et, n, arrs)


@specfunc
def old_keys(E, o):
    return _old_keys(E, o)


@specfunc
def old_pos(E, o, key):
    heap = E.heap
    E.heap = dict(E.heap_old)
    try:
        return E.dget(_pos(E, o), key)
    finally:
        E.heap = heap


@specfunc
def removed_at(E, cur, old, p):
    """cur == old with the element at index p removed"""
    n0 = E.llen(old)
    p = zint(p)
    i = z3.Int("i!ra%d" % next(E.counter))
    e1 = z3.ForAll([i], z3.Implies(z3.And(i >= 0, i < p), E.tobool(E.equal(E.lget(cur, i), E.lget(old, i)))))
    e2 = z3.ForAll([i], z3.Implies(z3.And(i >= p, i < n0 - 1), E.tobool(E.equal(E.lget(cur, i), E.lget(old, i + 1)))))
    return Sym(z3.And(E.llen(cur) == n0 - 1, e1, e2), "bool")


@specfunc
def inserted_at(E, cur, old, p, x):
    n0 = E.llen(old)
    p = zint(p)
    i = z3.Int("i!ia%d" % next(E.counter))
    e1 = z3.ForAll([i], z3.Implies(z3.And(i >= 0, i < p), E.tobool(E.equal(E.lget(cur, i), E.lget(old, i)))))
    e2 = z3.ForAll([i], z3.Implies(z3.And(i > p, i <= n0), E.tobool(E.equal(E.lget(cur, i), E.lget(old, i - 1)))))
    return Sym(z3.And(E.llen(cur) == n0 + 1, e1, e2, E.tobool(E.equal(E.lget(cur, p), x))), "bool")


@specfunc
def clampidx(E, idx, n):
    i, n = zint(idx), zint(n)
    return Sym(z3.If(i < 0, z3.If(n + i < 0, z3.IntVal(0), n + i), z3.If(i > n, n, i)), "int")


P = dict(self=Ref("odict"))
MODS = ["self._keys[*]", "self._d{*}", "self._pos{*}"]
UNCHANGED = "keys_unchanged(self) and same_vals_except(self, None)"

contract(F, "odict.__setitem__", "C39,C37", params=dict(P, key=K, val=V_), requires=["inv(self)"], modifies=MODS,
         ghost={"after": {r"re:self\._keys\.append\(.*\)": _g_after_append}},
         ensures=["inv(self)", "key in self and self[key] == val", "same_vals_except(self, key)",
                  # an existing key keeps its position; a new key goes to the end
                  "implies(old(key in self), keys_unchanged(self))",
                  "implies(not old(key in self), is_concat(self._keys, old_keys(self), [key]))"],
         note="`if not hasattr(self, '_keys')` branch: hasattr assumed true")
contract(F, "odict.__delitem__", "C39,C37", params=dict(P, key=K), requires=["inv(self)"], modifies=MODS,
         ghost={"after": {r"re:self\._keys\.remove\(.*\)": _g_after_remove}},
         ensures=["inv(self)", "key not in self", "old(key in self)", "same_vals_except(self, key)",
                  "removed_at(self._keys, old_keys(self), old_pos(self, key))"],
         raises={"KeyError": ["old(key not in self)", UNCHANGED]})
contract(F, "odict.append", "C39", params=dict(P, key=K, item=V_), requires=["inv(self)"], modifies=MODS,
         ensures=["inv(self)", "self[key] == item", "same_vals_except(self, key)", "not old(key in self)",
                  "is_concat(self._keys, old_keys(self), [key])"],
         raises={"KeyError": ["old(key in self)", UNCHANGED]})
contract(F, "odict.insert", "C39,C37", params=dict(P, index=INT, key=K, val=V_), requires=["inv(self)"],
         modifies=MODS, ghost={"after": {r"re:self\._keys\.insert\(.*\)": _g_after_insert}},
         ensures=["inv(self)", "key in self and self[key] == val", "same_vals_except(self, key)",
                  "not old(key in self)",
                  # Python's list.insert index clamping
                  "inserted_at(self._keys, old_keys(self), clampidx(index, len(old_keys(self))), key)"],
         raises={"KeyError": ["old(key in self)", UNCHANGED]})
@specfunc
def is_empty(E, o):
    dom = E.ddom(_d(E, o))
    k = z3.Const("k!em%d" % next(E.counter), _ks(E, o))
    return Sym(z3.ForAll([k], z3.Not(z3.Select(dom, k))), "bool")


contract(F, "odict.clear", "C39", params=dict(P), modifies=["self._keys", "self._d{*}"],
         ensures=["len(self._keys) == 0", "is_empty(self)", "inv(self)"])
contract(F, "odict.keys", "C39,C37", params=dict(P), requires=["inv(self)"], modifies=[],
         ensures=["seq_eq(result, self._keys)", "fresh(result)"],
         returns=lambda E, env: List(_d(E, env["self"]).kt))
contract(F, "odict.popitem", "C39", params=dict(P), requires=["inv(self)"], modifies=MODS,
         ensures=["inv(self)", "len(old_keys(self)) > 0",
                  "result[0] == old_keys(self)[len(old_keys(self)) - 1]", "result[0] not in self",
                  "same_vals_except(self, result[0])",
                  "is_slice(self._keys, old_keys(self), 0, len(old_keys(self)) - 1)"],
         raises={"KeyError": ["len(old_keys(self)) == 0", UNCHANGED]},
         returns=lambda E, env: Tup(_d(E, env["self"]).kt, _d(E, env["self"]).vt))

contract(F, "odict.pop", "C39", params=dict(P, key=K), requires=["inv(self)"], modifies=MODS,
         ghost={"after": {r"re:self\._keys\.remove\(.*\)": _g_after_remove}},
         ensures=["inv(self)", "key not in self", "old(key in self)", "same_vals_except(self, key)",
                  "result == old(self[key])", "removed_at(self._keys, old_keys(self), old_pos(self, key))"],
         raises={"KeyError": ["old(key not in self)", UNCHANGED]},
         returns=lambda E, env: _d(E, env["self"]).vt,
         note="called without a default")

contract(F, "odict.pop", "C39", params=dict(P, key=K, default=("vararg", (V_,))), requires=["inv(self)"],
         modifies=MODS, ghost={"after": {r"re:self\._keys\.remove\(.*\)": _g_after_remove}},
         ensures=["inv(self)", "key not in self", "same_vals_except(self, key)",
                  "implies(old(key in self), result == old(self[key]) and "
                  "removed_at(self._keys, old_keys(self), old_pos(self, key)))",
                  "implies(not old(key in self), result == default[0] and keys_unchanged(self))"],
         returns=lambda E, env: _d(E, env["self"]).vt, note="called with a default: never raises")
