"""Shared specification functions over heap lists (pointwise; never sequence extensionality)."""
from pyvc.api import *
import z3


def _b(E, x):
    return E.tobool(x)


@specfunc
def seq_eq(E, a, b):
    """same length and element-wise equal (identity for references)"""
    return Sym(_b(E, E.list_eq(a, b)), "bool")


@specfunc
def is_slice(E, x, src, lo, hi):
    """x == src[lo:hi] pointwise (0 <= lo <= hi <= len(src) expected)"""
    lo, hi = zint(lo), zint(hi)
    n = E.llen(x)
    if x.et is None or src.et is None:
        return Sym(n == hi - lo, "bool")
    k = z3.Int("k!sl%d" % next(E.counter))
    e = _b(E, E.equal(E.lget(x, k), E.lget(src, k + lo)))
    return Sym(z3.And(n == hi - lo, z3.ForAll([k], z3.Implies(z3.And(k >= 0, k < n), e))), "bool")


@specfunc
def is_reverse(E, x, src):
    n = E.llen(x)
    if x.et is None or src.et is None:
        return Sym(n == E.llen(src), "bool")
    k = z3.Int("k!rv%d" % next(E.counter))
    e = _b(E, E.equal(E.lget(x, k), E.lget(src, n - 1 - k)))
    return Sym(z3.And(n == E.llen(src), z3.ForAll([k], z3.Implies(z3.And(k >= 0, k < n), e))), "bool")


@specfunc
def is_concat(E, x, a, b):
    na, nb = E.llen(a), E.llen(b)
    n = E.llen(x)
    k = z3.Int("k!cc%d" % next(E.counter))
    parts = [n == na + nb]
    if a.et is not None:
        parts.append(z3.ForAll([k], z3.Implies(z3.And(k >= 0, k < na), _b(E, E.equal(E.lget(x, k), E.lget(a, k))))))
    if b.et is not None:
        parts.append(z3.ForAll([k], z3.Implies(z3.And(k >= 0, k < nb),
                                               _b(E, E.equal(E.lget(x, na + k), E.lget(b, k))))))
    return Sym(z3.And(*parts), "bool")


@specfunc
def fresh(E, x):
    """allocated during this call: not aliased with anything of the pre-state.  At a call site (assumed
    callee post-condition) the caller names the callee's new object with its own next allocation id."""
    if E.assuming:
        return Sym(x.t == E.new_ref(naming=x.t), "bool")
    return Sym(x.t < 0, "bool")


@specfunc
def member(E, lst, x):
    return Sym(_b(E, E.contains(lst, x)), "bool")


seq_eq.native = lambda a, b: len(a) == len(b) and all(x is y or x == y for x, y in zip(a, b))
is_slice.native = lambda x, src, lo, hi: list(x) == list(src)[lo:hi]
is_reverse.native = lambda x, src: list(x) == list(reversed(list(src)))
is_concat.native = lambda x, a, b: list(x) == list(a) + list(b)
member.native = lambda lst, x: any(y is x for y in lst)
