"""C39 odict, the rest of the statement: constructor / update / create (from a list of pairs or another odict),
setdefault, reorder, sift, copy, items / values / iteration, and the pickle protocol methods the class defines
(__getnewargs__ / __getstate__ / __setstate__).  Extends contracts/c39_odict.py (same view: key list + map + ghost
position map, same `inv`); nothing there is changed.

Bulk operations are specified on the WHOLE view through three ghost maps over the keys GIVEN by the argument
(pairs (pk[j], pv[j]), j < n: a list of pairs, or the (key, value) pairs of another odict in its key order):
   G[k]   : k occurs among pk[0..i)         Fst[k] / Lst[k] : its first / last index there
tied to the argument by two quantifier-free-matrix facts (no nested quantifiers):
   (M1) for all j < i:  G[pk[j]]  and  Fst[pk[j]] <= j <= Lst[pk[j]]
   (M2) for all k: G[k]  =>  0 <= Fst[k] <= Lst[k] < i  and  pk[Fst[k]] == k == pk[Lst[k]]
update / __init__ / __setstate__ :  dom' = dom + G ;  G[k] => val'[k] == pv[Lst[k]]  (the LAST given value) ;  keys not
given keep their value ; the old key sequence is a prefix of the new one ; the new part holds exactly the given keys
that were absent, ordered by FIRST occurrence ; if the given keys are pairwise distinct and all absent, the new part IS
the given key sequence (this conditional clause is what copy / sift / the pickle round trip use).
create : same key sequence clauses ; no existing value changes ; a new key gets its FIRST given value.
At a call site the ghost maps are existential witnesses (fresh symbols constrained by M1, M2).
"""
from pyvc.api import *
from pyvc import builtins_ as B
from contracts.lib import *
from contracts import c39_odict as OD
from contracts.c39_odict import F, K, V_, P, MODS, UNCHANGED, _d, _pos, _ks, inv, is_empty
import ast
import z3

PAIR = Tup(K, V_)
CLS = REG.classes["odict"]


# ------------------------------------------------------------------------------------------- instantiations
def inst_class(E, name):
    """declared class standing for `name(...)` constructed inside the function under verification: contracts of
    code that builds an odict over another key / value type say so with tags=("odict=<declared class>",)"""
    act = E.reg.active
    if name == "odict" and act is not None:
        for t_ in act.tags:
            if isinstance(t_, str) and t_.startswith("odict="):
                return t_[6:]
    return name


# ------------------------------------------------------------------------------------------- dict base (assumed)
@external("dict.setdefault", obj=dict.setdefault)
def _dsd(E, args, kw):
    return B.dict_method(E, _d(E, args[0]), "setdefault", list(args[1:]), {})


@external("dict.__init__", obj=dict.__init__)
def _dinit(E, args, kw):
    if len(args) != 1 or kw:
        raise Unsupported("dict.__init__ with arguments")
    return None


@external("dict.__new__", obj=dict.__new__)
def _dnew(E, args, kw):
    cv = args[0]
    if not isinstance(cv, ClassV):
        raise Unsupported("dict.__new__ of %r" % (cv,))
    cls = inst_class(E, cv.name)
    obj = RefV(E.new_ref(), cls, nn=True)
    for attr in ("_d", "_pos"):
        _n, ty = E.fkey(cls, attr)
        E.wr_field(obj, attr, E.new_dict(ty.args[0], ty.args[1]))
    return obj


@external("dict.update", obj=dict.update)
def _dupd(E, args, kw):
    if len(args) != 2 or kw or not isinstance(args[1], RefV):
        raise Unsupported("dict.update other than dict.update(self, <odict>)")
    d, o = _d(E, args[0]), _d(E, args[1])
    kv = z3.Const("k!du", E.ksort(d.kt))
    dom0, val0, odom, oval = E.ddom(d), E.dvals(d)[0], E.ddom(o), E.dvals(o)[0]
    E.set_ddom(d, z3.Lambda([kv], z3.Or(z3.Select(dom0, kv), z3.Select(odom, kv))))
    E.set_dvals(d, [z3.Lambda([kv], z3.If(z3.Select(odom, kv), z3.Select(oval, kv), z3.Select(val0, kv)))])


REG.assume_note("dict base of odict (C39, continued): dict.setdefault / dict.update(self, other odict) / dict.__init__"
                "(self) without arguments (no effect) / dict.__new__ (a new empty map) have the map semantics; "
                "hasattr(x, 'get') is true for an odict (dict.get) and false for a list")


@hook("odict", "hasattr", "get")
def _has_get(E, o):
    return True


@hook("odict", "iter")
def _odict_iter(E, o):
    """`for k in od` walks od._keys (odict.__iter__; its text is pinned by the static obligation below)"""
    return E.rd_field(o, "_keys")


def _iter_is_keys_walk(repo):
    try:
        fn = repo.func(F, "odict.__iter__")
    except Exception as ex:
        return False, "odict.__iter__ not found: %s" % ex
    body = [s for s in fn.body if not (isinstance(s, ast.Expr) and isinstance(s.value, ast.Constant))]
    want = ast.dump(ast.parse("for key in self._keys:\n    yield key").body[0])
    if len(body) == 1 and ast.dump(body[0]) == want and [a.arg for a in fn.args.args] == ["self"]:
        return True, "odict.__iter__ is `for key in self._keys: yield key`"
    return False, "odict.__iter__ is no longer `for key in self._keys: yield key` (line %d): the iteration model " \
                  "used by update / reorder / lodict / modict does not describe it" % fn.lineno


REG.static_checks.append(("C39", "odict.__iter__ yields the elements of self._keys in order", _iter_is_keys_walk))


@hook("odict", "ctor")
def _odict_ctor(E, cv, args, kwargs):
    """Cls(*a, **kw) = Cls.__new__(Cls, *a, **kw), then __init__(*a, **kw) through its contract.  The new object is
    allocated here exactly as the VERIFIED contract of odict.__new__ (below) describes its result: a new object with a
    new empty key list and a new empty map (a callee contract cannot hand the fields of an object it allocates to
    its caller's heap, so the allocation is done on the caller's side; odict.__new__ is verified in the same run)."""
    res = E.repo.find_method(cv.rel, cv.name, "__new__")
    if res is None or res[1] != "odict.__new__":
        raise Unsupported("%s.__new__ does not resolve to odict.__new__" % cv.name)
    E.called.add((res[0], res[1]))
    obj = _dnew(E, [cv], {})
    _n, ty = E.fkey(obj.cls, "_keys")
    E.wr_field(obj, "_keys", E.new_list(ty.args[0], 0))
    res = E.repo.find_method(cv.rel, cv.name, "__init__")
    E.call_func(FuncV(res[0], res[1], res[2], obj), list(args), dict(kwargs))
    return obj


# ------------------------------------------------------------------------------------------- views
def view(E, o):
    """(n, key array, dom, val) of an odict object in the current heap"""
    keys = E.rd_field(o, "_keys")
    d = _d(E, o)
    return E.llen(keys), E.larrs(keys)[0], E.ddom(d), E.dvals(d)[0]


def oldview(E, o):
    heap = E.heap
    E.heap = dict(E.heap_old)
    try:
        return view(E, o)
    finally:
        E.heap = heap


def _kc(E, o, name):
    return z3.Const("%s!m%d" % (name, next(E.counter)), _ks(E, o))


def _ic(E, name):
    return z3.Int("%s!m%d" % (name, next(E.counter)))


@specfunc
def items_of(E, res, o):
    """res[j] == (keys[j], val[keys[j]]) for every j < len(keys)   (res: list of pairs)"""
    n, a, _dom, val = view(E, o)
    ra, rv = E.larrs(res)
    j = _ic(E, "j")
    return Sym(z3.And(E.llen(res) == n,
                      z3.ForAll([j], z3.Implies(z3.And(j >= 0, j < n),
                                                z3.And(z3.Select(ra, j) == z3.Select(a, j),
                                                       z3.Select(rv, j) == z3.Select(val, z3.Select(a, j)))))), "bool")


@specfunc
def values_of(E, res, o):
    n, a, _dom, val = view(E, o)
    ra = E.larrs(res)[0]
    j = _ic(E, "j")
    return Sym(z3.And(E.llen(res) == n,
                      z3.ForAll([j], z3.Implies(z3.And(j >= 0, j < n),
                                                z3.Select(ra, j) == z3.Select(val, z3.Select(a, j))))), "bool")


@specfunc
def same_map(E, a, b):
    """the two odicts hold the same map (membership and values)"""
    _n, _a, dom1, val1 = view(E, a)
    _n, _a, dom2, val2 = view(E, b)
    k = _kc(E, a, "k")
    return Sym(z3.ForAll([k], z3.And(z3.Select(dom1, k) == z3.Select(dom2, k),
                                     z3.Implies(z3.Select(dom1, k), z3.Select(val1, k) == z3.Select(val2, k)))), "bool")


@specfunc
def fresh_odict(E, o):
    """a NEW odict: the object, its key list and its map were allocated by this call (nothing is shared).
    At a call site (callee post-condition being assumed) the callee's allocations are performed on the caller's heap:
    the returned reference and its three internals are named with the caller's next allocation ids and stored in the
    object's fields (their contents are whatever the remaining post-conditions say)."""
    if E.assuming:
        E.assume(o.t == E.new_ref(naming=o.t))
        for attr in ("_keys", "_d", "_pos"):
            _n, ty = E.fkey(o.cls, attr)
            ref = E.new_ref()
            E.wr_field(o, attr, ListV(ref, ty.args[0]) if attr == "_keys" else DictV(ref, ty.args[0], ty.args[1]))
        return True
    parts = [OD.fresh(E, o), OD.fresh(E, E.rd_field(o, "_keys")), OD.fresh(E, _d(E, o)), OD.fresh(E, _pos(E, o))]
    return Sym(z3.And(*[p.t for p in parts]), "bool")


# native twins (concrete objects): the real odict keeps the map in the dict base and the order in _keys
def _n_items(o):
    return [(k, dict.__getitem__(o, k)) for k in o._keys]


OD.inv.native = lambda o: len(set(o._keys)) == len(o._keys) and set(o._keys) == set(dict.keys(o))
OD.is_empty.native = lambda o: len(dict.keys(o)) == 0
OD.fresh.native = lambda x: True
items_of.native = lambda res, o: list(res) == _n_items(o)
values_of.native = lambda res, o: list(res) == [v for _k, v in _n_items(o)]
same_map.native = lambda a, b: dict(dict.items(a)) == dict(dict.items(b))
fresh_odict.native = lambda o: True


# ------------------------------------------------------------------------------------------- native harness
NKEYS = ["a", "b", "c", "d"]


def _rand_pairs(rng, lo=0, hi=4):
    return [(rng.choice(NKEYS), rng.randint(0, 9)) for _ in range(rng.randint(lo, hi))]


def harness(extra=None, call=None, model=None, count=200, cls="odict"):
    """replay spec: a real odict with random small contents + arguments from `extra(rng, mod)`; `model(keys, store,
    env) -> (keys', store', result | exception class)` is the independent reference (list + dict) compared natively"""
    def make(rng, i, cex, nr):
        import importlib
        mod = importlib.import_module("ioflo.aid.odicting")
        od = getattr(mod, cls)(_rand_pairs(rng))
        env = {"self": od}
        if extra:
            env.update(extra(rng, mod))
        env["_snap"] = (list(od._keys), dict(dict.items(od)))
        return env

    def check(env, nr, outcome, result, exc):
        try:
            return _check(env, nr, outcome, result, exc)
        except Exception as ex:            # e.g. a key list that names a key the map does not hold
            return ["reference model: the object cannot be read back (%r)" % (ex,)]

    def _check(env, nr, outcome, result, exc):
        if model is None:
            return []
        keys, store = list(env["_snap"][0]), dict(env["_snap"][1])
        want = model(keys, store, env)
        od = env["self"]
        msgs = []
        got = (list(od._keys), dict(dict.items(od)))
        if got != (want[0], want[1]):
            msgs.append("reference model: state %r expected %r" % (got, (want[0], want[1])))
        if isinstance(want[2], type) and issubclass(want[2], BaseException):
            if exc is None or not isinstance(exc, want[2]):
                msgs.append("reference model: expected %s, got %r / %r" % (want[2].__name__, result, exc))
        elif exc is not None or (want[2] is not Ellipsis and _plain(result) != want[2]):
            msgs.append("reference model: result %r (exc %r) expected %r" % (result, exc, want[2]))
        return msgs
    d = dict(make=make, check=check, count=count)
    if call:
        d["call"] = call
    return d


def _plain(r):
    """a returned odict is compared through its (key list, map)"""
    if isinstance(r, dict) and hasattr(r, "_keys"):
        return (list(r._keys), dict(dict.items(r)))
    return r


RET = dict(kt=lambda E, env: _d(E, env["self"]).kt, vt=lambda E, env: _d(E, env["self"]).vt)

# ------------------------------------------------------------------------------------------- read-only methods
contract(F, "odict.items", "C39", params=dict(P), requires=["inv(self)"], modifies=[],
         ensures=["fresh(result)", "items_of(result, self)"],
         returns=lambda E, env: List(Tup(RET["kt"](E, env), RET["vt"](E, env))),
         replay=harness(model=lambda ks, st, env: (ks, st, [(k, st[k]) for k in ks])))
contract(F, "odict.values", "C39", params=dict(P), requires=["inv(self)"], modifies=[],
         ensures=["fresh(result)", "values_of(result, self)"],
         returns=lambda E, env: List(RET["vt"](E, env)),
         replay=harness(model=lambda ks, st, env: (ks, st, [st[k] for k in ks])))
contract(F, "odict.iteritems", "C39", params=dict(P), requires=["inv(self)"], modifies=[],
         ensures=["fresh(result)", "items_of(result, self)"],
         returns=lambda E, env: List(Tup(RET["kt"](E, env), RET["vt"](E, env))),
         replay=harness(call=lambda env, nr: list(env["self"].iteritems()),
                        model=lambda ks, st, env: (ks, st, [(k, st[k]) for k in ks])),
         note="generator expression modelled as the list of its values (consumed at once, odict not mutated meanwhile)")
contract(F, "odict.itervalues", "C39", params=dict(P), requires=["inv(self)"], modifies=[],
         ensures=["fresh(result)", "values_of(result, self)"],
         returns=lambda E, env: List(RET["vt"](E, env)),
         replay=harness(call=lambda env, nr: list(env["self"].itervalues()),
                        model=lambda ks, st, env: (ks, st, [st[k] for k in ks])),
         note="generator expression modelled as the list of its values (consumed at once)")
# pickle protocol: __getnewargs__ forces __new__ (which creates _keys); the state is the item list
contract(F, "odict.__getnewargs__", "C39", params=dict(P), modifies=[], ensures=["len(result) == 0"])
contract(F, "odict.__getstate__", "C39", params=dict(P), requires=["inv(self)"], modifies=[],
         ensures=["fresh(result)", "items_of(result, self)"],
         returns=lambda E, env: List(Tup(RET["kt"](E, env), RET["vt"](E, env))),
         replay=harness(model=lambda ks, st, env: (ks, st, [(k, st[k]) for k in ks])))


# ------------------------------------------------------------------------------------------- bulk operations: ghost
class MappedSrc:
    """the argument `inner` with every key passed through `fn` (a z3 term -> term function): lodict lower-cases"""
    def __init__(self, inner, fn):
        self.inner, self.fn = inner, fn


def src_view(E, x):
    """(n, pk, pv) of the argument of update / create / __init__: `x` is the tuple of positional arguments (empty or
    one element) or the element itself - a list of pairs, or an odict (its pairs in its key order).  Read in the
    ENTRY heap (the argument is not modified: frame)."""
    if isinstance(x, tuple):
        if len(x) == 0:
            return z3.IntVal(0), None, None
        if len(x) != 1:
            raise Unsupported("update / create / constructor with more than one positional argument")
        x = x[0]
    if isinstance(x, MappedSrc):
        n, pk, pv = src_view(E, x.inner)
        return n, (None if pk is None else (lambda j: x.fn(pk(j)))), pv
    heap = E.heap
    if E.heap_old is not None:
        E.heap = dict(E.heap_old)
    try:
        if isinstance(x, ListV):
            ka, va = E.larrs(x)
            return E.llen(x), (lambda j: z3.Select(ka, j)), (lambda j: z3.Select(va, j))
        if isinstance(x, RefV):
            n, a, _dom, val = view(E, x)
            return n, (lambda j: z3.Select(a, j)), (lambda j: z3.Select(val, z3.Select(a, j)))
    finally:
        E.heap = heap
    raise Unsupported("update / create argument %r" % (x,))


def ghost_maps(E, o):
    """(G, Fst, Lst) of the bulk operation running in the current frame.  Verifying the operation: set by the loop
    hooks below (empty before the loop).  At a call site (callee post-condition being assumed): fresh witnesses."""
    key = ("c39bulk", id(E.frame))
    g = E.ghost.get(key)
    if g is None:
        ks = _ks(E, o)
        if E.assuming:
            g = (E.fresh("bulk_G", z3.ArraySort(ks, z3.BoolSort())), E.fresh("bulk_F", z3.ArraySort(ks, z3.IntSort())),
                 E.fresh("bulk_L", z3.ArraySort(ks, z3.IntSort())))
            E.c39_last_bulk = g
        else:
            g = (z3.K(ks, z3.BoolVal(False)), z3.K(ks, z3.IntVal(0)), z3.K(ks, z3.IntVal(0)))
        E.ghost[key] = g
    return g


def bulk_loop(obj="self", src=None):
    """loop-spec hooks maintaining the ghost maps of the frame: `obj` names the odict being filled, `src(E)` gives the
    argument whose pairs the loop walks (default: the local `a`)"""
    src = src or (lambda E: E.frame.env["a"])

    def enter(E):
        E.ghost.pop(("c39bulk", id(E.frame)), None)
        ghost_maps(E, E.frame.env[obj])

    def havoc(E):
        ks = _ks(E, E.frame.env[obj])
        E.ghost[("c39bulk", id(E.frame))] = (E.fresh("hv_G", z3.ArraySort(ks, z3.BoolSort())),
                                             E.fresh("hv_F", z3.ArraySort(ks, z3.IntSort())),
                                             E.fresh("hv_L", z3.ArraySort(ks, z3.IntSort())))

    def step(E):
        """end of one iteration: the key just processed is pk[_i]"""
        G, Fst, Lst = ghost_maps(E, E.frame.env[obj])
        _n, pk, _pv = src_view(E, src(E))
        i = zint(E.frame.env["_i"])
        k = pk(i)
        E.ghost[("c39bulk", id(E.frame))] = (z3.Store(G, k, z3.BoolVal(True)),
                                             z3.Store(Fst, k, z3.If(z3.Select(G, k), z3.Select(Fst, k), i)),
                                             z3.Store(Lst, k, i))
    return dict(enter=enter, havoc=havoc, body_end=step)


BULK_LOOP = bulk_loop()


def oldview_or_empty(E, o, new):
    """entry view of o; new=True: o is allocated by the function under verification (it did not exist at entry):
    its entry view is the empty odict"""
    if not new:
        return oldview(E, o)
    n, a, dom, val = view(E, o)
    return z3.IntVal(0), a, z3.K(_ks(E, o), z3.BoolVal(False)), val


@specfunc
def bulk_ghost(E, o, x, i=None):
    """(M1) and (M2): what G / Fst / Lst mean for the first i pairs (i omitted: all of them)"""
    G, Fst, Lst = ghost_maps(E, o)
    n, pk, _pv = src_view(E, x)
    i = n if i is None else zint(i)
    k = _kc(E, o, "k")
    if pk is None:
        return Sym(z3.ForAll([k], z3.Not(z3.Select(G, k))), "bool")
    j = _ic(E, "j")
    m1 = z3.ForAll([j], z3.Implies(z3.And(j >= 0, j < i),
                                   z3.And(z3.Select(G, pk(j)), z3.Select(Fst, pk(j)) <= j, j <= z3.Select(Lst, pk(j)))))
    f, l = z3.Select(Fst, k), z3.Select(Lst, k)
    m2 = z3.ForAll([k], z3.Implies(z3.Select(G, k), z3.And(0 <= f, f <= l, l < i, pk(f) == k, pk(l) == k)))
    return Sym(z3.And(i >= 0, i <= n, m1, m2), "bool")


@specfunc
def bulk_dom(E, o, x, new=False):
    """k is a key afterwards  <=>  it was one before or it is given"""
    G, _F, _L = ghost_maps(E, o)
    _n, _a, dom, _v = view(E, o)
    _n0, _a0, dom0, _v0 = oldview_or_empty(E, o, new)
    k = _kc(E, o, "k")
    return Sym(z3.ForAll([k], z3.Select(dom, k) == z3.Or(z3.Select(dom0, k), z3.Select(G, k))), "bool")


@specfunc
def bulk_vals_last(E, o, x, new=False):
    """update: a given key holds its LAST given value; every other key keeps its value"""
    G, _F, Lst = ghost_maps(E, o)
    _n, _a, _dom, val = view(E, o)
    _n0, _a0, dom0, val0 = oldview_or_empty(E, o, new)
    _m, _pk, pv = src_view(E, x)
    k = _kc(E, o, "k")
    given = z3.Select(val, k) == pv(z3.Select(Lst, k)) if pv is not None else z3.BoolVal(False)
    return Sym(z3.ForAll([k], z3.And(z3.Implies(z3.Select(G, k), given),
                                     z3.Implies(z3.And(z3.Not(z3.Select(G, k)), z3.Select(dom0, k)),
                                                z3.Select(val, k) == z3.Select(val0, k)))), "bool")


@specfunc
def bulk_vals_first(E, o, x, new=False):
    """create: no existing value changes; a new key holds its FIRST given value"""
    G, Fst, _L = ghost_maps(E, o)
    _n, _a, _dom, val = view(E, o)
    _n0, _a0, dom0, val0 = oldview_or_empty(E, o, new)
    _m, _pk, pv = src_view(E, x)
    k = _kc(E, o, "k")
    given = z3.Select(val, k) == pv(z3.Select(Fst, k)) if pv is not None else z3.BoolVal(False)
    return Sym(z3.ForAll([k], z3.And(z3.Implies(z3.And(z3.Select(G, k), z3.Not(z3.Select(dom0, k))), given),
                                     z3.Implies(z3.Select(dom0, k), z3.Select(val, k) == z3.Select(val0, k)))), "bool")


@specfunc
def bulk_prefix(E, o, new=False):
    """existing keys keep their position: the old key sequence is a prefix of the new one"""
    n, a, _dom, _v = view(E, o)
    n0, a0, _dom0, _v0 = oldview_or_empty(E, o, new)
    p = _ic(E, "p")
    return Sym(z3.And(n >= n0, z3.ForAll([p], z3.Implies(z3.And(p >= 0, p < n0), z3.Select(a, p) == z3.Select(a0, p)))),
               "bool")


@specfunc
def bulk_new_part(E, o, x, i=None, new=False):
    """the part after the old keys holds given keys that were absent, in order of FIRST occurrence, and is no
    longer than the number of pairs processed"""
    G, Fst, _L = ghost_maps(E, o)
    n, a, _dom, _v = view(E, o)
    n0, _a0, dom0, _v0 = oldview_or_empty(E, o, new)
    m, _pk, _pv = src_view(E, x)
    i = m if i is None else zint(i)
    p, q = _ic(E, "p"), _ic(E, "q")
    kp, kq = z3.Select(a, p), z3.Select(a, q)
    o1 = z3.ForAll([p], z3.Implies(z3.And(p >= n0, p < n),
                                   z3.And(z3.Select(G, kp), z3.Not(z3.Select(dom0, kp)), p - n0 <= z3.Select(Fst, kp))))
    o2 = z3.ForAll([p, q], z3.Implies(z3.And(p >= n0, p < q, q < n), z3.Select(Fst, kp) < z3.Select(Fst, kq)))
    return Sym(z3.And(n - n0 <= i, o1, o2), "bool")


@specfunc
def bulk_exact(E, o, x, i=None, new=False):
    """if the given keys are pairwise distinct and none was a key before, the new part IS the given key sequence"""
    n, a, _dom, _v = view(E, o)
    n0, _a0, dom0, _v0 = oldview_or_empty(E, o, new)
    m, pk, _pv = src_view(E, x)
    if pk is None:
        return Sym(n == n0, "bool")
    i = m if i is None else zint(i)
    j, j2 = _ic(E, "j"), _ic(E, "j2")
    hyp = z3.And(z3.ForAll([j], z3.Implies(z3.And(j >= 0, j < m), z3.Not(z3.Select(dom0, pk(j))))),
                 z3.ForAll([j, j2], z3.Implies(z3.And(j >= 0, j < j2, j2 < m), pk(j) != pk(j2))))
    con = z3.And(n == n0 + i, z3.ForAll([j], z3.Implies(z3.And(j >= 0, j < i), z3.Select(a, n0 + j) == pk(j))))
    return Sym(z3.Implies(hyp, con), "bool")


@specfunc
def src_ok(E, o, x):
    """pre-condition on the argument: another odict argument is well formed, is not `o` itself and shares none of its
    internals with `o`; a list argument is not o's key list (they are objects of different types)"""
    if isinstance(x, tuple):
        if len(x) == 0:
            return True
        x = x[0]
    mine = [E.rd_field(o, "_keys").t, _d(E, o).t, _pos(E, o).t]
    if isinstance(x, ListV):
        return Sym(z3.And(x.t != 0, *[x.t != m for m in mine]), "bool")
    theirs = [E.rd_field(x, "_keys").t, _d(E, x).t, _pos(E, x).t]
    sep = [a != b for a in mine for b in theirs] + [x.t != o.t, theirs[0] != theirs[1], theirs[0] != theirs[2],
                                                   theirs[1] != theirs[2]]
    return Sym(z3.And(inv(E, x).t, *sep), "bool")


src_ok.native = lambda o, x: True
CASES = [{"pa": ("vararg", (List(PAIR),))}, {"pa": ("vararg", (Ref("odict"),))}, {"pa": ("vararg", ())}]
REQ_BULK = ["inv(self)", "src_ok(self, pa)"]


def bulk_clauses(arg, idx=None, vals="bulk_vals_last", obj="self", new=False, first="inv(%s)"):
    i = "" if idx is None else ", " + idx
    nw = ", new=True" if new else ""
    return [first % obj, "bulk_ghost(%s, %s%s)" % (obj, arg, i), "bulk_dom(%s, %s%s)" % (obj, arg, nw),
            "%s(%s, %s%s)" % (vals, obj, arg, nw), "bulk_prefix(%s%s)" % (obj, nw),
            "bulk_new_part(%s, %s%s%s)" % (obj, arg, i, nw), "bulk_exact(%s, %s%s%s)" % (obj, arg, i, nw)]


def bulk_loops(vals="bulk_vals_last"):
    return {1: dict(BULK_LOOP, inv=bulk_clauses("a", "_i", vals)), 2: dict(BULK_LOOP, inv=bulk_clauses("a", "_i", vals))}


def _upd_model(first_wins=False):
    def model(keys, store, env):
        for a in env["pa"]:
            for k, v in (list(a.items()) if hasattr(a, "get") else list(a)):
                if k not in store:
                    keys.append(k)
                    store[k] = v
                elif not first_wins:
                    store[k] = v
        return keys, store, None
    return model


def _bulk_extra(rng, mod):
    r = rng.random()
    if r < 0.6:
        return {"pa": (_rand_pairs(rng),)}
    if r < 0.9:
        return {"pa": (mod.odict(_rand_pairs(rng)),)}
    return {"pa": ()}


def _bulk_call(meth):
    return lambda env, nr: getattr(type(env["self"]), meth)(env["self"], *env["pa"])


contract(F, "odict.update", "C39", params=dict(P), cases=CASES, requires=REQ_BULK, modifies=MODS,
         ensures=bulk_clauses("pa"), loops=bulk_loops(),
         replay=harness(extra=_bulk_extra, call=_bulk_call("update"), model=_upd_model()),
         note="one positional argument (list of pairs | odict) or none; keyword arguments: none (empty **kwa)")
contract(F, "odict.__init__", "C39", params=dict(P), cases=CASES, requires=REQ_BULK, modifies=MODS,
         ensures=bulk_clauses("pa"), loops=bulk_loops(),
         replay=harness(extra=_bulk_extra, call=_bulk_call("__init__"), model=_upd_model()),
         note="as update (run on an existing odict by __setstate__); same argument shapes")
contract(F, "odict.create", "C39", params=dict(P), cases=CASES, requires=REQ_BULK, modifies=MODS,
         ensures=bulk_clauses("pa", vals="bulk_vals_first"), loops=bulk_loops("bulk_vals_first"),
         replay=harness(extra=_bulk_extra, call=_bulk_call("create"), model=_upd_model(first_wins=True)),
         note="same argument shapes as update")


# ---- construction: __new__ makes the empty object (with its key list), Cls(...) = __new__ + __init__ (ctor hook)
@specfunc
def new_odict_cls(E, cls):
    return True


contract(F, "odict.__new__", "C39", params=dict(cls=("const", ClassV(F, "odict")), args=("vararg", ())),
         modifies=[], ensures=["fresh_odict(result)", "len(result._keys) == 0", "is_empty(result)", "inv(result)"],
         returns=lambda E, env: Ref(inst_class(E, env["cls"].name)),
         note="dict.__new__ (assumed): a new empty map; the arguments are ignored by dict.__new__")


def _adopt_bulk_ghost(E):
    """the ghost maps of the bulk callee that just returned become this frame's (witnesses of its post-condition)"""
    g = getattr(E, "c39_last_bulk", None)
    if g is not None:
        E.ghost[("c39bulk", id(E.frame))] = g


contract(F, "odict.__setstate__", "C39", params=dict(P, state=List(PAIR)), requires=["inv(self)", "src_ok(self, (state,))"],
         modifies=MODS, ghost={"after": {"self.__init__(state)": _adopt_bulk_ghost}},
         ensures=bulk_clauses("(state,)"),
         replay=harness(extra=lambda rng, mod: {"state": _rand_pairs(rng)},
                        model=lambda ks, st, env: _upd_model()(ks, st, {"pa": (env["state"],)})),
         note="with __getstate__ (items in key order, keys pairwise distinct by inv) and a new empty object from "
              "__new__, bulk_exact + bulk_vals_last give the round trip: same key sequence, same values")


# ------------------------------------------------------------------------------------------- copy / sift / setdefault
def _model_copy(ks, st, env):
    return ks, st, (list(ks), dict(st))


contract(F, "odict.copy", "C39", params=dict(P), requires=["inv(self)"], modifies=[],
         ensures=["fresh_odict(result)", "inv(result)", "seq_eq(result._keys, self._keys)", "same_map(result, self)"],
         returns=Ref("odict"), replay=harness(model=_model_copy),
         note="a NEW odict (object, key list and map allocated by the call) with the same key sequence and values")


@specfunc
def sift_post(E, res, o, fields):
    """res holds exactly the keys listed in `fields`, each with o's value, ordered by FIRST occurrence in `fields`
    (so: equal to `fields` when its entries are pairwise distinct)"""
    n, a, dom, val = view(E, res)
    _no, _ao, domo, valo = view(E, o)
    m, fa = E.llen(fields), E.larrs(fields)[0]
    k = _kc(E, o, "k")
    j, j2, p, q, b = _ic(E, "j"), _ic(E, "j2"), _ic(E, "p"), _ic(E, "q"), _ic(E, "b")
    mem = z3.ForAll([k], z3.Select(dom, k) == z3.Exists([j], z3.And(j >= 0, j < m, z3.Select(fa, j) == k)))
    vals = z3.ForAll([k], z3.Implies(z3.Select(dom, k), z3.And(z3.Select(domo, k), z3.Select(val, k) == z3.Select(valo, k))))
    distinct = z3.ForAll([j, j2], z3.Implies(z3.And(j >= 0, j < j2, j2 < m), z3.Select(fa, j) != z3.Select(fa, j2)))
    exact = z3.Implies(distinct, z3.And(n == m, z3.ForAll([j], z3.Implies(z3.And(j >= 0, j < m),
                                                                            z3.Select(a, j) == z3.Select(fa, j)))))
    order = z3.ForAll([p, q], z3.Implies(
        z3.And(p >= 0, p < q, q < n),
        z3.Exists([j], z3.And(j >= 0, j < m, z3.Select(fa, j) == z3.Select(a, p),
                              z3.ForAll([b], z3.Implies(z3.And(b >= 0, b <= j), z3.Select(fa, b) != z3.Select(a, q)))))))
    return Sym(z3.And(mem, vals, exact, order), "bool")


@specfunc
def sift_missing(E, o, fields):
    _n, _a, dom, _v = view(E, o)
    m, fa = E.llen(fields), E.larrs(fields)[0]
    j = _ic(E, "j")
    return Sym(z3.Exists([j], z3.And(j >= 0, j < m, z3.Not(z3.Select(dom, z3.Select(fa, j))))), "bool")


def _n_sift_post(res, o, fields):
    want = []
    for f in fields:
        if f not in want:
            want.append(f)
    return list(res._keys) == want and all(dict.__getitem__(res, f) == dict.__getitem__(o, f) for f in want)


sift_post.native = _n_sift_post
sift_missing.native = lambda o, fields: any(not dict.__contains__(o, f) for f in fields)


def _model_sift(ks, st, env):
    f = env["fields"]
    if f is None:
        return ks, st, (list(ks), dict(st))
    if any(x not in st for x in f):
        return ks, st, KeyError
    want = []
    for x in f:
        if x not in want:
            want.append(x)
    return ks, st, (want, {x: st[x] for x in want})


contract(F, "odict.sift", "C39", params=dict(P, fields=Opt(List(K))), requires=["inv(self)"], modifies=[],
         ensures=["fresh_odict(result)", "inv(result)",
                  "implies(fields is None, seq_eq(result._keys, self._keys) and same_map(result, self))",
                  "implies(fields is not None, sift_post(result, self, fields))"],
         raises={"KeyError": ["fields is not None and sift_missing(self, fields)"]}, returns=Ref("odict"),
         replay=harness(extra=lambda rng, mod: {"fields": None if rng.random() < 0.2 else
                                                [rng.choice(NKEYS) for _ in range(rng.randint(0, 4))]},
                        model=_model_sift))
contract(F, "odict.setdefault", "C39", params=dict(P, key=K, default=V_), requires=["inv(self)"], modifies=MODS,
         ghost={"after": {"self._keys.append(key)": OD._g_after_append}},
         ensures=["inv(self)", "key in self", "same_vals_except(self, key)",
                  # `is`: the stored / returned object itself (matters when the values are lists: modict)
                  "implies(old(key in self), result is old(self[key]) and self[key] is old(self[key]) and "
                  "keys_unchanged(self))",
                  "implies(not old(key in self), result is default and self[key] is default and "
                  "is_concat(self._keys, old_keys(self), [key]))"],
         returns=RET["vt"],
         replay=harness(extra=lambda rng, mod: {"key": rng.choice(NKEYS), "default": rng.randint(10, 19)},
                        model=lambda ks, st, env: (ks + ([] if env["key"] in st else [env["key"]]),
                                                   dict(st, **{env["key"]: st.get(env["key"], env["default"])}),
                                                   st.get(env["key"], env["default"]))),
         note="called with an explicit default of the value type (the None default is outside the value sort)")


# ------------------------------------------------------------------------------------------- reorder
def _pos_arr(E, o):
    return E.dvals(_pos(E, o))[0]


def _old(E, fn):
    heap = E.heap
    E.heap = dict(E.heap_old)
    try:
        return fn()
    finally:
        E.heap = heap


@specfunc
def reorder_map(E, o, other):
    """the map is the old one overridden by other's"""
    _n, _a, dom, val = view(E, o)
    _n0, _a0, dom0, val0 = oldview(E, o)
    _m, _b, odom, oval = oldview(E, other)
    k = _kc(E, o, "k")
    return Sym(z3.ForAll([k], z3.And(z3.Select(dom, k) == z3.Or(z3.Select(dom0, k), z3.Select(odom, k)),
                                     z3.Implies(z3.Select(odom, k), z3.Select(val, k) == z3.Select(oval, k)),
                                     z3.Implies(z3.And(z3.Select(dom0, k), z3.Not(z3.Select(odom, k))),
                                                z3.Select(val, k) == z3.Select(val0, k)))), "bool")


def _reorder_terms(E, o, other, i):
    n, a, _dom, _v = view(E, o)
    _n0, _a0, dom0, _v0 = oldview(E, o)
    pos0 = _old(E, lambda: _pos_arr(E, o))
    m, b, odom, _ov = oldview(E, other)
    opos = _old(E, lambda: _pos_arr(E, other))
    i = m if i is None else zint(i)
    return n, a, dom0, pos0, m, b, odom, opos, i


@specfunc
def reorder_tail(E, o, other, i=None):
    """the key sequence ends with other's first i keys, in other's order (i omitted: all of other's keys)"""
    n, a, dom0, pos0, m, b, odom, opos, i = _reorder_terms(E, o, other, i)
    p, j = _ic(E, "p"), _ic(E, "j")
    ap = z3.Select(a, p)
    byidx = z3.ForAll([j], z3.Implies(z3.And(j >= 0, j < i), z3.Select(a, n - i + j) == z3.Select(b, j)))
    bypos = z3.ForAll([p], z3.Implies(z3.And(p >= n - i, p < n), z3.And(z3.Select(odom, ap), z3.Select(opos, ap) == p - (n - i))))
    return Sym(z3.And(i >= 0, i <= m, n >= i, bypos, byidx), "bool")


@specfunc
def reorder_front(E, o, other, i=None):
    """before them come old keys that are not among the moved ones ..."""
    n, a, dom0, pos0, m, b, odom, opos, i = _reorder_terms(E, o, other, i)
    p = _ic(E, "p")
    ap = z3.Select(a, p)
    return Sym(z3.ForAll([p], z3.Implies(z3.And(p >= 0, p < n - i),
                                         z3.And(z3.Select(dom0, ap),
                                                z3.Not(z3.And(z3.Select(odom, ap), z3.Select(opos, ap) < i))))), "bool")


@specfunc
def reorder_order(E, o, other, i=None):
    """... in their old relative order"""
    n, a, dom0, pos0, m, b, odom, opos, i = _reorder_terms(E, o, other, i)
    p, q = _ic(E, "p"), _ic(E, "q")
    return Sym(z3.ForAll([p, q], z3.Implies(z3.And(p >= 0, p < q, q < n - i),
                                            z3.Select(pos0, z3.Select(a, p)) < z3.Select(pos0, z3.Select(a, q)))), "bool")


@specfunc
def reorder_inv(E, o, other, i):
    """loop invariant on the key list while the map already holds other's keys: the list is duplicate free, holds
    exactly the old keys and other's first i keys, and the ghost position map is its inverse"""
    n, a, dom, _v = view(E, o)
    pos = _pos_arr(E, o)
    _n0, _a0, dom0, _v0 = oldview(E, o)
    _m, _b, odom, _ov = oldview(E, other)
    opos = _old(E, lambda: _pos_arr(E, other))
    i = zint(i)
    p = _ic(E, "p")
    k = _kc(E, o, "k")
    ap = z3.Select(a, p)
    inlist = lambda x: z3.Or(z3.Select(dom0, x), z3.And(z3.Select(odom, x), z3.Select(opos, x) < i))
    ra = z3.ForAll([p], z3.Implies(z3.And(p >= 0, p < n), z3.And(z3.Select(dom, ap), z3.Select(pos, ap) == p, inlist(ap))))
    pk = z3.Select(pos, k)
    rb = z3.ForAll([k], z3.Implies(inlist(k), z3.And(pk >= 0, pk < n, z3.Select(a, pk) == k)))
    return Sym(z3.And(ra, rb), "bool")


def _model_reorder(ks, st, env):
    o = env["other"]
    okeys = list(o._keys)
    keys = [k for k in ks if k not in okeys] + okeys
    st = dict(st)
    st.update(dict(dict.items(o)))
    return keys, st, None


contract(F, "odict.reorder", "C39", params=dict(P, other=Ref("odict")), requires=["inv(self)", "src_ok(self, other)"],
         modifies=MODS,
         ghost={"after": {"keys.remove(key)": OD._g_after_remove, "keys.append(key)": OD._g_after_append}},
         loops={0: dict(inv=["reorder_inv(self, other, _i)", "reorder_tail(self, other, _i)", "reorder_front(self, other, _i)",
                             "reorder_order(self, other, _i)", "reorder_map(self, other)"])},
         ensures=["inv(self)", "reorder_map(self, other)", "reorder_tail(self, other)", "reorder_front(self, other)",
                  "reorder_order(self, other)"],
         replay=harness(extra=lambda rng, mod: {"other": mod.odict(_rand_pairs(rng))}, model=_model_reorder),
         note="other is another odict (reorder(self) is excluded by the pre-condition: see the level note); "
              "the ValueError branch needs a non-odict argument and is not reachable for an odict")


# ------------------------------------------------------------------------------------------- contract variants
def _variant(E, fv, env, c):
    """odict.pop has one contract per call shape: choose by the presence of the default argument; a variant written
    for a receiver class (params self=Ref(<class>)) is chosen for receivers of that class"""
    rcv = env.get("self")
    if isinstance(rcv, RefV) and fv.qual != "odict.pop":
        for v in E.reg.contracts[(fv.rel, fv.qual)]:
            if v.verify and isinstance(v.params.get("self"), Ty) and v.params["self"].name == rcv.cls:
                return v
    if fv.qual == "odict.popitem" and "last" in env:
        for v in E.reg.contracts[(fv.rel, fv.qual)]:
            if v.verify and "last" in v.params:
                return v          # the variant that knows the `last` parameter (LIFO / FIFO)
    if fv.qual == "odict.pop":
        want = bool(env.get("default"))
        pick = None
        for v in E.reg.contracts[(fv.rel, fv.qual)]:
            va = v.params.get("default")
            has = isinstance(va, tuple) and len(va) == 2 and va[0] == "vararg" and len(va[1]) > 0
            if has == want and v.verify and isinstance(v.params.get("self"), Ty) and v.params["self"].name == "odict":
                pick = v          # the last matching variant (the one below, which also keeps `inv` on KeyError)
        return pick
    return None


REG.variant_hook = _variant


# odict.pop without a default, third variant: as the first one, and the KeyError outcome also keeps the representation
# invariant (nothing was changed, the ghost position map included); callers that go on after catching the KeyError
# (modict.pop / poplist with a default) need it
contract(F, "odict.pop", "C39", params=dict(P, key=K), requires=["inv(self)"], modifies=MODS,
         ghost={"after": {"self._keys.remove(key)": OD._g_after_remove}},
         ensures=["inv(self)", "key not in self", "old(key in self)", "same_vals_except(self, key)",
                  "result == old(self[key])", "removed_at(self._keys, old_keys(self), old_pos(self, key))"],
         raises={"KeyError": ["old(key not in self)", UNCHANGED, "inv(self)"]}, returns=RET["vt"],
         note="called without a default; KeyError leaves inv(self) as well")


# ------------------------------------------------------------------------------------------- native harness for the
# contracts of contracts/c39_odict.py (added from here: the clauses there are unchanged; their spec functions that
# read the entry state implicitly have no native twin, the reference model below is what is compared natively)
OD.clampidx.native = lambda i, n: (max(0, n + i) if i < 0 else min(i, n))


def _m_basic(meth):
    def model(ks, st, env):
        k = env.get("key")
        if meth == "__setitem__":
            return ks + ([] if k in st else [k]), dict(st, **{k: env["val"]}), None
        if meth in ("__delitem__", "pop"):
            if k not in st:
                return (ks, st, env["default"][0]) if env.get("default") else (ks, st, KeyError)
            st = dict(st)
            v = st.pop(k)
            return [x for x in ks if x != k], st, (v if meth == "pop" else None)
        if meth == "append":
            return (ks, st, KeyError) if k in st else (ks + [k], dict(st, **{k: env["item"]}), None)
        if meth == "insert":
            if k in st:
                return ks, st, KeyError
            ks = list(ks)
            ks.insert(env["index"], k)
            return ks, dict(st, **{k: env["val"]}), None
        if meth == "clear":
            return [], {}, None
        if meth == "keys":
            return ks, st, list(ks)
        if meth == "popitem":
            if not ks:
                return ks, st, KeyError
            st = dict(st)
            return ks[:-1], st, (ks[-1], st.pop(ks[-1]))
    return model


_BASIC_X = {"__setitem__": lambda rng, mod: {"key": rng.choice(NKEYS), "val": rng.randint(10, 19)},
            "__delitem__": lambda rng, mod: {"key": rng.choice(NKEYS)},
            "append": lambda rng, mod: {"key": rng.choice(NKEYS), "item": rng.randint(10, 19)},
            "insert": lambda rng, mod: {"index": rng.randint(-6, 6), "key": rng.choice(NKEYS), "val": rng.randint(10, 19)},
            "clear": None, "keys": None, "popitem": None}
for _m, _x in _BASIC_X.items():
    for _c in REG.contracts.get((F, "odict." + _m), []):
        if _c.replay is None and _c.verify and _c.params.get("self") is P["self"] and "last" not in _c.params:
            _c.replay = harness(extra=_x, model=_m_basic(_m))
for _c in REG.contracts.get((F, "odict.pop"), []):
    if _c.replay is None and _c.verify:
        _dflt = bool(_c.params.get("default"))
        _c.replay = harness(extra=(lambda rng, mod, d=_dflt: dict({"key": rng.choice(NKEYS)}, **({"default": (-1,)} if d else {}))),
                            call=lambda env, nr: type(env["self"]).pop(env["self"], env["key"], *env.get("default", ())),
                            model=_m_basic("pop"))
