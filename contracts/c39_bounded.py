"""C39 BOUNDED stand-ins (native only, never counted as proved): exhaustive operation sequences on the REAL classes
against independent reference models.

  oset   (ioflo/aid/osetting.py: self-referential list nodes [key, prev, next] held in a dict - outside the executor):
         every sequence of <= 5 operations over 3 keys from add / discard / remove / pop() / pop(last=False), each
         step's outcome (result or exception class) compared with the model (a Python list without duplicates);
         after every sequence: __contains__ (3 keys + 1 foreign), __len__, __iter__, __reversed__, __eq__ (against an
         oset with the same order, the reversed order, and plain sets), and the algebra inherited from
         collections.abc.MutableSet (| & - ^ <= >= < > isdisjoint) against 4 fixed operands (osets and a set).
  odict  every sequence of <= 4 operations from a 13-operation core alphabet over 3 keys, and <= 3 from the full
         27-operation alphabet (update / create / reorder / insert / setdefault / clear ...); after every sequence:
         keys / items / values / iteration / len / in, copy() and sift (equal, not aliased), constructor from the
         odict, pickle (protocols 2, 3, default, highest) and copy.copy / copy.deepcopy round trips (library driven).
  lodict every sequence of <= 4 operations over the 4 spellings a / A / b / B (model: dict over lower()).
  modict every sequence of <= 4 operations over 2 keys (model: key -> list of values): append / [] = / replace /
         pop / poplist / popitem (LIFO, FIFO) / setdefault / update from pairs, from a modict, from a dict; after every
         sequence the newest-value and the list accessors, copy().
The contracts below are `verify=False` carriers of the harness (anchored on one real method each); their single
clause is evaluated natively only.  A failure is reported with the shortest failing sequence found.
"""
from pyvc.api import *
import itertools

FO = "ioflo/aid/osetting.py"
FD = "ioflo/aid/odicting.py"
KEYS3 = ["a", "b", "c"]


@specfunc
def bounded_ok(E, *a):
    raise Unsupported("bounded stand-in: no symbolic counterpart")


bounded_ok.native = lambda *a: True


class _Exc:
    def __init__(self, cls):
        self.cls = cls

    def __eq__(self, o):
        return isinstance(o, _Exc) and o.cls is self.cls

    def __repr__(self):
        return "raises %s" % self.cls.__name__


def _run(fn):
    try:
        return fn()
    except Exception as ex:      # outcome = the exception class
        return _Exc(type(ex))


def _sequences(nops, maxlen, first):
    """all operation index sequences of length 1..maxlen whose first operation is `first`"""
    for n in range(1, maxlen + 1):
        for rest in itertools.product(range(nops), repeat=n - 1):
            yield (first,) + rest


def explore(new_real, new_model, ops, observe, maxlen, first, limit=3):
    """ops: list of (label, real_fn(obj), model_fn(model)) -> outcomes compared step by step; observe(obj, model) ->
    list of messages at the end of every sequence.  Returns (number of sequences, failure messages)."""
    fails = []
    count = 0
    for seq in _sequences(len(ops), maxlen, first):
        count += 1
        obj, mod = new_real(), new_model()
        bad = None
        for j in seq:
            label, rf, mf = ops[j]
            got, want = _run(lambda: rf(obj)), _run(lambda: mf(mod))
            if got != want:
                bad = "step %s: real %r, model %r" % (label, got, want)
                break
        if bad is None:
            msgs = observe(obj, mod)
            bad = msgs[0] if msgs else None
        if bad is not None:
            fails.append("%s: after [%s]" % (bad, ", ".join(ops[j][0] for j in seq)))
            if len(fails) >= limit:
                break
    return count, fails


def carrier(rel, qual, title, new_real, new_model, ops_fn, observe_fn, maxlen, scope):
    """register the verify=False carrier contract: evaluation i explores every sequence starting with operation i"""
    state = {}

    def setup(nr):
        if "ops" not in state:
            state["ops"] = ops_fn(nr.mod)
        return state["ops"]

    def make(rng, i, cex, nr):
        ops = setup(nr)
        if i >= len(ops):
            return None
        return {"first": i, "_out": {}}

    def call(env, nr):
        ops = setup(nr)
        n, fails = explore(lambda: new_real(nr.mod), new_model, ops, lambda o, m: observe_fn(nr.mod, o, m), maxlen,
                           env["first"])
        env["_out"]["n"], env["_out"]["fails"] = n, fails
        return n

    def check(env, nr, outcome, result, exc):
        if exc is not None:
            return ["bounded %s: the harness raised %r" % (title, exc)]
        return ["bounded %s: %s" % (title, f) for f in env["_out"].get("fails", [])]

    contract(rel, qual, "C39", params=dict(first=INT), verify=False, frame=False,
             ensures=["bounded_ok(first)"], replay=dict(make=make, call=call, check=check, count=64),
             note="BOUNDED stand-in, not a proof: %s" % scope)


# =========================================================================================== oset
def _oset_ops(mod):
    ops = []
    for k in KEYS3:
        ops.append(("add(%s)" % k, lambda s, k=k: s.add(k), lambda m, k=k: m.append(k) if k not in m else None))
        ops.append(("discard(%s)" % k, lambda s, k=k: s.discard(k), lambda m, k=k: m.remove(k) if k in m else None))
        ops.append(("remove(%s)" % k, lambda s, k=k: s.remove(k), lambda m, k=k: _m_remove(m, k)))
    ops.append(("pop()", lambda s: s.pop(), lambda m: _m_pop(m, -1)))
    ops.append(("pop(last=False)", lambda s: s.pop(last=False), lambda m: _m_pop(m, 0)))
    return ops


def _m_remove(m, k):
    if k not in m:
        raise KeyError(k)
    m.remove(k)


def _m_pop(m, idx):
    if not m:
        raise KeyError("empty")
    return m.pop(idx)


_OPERANDS = [[], ["b"], ["c", "a"], ["b", "d", "a"]]
_ALGEBRA_SEEN = set()


def _oset_observe(mod, s, m):
    oset = mod.oset
    msgs = []

    def want(what, got, exp):
        if got != exp:
            msgs.append("%s is %r, model %r" % (what, got, exp))
    for k in KEYS3 + ["zz"]:
        want("%r in s" % k, k in s, k in m)
    want("len", len(s), len(m))
    want("list(s)", list(s), list(m))
    want("list(reversed(s))", list(reversed(s)), list(reversed(m)))
    want("s == oset(same order)", s == oset(m), True)
    want("s == oset(reversed order)", s == oset(reversed(m)), list(reversed(m)) == m)
    want("s == set", s == set(m), True)
    want("s == set + foreign", s == (set(m) | {"zz"}), False)
    want("s != oset(same order)", s != oset(m), False)
    # the algebra and the order comparisons are mixin methods of collections.abc.Set / MutableSet: functions of what
    # __contains__ / __iter__ / __len__ deliver.  They are exercised once per distinct observation signature.
    sig = (tuple(s), tuple(reversed(s)), len(s), tuple(k in s for k in KEYS3 + ["zz", "d"]))
    if msgs or sig in _ALGEBRA_SEEN:
        return msgs
    _ALGEBRA_SEEN.add(sig)
    for t in _OPERANDS:
        for other, tag in ((oset(t), "oset"), (set(t), "set")):
            tl = t if tag == "oset" else None          # a plain set operand has no order: compare as sets
            exp = {"|": m + [x for x in t if x not in m], "&": [x for x in t if x in m],
                   "-": [x for x in m if x not in t],
                   "^": [x for x in m if x not in t] + [x for x in t if x not in m]}
            for op, fn in (("|", lambda a, b: a | b), ("&", lambda a, b: a & b), ("-", lambda a, b: a - b),
                           ("^", lambda a, b: a ^ b)):
                r = _run(lambda: fn(s, other))
                if isinstance(r, _Exc) or not isinstance(r, oset):
                    msgs.append("s %s %s(%r) gives %r (an oset expected)" % (op, tag, t, r))
                elif len(list(r)) != len(set(r)) or set(r) != set(exp[op]) or (tl is not None and list(r) != exp[op]):
                    msgs.append("s %s %s(%r) is %r, model %r" % (op, tag, t, list(r), exp[op]))
            sm, st = set(m), set(t)
            want("s <= %s(%r)" % (tag, t), s <= other, sm <= st)
            want("s >= %s(%r)" % (tag, t), s >= other, sm >= st)
            want("s < %s(%r)" % (tag, t), s < other, sm < st)
            want("s > %s(%r)" % (tag, t), s > other, sm > st)
            want("s.isdisjoint(%s(%r))" % (tag, t), s.isdisjoint(other), sm.isdisjoint(st))
    want("list(s) after the observations", list(s), list(m))       # the observers do not mutate
    return msgs


carrier(FO, "oset.add", "oset", lambda mod: mod.oset(), lambda: [], _oset_ops, _oset_observe, 5,
        "oset: all sequences of <= 5 operations from add/discard/remove x {a,b,c}, pop(), pop(last=False) (11 operations, "
        "177155 sequences) against a duplicate-free list; after each: in (4 keys), len, iter, reversed, ==/!= (same "
        "order, reversed order, sets), | & - ^ <= >= < > isdisjoint with 4 operands as oset and as set")


# =========================================================================================== odict
# model: (keys list, dict).  Values written by step: a fresh integer per operation application (model and real object
# get the same one through the shared counter below).
class _Tick:
    n = 0


def _tick():
    _Tick.n += 1
    return _Tick.n


def _both(label, rf, mf):
    """operation whose value argument is one fresh integer shared by the real call and the model call"""
    box = {}

    def real(o):
        box["v"] = _tick()
        return rf(o, box["v"])

    def model(m):
        return mf(m, box["v"])
    return (label, real, model)


class _M:
    """reference insertion-ordered dictionary: list of keys + plain dict"""
    def __init__(self, low=False):
        self.keys, self.d, self.low = [], {}, low

    def k(self, k):
        return k.lower() if self.low else k

    def set(self, k, v):
        k = self.k(k)
        if k not in self.d:
            self.keys.append(k)
        self.d[k] = v

    def delete(self, k):
        k = self.k(k)
        del self.d[k]
        self.keys.remove(k)

    def pop(self, k, *dflt):
        k = self.k(k)
        if k not in self.d:
            if dflt:
                return dflt[0]
            raise KeyError(k)
        self.keys.remove(k)
        return self.d.pop(k)

    def popitem(self, last=True):
        if not self.keys:
            raise KeyError("empty")
        k = self.keys.pop(-1 if last else 0)
        return (k, self.d.pop(k))

    def setdefault(self, k, v):
        k = self.k(k)
        if k not in self.d:
            self.set(k, v)
        return self.d[k]

    def insert(self, i, k, v):
        if k in self.d:
            raise KeyError(k)
        self.d[k] = v
        self.keys.insert(i, k)

    def append(self, k, v):
        if self.k(k) in self.d:
            raise KeyError(k)
        self.set(k, v)

    def update(self, pairs):
        for k, v in pairs:
            self.set(k, v)

    def create(self, pairs):
        for k, v in pairs:
            if k not in self.d:
                self.set(k, v)

    def reorder(self, pairs):
        for k, v in pairs:
            self.d[k] = v
            if k in self.keys:
                self.keys.remove(k)
            self.keys.append(k)

    def clear(self):
        self.keys, self.d = [], {}

    def items(self):
        return [(k, self.d[k]) for k in self.keys]


def _odict_core_ops(mod):
    ops = []
    for k in KEYS3:
        ops.append(_both("[%s]=v" % k, lambda o, v, k=k: o.__setitem__(k, v), lambda m, v, k=k: m.set(k, v)))
        ops.append(("del [%s]" % k, lambda o, k=k: o.__delitem__(k), lambda m, k=k: m.delete(k)))
        ops.append(("pop(%s)" % k, lambda o, k=k: o.pop(k), lambda m, k=k: m.pop(k)))
        ops.append(("pop(%s, None)" % k, lambda o, k=k: o.pop(k, None), lambda m, k=k: m.pop(k, None)))
    ops.append(("popitem()", lambda o: o.popitem(), lambda m: m.popitem()))
    return ops


def _odict_full_ops(mod):
    ops = _odict_core_ops(mod)
    for k in KEYS3:
        ops.append(_both("setdefault(%s, v)" % k, lambda o, v, k=k: o.setdefault(k, v), lambda m, v, k=k: m.setdefault(k, v)))
        ops.append(_both("insert(1, %s, v)" % k, lambda o, v, k=k: o.insert(1, k, v), lambda m, v, k=k: m.insert(1, k, v)))
        ops.append(_both("append(%s, v)" % k, lambda o, v, k=k: o.append(k, v), lambda m, v, k=k: m.append(k, v)))
    ops.append(_both("update([(c,v),(a,v+100),(c,v+200)])",
                     lambda o, v: o.update([("c", v), ("a", v + 100), ("c", v + 200)]),
                     lambda m, v: m.update([("c", v), ("a", v + 100), ("c", v + 200)])))
    ops.append(_both("update(odict([(b,v),(d,v)]), then kw a=v)", lambda o, v: o.update(mod.odict([("b", v), ("d", v)]), a=v),
                     lambda m, v: m.update([("b", v), ("d", v), ("a", v)])))
    ops.append(_both("create([(c,v),(a,v),(c,v+1)])", lambda o, v: o.create([("c", v), ("a", v), ("c", v + 1)]),
                     lambda m, v: m.create([("c", v), ("a", v), ("c", v + 1)])))
    ops.append(_both("reorder(odict([(c,v),(a,v)]))", lambda o, v: o.reorder(mod.odict([("c", v), ("a", v)])),
                     lambda m, v: m.reorder([("c", v), ("a", v)])))
    ops.append(("clear()", lambda o: o.clear(), lambda m: m.clear()))
    return ops


def _odict_observe(deep):
    def observe(mod, o, m):
        import copy
        import pickle
        msgs = []

        def want(what, got, exp):
            if got != exp:
                msgs.append("%s is %r, model %r" % (what, got, exp))
        cls = type(o)
        want("keys()", o.keys(), list(m.keys))
        want("_keys", list(o._keys), list(m.keys))
        want("items()", o.items(), m.items())
        want("values()", o.values(), [v for _k, v in m.items()])
        want("list(iter)", list(o), list(m.keys))
        want("list(iteritems)", list(o.iteritems()), m.items())
        want("len", len(o), len(m.keys))
        want("dict view", dict(dict.items(o)), dict(m.d))
        for k in KEYS3 + ["d"]:
            want("%r in o" % k, k in o, k in m.d)
        if msgs or not deep:
            return msgs
        c = o.copy()
        want("copy().items()", (type(c), c.items()), (cls, m.items()))
        c["zz"] = 0
        want("items() after writing to the copy", o.items(), m.items())
        want("sift(None).items()", o.sift().items(), m.items())
        some = [k for k in ("c", "a") if k in m.d]
        want("sift(%r).items()" % (some,), o.sift(some).items(), [(k, m.d[k]) for k in some])
        want("sift(['zz'])", _run(lambda: o.sift(["zz"])), _Exc(KeyError))
        want("cls(o).items()", cls(o).items(), m.items())
        want("cls(items).items()", cls(o.items()).items(), m.items())
        want("__getstate__()", o.__getstate__(), m.items())
        n = cls()
        n.__setstate__(o.__getstate__())
        want("__setstate__(__getstate__()) on a new object", (n.items(), list(n._keys)), (m.items(), list(m.keys)))
        for proto in (2, 3, pickle.DEFAULT_PROTOCOL, pickle.HIGHEST_PROTOCOL):
            r = _run(lambda: pickle.loads(pickle.dumps(o, proto)))
            want("pickle round trip (protocol %d)" % proto,
                 r if isinstance(r, _Exc) else (type(r), r.items(), list(r._keys)), (cls, m.items(), list(m.keys)))
        for nm, fn in (("copy.copy", copy.copy), ("copy.deepcopy", copy.deepcopy)):
            r = _run(lambda: fn(o))
            want(nm, r if isinstance(r, _Exc) else (type(r), r.items(), list(r._keys), r is o),
                 (cls, m.items(), list(m.keys), False))
        return msgs
    return observe


carrier(FD, "odict.__repr__", "odict (core alphabet)", lambda mod: mod.odict(), lambda: _M(), _odict_core_ops,
        _odict_observe(False), 4,
        "odict: all sequences of <= 4 operations from [k]=v / del [k] / pop(k) / pop(k, None) x {a,b,c}, popitem() "
        "(13 operations, 30941 sequences) against list + dict; after each: keys, items, values, iteration, len, in")
carrier(FD, "odict.iterkeys", "odict (full alphabet)", lambda mod: mod.odict(), lambda: _M(), _odict_full_ops,
        _odict_observe(True), 3,
        "odict: all sequences of <= 3 operations from the core alphabet plus setdefault / insert(1, ..) / append x "
        "{a,b,c}, update (pairs with a repeated key; odict + keyword), create, reorder, clear (27 operations, 20439 "
        "sequences); after each additionally copy() (equal, not aliased), sift, constructor from the odict and from "
        "its items, __getstate__/__setstate__, pickle round trips (protocols 2, 3, default, highest; the class documents that protocol >= 2 is required), copy.copy, copy.deepcopy")


# =========================================================================================== lodict
SPELL = ["a", "A", "b", "B"]


def _lodict_ops(mod):
    ops = []
    for k in SPELL:
        ops.append(_both("[%s]=v" % k, lambda o, v, k=k: o.__setitem__(k, v), lambda m, v, k=k: m.set(k, v)))
        ops.append(("del [%s]" % k, lambda o, k=k: o.__delitem__(k), lambda m, k=k: m.delete(k)))
        ops.append(("pop(%s, None)" % k, lambda o, k=k: o.pop(k, None), lambda m, k=k: m.pop(k, None)))
        ops.append(_both("setdefault(%s, v)" % k, lambda o, v, k=k: o.setdefault(k, v), lambda m, v, k=k: m.setdefault(k, v)))
    ops.append(_both("update([(B,v),(a,v),(b,v+1)], A=v+2)", lambda o, v: o.update([("B", v), ("a", v), ("b", v + 1)], A=v + 2),
                     lambda m, v: m.update([("B", v), ("a", v), ("b", v + 1), ("A", v + 2)])))
    ops.append(("popitem()", lambda o: o.popitem(), lambda m: m.popitem()))
    return ops


def _lodict_observe(mod, o, m):
    msgs = []

    def want(what, got, exp):
        if got != exp:
            msgs.append("%s is %r, model %r" % (what, got, exp))
    want("keys()", o.keys(), list(m.keys))
    want("items()", o.items(), m.items())
    want("dict view", dict(dict.items(o)), dict(m.d))
    for k in SPELL + ["c"]:
        want("%r in o" % k, k in o, k.lower() in m.d)
        want("o[%r]" % k, _run(lambda: o[k]), m.d[k.lower()] if k.lower() in m.d else _Exc(KeyError))
        want("o.get(%r, -1)" % k, o.get(k, -1), m.d.get(k.lower(), -1))
    want("lodict(o).items()", mod.lodict(o).items(), m.items())
    want("copy()", (type(o.copy()), o.copy().items()), (mod.lodict, m.items()))
    return msgs


carrier(FD, "Test", "lodict", lambda mod: mod.lodict(), lambda: _M(low=True), _lodict_ops, _lodict_observe, 4,
        "lodict: all sequences of <= 4 operations from [k]=v / del [k] / pop(k, None) / setdefault(k, v) over the "
        "spellings a, A, b, B, update (pairs + keyword with mixed spellings), popitem() (18 operations, 111150 "
        "sequences) against list + dict over lower(); after each: keys, items, in / [] / get for every spelling, "
        "constructor from the lodict, copy()")


# =========================================================================================== modict
class _MM:
    """reference multi-dict: list of keys + dict key -> list of values"""
    def __init__(self):
        self.keys, self.d = [], {}

    def append(self, k, v):
        if k not in self.d:
            self.keys.append(k)
            self.d[k] = []
        self.d[k].append(v)

    def replace(self, k, v):
        if k not in self.d:
            self.keys.append(k)
        self.d[k] = [v]

    def poplist(self, k, *dflt):
        if k not in self.d:
            if dflt:
                return dflt[0]
            raise KeyError(k)
        self.keys.remove(k)
        return self.d.pop(k)

    def pop(self, k, *dflt):
        if k not in self.d and dflt:
            return dflt[0]
        return self.poplist(k)[-1]

    def poplistitem(self, last=True):
        if not self.keys:
            raise KeyError("empty")
        k = self.keys.pop(-1 if last else 0)
        return (k, self.d.pop(k))

    def popitem(self, last=True):
        k, v = self.poplistitem(last)
        return (k, v[-1])

    def setdefault(self, k, v):
        if k in self.d:
            return self.d[k][-1]
        self.append(k, v)
        return v

    def update(self, pairs):
        for k, v in pairs:
            self.append(k, v)


MK = ["a", "b"]


def _modict_ops(mod):
    ops = []
    for k in MK:
        ops.append(_both("[%s]=v" % k, lambda o, v, k=k: o.__setitem__(k, v), lambda m, v, k=k: m.append(k, v)))
        ops.append(_both("replace(%s, v)" % k, lambda o, v, k=k: o.replace(k, v), lambda m, v, k=k: m.replace(k, v)))
        ops.append(("pop(%s, None)" % k, lambda o, k=k: o.pop(k, None), lambda m, k=k: m.pop(k, None)))
        ops.append(("poplist(%s)" % k, lambda o, k=k: o.poplist(k), lambda m, k=k: m.poplist(k)))
        ops.append(_both("setdefault(%s, v)" % k, lambda o, v, k=k: o.setdefault(k, v), lambda m, v, k=k: m.setdefault(k, v)))
    ops.append(_both("add(a, v)", lambda o, v: o.add("a", v), lambda m, v: m.append("a", v)))
    ops.append(("popitem()", lambda o: o.popitem(), lambda m: m.popitem()))
    ops.append(("popitem(last=False)", lambda o: o.popitem(last=False), lambda m: m.popitem(False)))
    ops.append(("poplistitem()", lambda o: o.poplistitem(), lambda m: m.poplistitem()))
    ops.append(_both("update([(b,v),(a,v),(b,v+1)])", lambda o, v: o.update([("b", v), ("a", v), ("b", v + 1)]),
                     lambda m, v: m.update([("b", v), ("a", v), ("b", v + 1)])))
    ops.append(_both("update(modict([(b,v),(b,v+1)]), a=v)", lambda o, v: o.update(mod.modict([("b", v), ("b", v + 1)]), a=v),
                     lambda m, v: m.update([("b", v), ("b", v + 1), ("a", v)])))
    ops.append(_both("update({'a': v})", lambda o, v: o.update({"a": v}), lambda m, v: m.update([("a", v)])))
    return ops


def _modict_observe(mod, o, m):
    msgs = []

    def want(what, got, exp):
        if got != exp:
            msgs.append("%s is %r, model %r" % (what, got, exp))
    lists = [(k, list(m.d[k])) for k in m.keys]
    want("keys()", o.keys(), list(m.keys))
    want("listitems()", [(k, list(v)) for k, v in o.listitems()], lists)
    want("items()", o.items(), [(k, v[-1]) for k, v in lists])
    want("values()", o.values(), [v[-1] for _k, v in lists])
    want("listvalues()", [list(v) for v in o.listvalues()], [v for _k, v in lists])
    want("allitems()", o.allitems(), [(k, x) for k, v in lists for x in v])
    want("allvalues()", o.allvalues(), [x for _k, v in lists for x in v])
    want("list(iteritems())", list(o.iteritems()), [(k, v[-1]) for k, v in lists])
    want("list(iterallitems())", list(o.iterallitems()), [(k, x) for k, v in lists for x in v])
    want("len", len(o), len(m.keys))
    for k in MK + ["zz"]:
        want("%r in o" % k, k in o, k in m.d)
        want("has_key(%r)" % k, o.has_key(k), k in m.d)
        want("o[%r]" % k, _run(lambda: o[k]), m.d[k][-1] if k in m.d else _Exc(KeyError))
        want("get(%r, -1)" % k, _run(lambda: o.get(k, -1)), m.d[k][-1] if k in m.d else -1)
        want("getone(%r, -1)" % k, _run(lambda: o.getone(k, -1)), m.d[k][-1] if k in m.d else -1)
        want("getlist(%r)" % k, list(o.getlist(k)), list(m.d.get(k, [])))
    c = o.copy()
    want("copy().listitems()", (type(c), [(k, list(v)) for k, v in c.listitems()]), (mod.modict, lists))
    c["a"] = 0
    want("listitems() after writing to the copy", [(k, list(v)) for k, v in o.listitems()], lists)
    want("fromkeys([a, b], 7).listitems()", o.fromkeys(["a", "b"], 7).listitems(), [("a", [7]), ("b", [7])])
    return msgs


carrier(FD, "modict.fromkeys", "modict", lambda mod: mod.modict(), lambda: _MM(), _modict_ops, _modict_observe, 4,
        "modict: all sequences of <= 4 operations from [k]=v / replace / pop(k, None) / poplist(k) / setdefault x {a,b}, "
        "add, popitem(), popitem(last=False), poplistitem(), update from pairs / from a modict + keyword / from a dict "
        "(17 operations, 88740 sequences) against list + dict of lists; after each: keys, items / values / list* / all* "
        "/ iter*, len, in, has_key, [], get, getone, getlist, copy() (equal, not aliased), fromkeys")
