"""C33 (server-sent events parse the same for any split and line ending) and the line level of C29:
the generators parseLine, parseLeader, parseBom, EventSource.parseEvents and packChunk of
ioflo/aio/http/httping.py.

Generators are verified through the mechanical step extraction `pyvc.builtins_.extract_step2` (tag "step2"):
ONE pass through the `while True:` body from the top, `(yield e)` = "emit e, suspend".  Between two steps the
environment may append arbitrary bytes to the shared bytearray (raw := raw ++ extra); nothing else of the state
is touched (assumption, listed).  Dropped by the extraction: the generator object protocol (send values,
StopIteration plumbing), GeneratorExit / close() (no yield is enclosed by try/with: checked), and the trailing
`return` that only ends the generator.  The statements before the loop are verified by "step2-init" contracts.

Buffers are bytearrays = List(INT), argued POINTWISE (length + array), never as SMT sequences.  `raw0` is a ghost
snapshot of the buffer at the start of the step (made by `setup`), so that every clause is also executable
natively (the harness stores a copy of the buffer under the same name).

The post-conditions come from the property statement: the line yielded is what precedes the EARLIEST end-of-line
mark (the longest mark at that position), exactly line + mark is consumed, nothing is consumed while no mark is
there; split independence = the same line and the same consumption on every extension of the buffer.
"""
from pyvc.api import *
from pyvc import builtins_ as B
from contracts.lib import *
import z3

F = "ioflo/aio/http/httping.py"
BA = List(INT)            # bytearray
CR_, LF_ = 13, 10


# ------------------------------------------------------------------------------------------ specification
def _n(E, lst, hi):
    return E.llen(lst) if hi is None else zint(hi)


def _occ(E, lst, p, e, hi):
    """z3: the concrete byte string e occurs at position p of lst[:hi]"""
    a = E.larrs(lst)[0]
    return z3.And(p >= 0, p + len(e) <= _n(E, lst, hi), *[z3.Select(a, p + j) == e[j] for j in range(len(e))])


def _eols(eols):
    out = tuple(bytes(e) for e in eols)
    if not out or any(len(e) == 0 for e in out):
        raise Unsupported("eols must be a non-empty tuple of non-empty concrete byte strings")
    return out


@specfunc
def eol_at(E, lst, p, hi, eols):
    """some end-of-line mark of `eols` occurs at position p of lst[:hi]"""
    p = zint(p)
    return Sym(z3.Or(*[_occ(E, lst, p, e, hi) for e in _eols(eols)]), "bool")


@specfunc
def eol_len_at(E, lst, p, hi, eols):
    """length of the LONGEST mark of `eols` occurring at position p of lst[:hi] (0 if none)"""
    p = zint(p)
    out = z3.IntVal(0)
    for e in sorted(_eols(eols), key=len):           # shortest first: the longest ends up outermost
        out = z3.If(_occ(E, lst, p, e, hi), z3.IntVal(len(e)), out)
    return Sym(out, "int")


@specfunc
def no_eol_in(E, lst, lo, up, hi, eols):
    """no mark of `eols` occurs in lst[:hi] at any position q with lo <= q < up"""
    q = z3.Int("q!ne%d" % next(E.counter))
    body = z3.Or(*[_occ(E, lst, q, e, hi) for e in _eols(eols)])
    return Sym(z3.ForAll([q], z3.Implies(z3.And(q >= zint(lo), q < zint(up)), z3.Not(body))), "bool")


@specfunc
def has_eol(E, lst, hi, eols):
    """some mark of `eols` occurs somewhere in lst[:hi]"""
    q = z3.Int("q!he%d" % next(E.counter))
    return Sym(z3.Exists([q], z3.Or(*[_occ(E, lst, q, e, hi) for e in _eols(eols)])), "bool")


@specfunc
def no_cr_lf(E, lst):
    k = z3.Int("k!nc%d" % next(E.counter))
    a = E.larrs(lst)[0] if lst.et is not None else None
    if a is None:
        return True
    return Sym(z3.ForAll([k], z3.Implies(z3.And(k >= 0, k < E.llen(lst)),
                                         z3.And(z3.Select(a, k) != CR_, z3.Select(a, k) != LF_))), "bool")


def _n_occ(lst, p, e, hi):
    hi = len(lst) if hi is None else hi
    return p >= 0 and p + len(e) <= hi and bytes(lst[p:p + len(e)]) == bytes(e)


eol_at.native = lambda lst, p, hi, eols: any(_n_occ(lst, p, e, hi) for e in eols)
eol_len_at.native = lambda lst, p, hi, eols: max([len(e) for e in eols if _n_occ(lst, p, e, hi)] or [0])
no_eol_in.native = lambda lst, lo, up, hi, eols: not any(_n_occ(lst, q, e, hi) for q in range(max(lo, 0), up)
                                                         for e in eols)
has_eol.native = lambda lst, hi, eols: any(_n_occ(lst, q, e, hi) for q in range(len(lst) if hi is None else hi)
                                           for e in eols)
no_cr_lf.native = lambda lst: not any(b in (CR_, LF_) for b in lst)


def ref_line(buf, eols, hi=None):
    """executable reference of the statement for one line: (line, consumed) or None when no mark is in buf[:hi]"""
    hi = len(buf) if hi is None else hi
    for p in range(hi):
        ls = [len(e) for e in eols if _n_occ(buf, p, e, hi)]
        if ls:
            return bytes(buf[:p]), p + max(ls)
    return None


# ------------------------------------------------------------------------------------------ library externals
@external("list.find")
def _ba_find(E, args, kw):
    """bytearray.find(needle) for a concrete non-empty needle: pointwise first-occurrence characterisation"""
    lv, needle = args[0], args[1]
    if lv.et is None or lv.et.kind != "int" or not isinstance(needle, (bytes, bytearray)) or len(needle) == 0 \
            or len(args) != 2 or kw:
        raise Unsupported("find on %r with needle %r" % (lv, needle))
    needle = bytes(needle)
    r = E.fresh("find", z3.IntSort())
    q = E.fresh("qf", z3.IntSort())
    n = E.llen(lv)
    none = z3.ForAll([q], z3.Not(_occ(E, lv, q, needle, None)))
    first = z3.And(r >= 0, r <= n - len(needle), _occ(E, lv, r, needle, None),
                   z3.ForAll([q], z3.Implies(z3.And(q >= 0, q < r), z3.Not(_occ(E, lv, q, needle, None)))))
    E.assume(z3.Or(z3.And(r == -1, none), first))
    return Sym(r, "int")


REG.assume_note("bytearray.find(needle) (concrete needle): returns -1 and the needle occurs at no position, or "
                "0 <= r <= len - len(needle), the needle occurs at r and at no position < r (pointwise "
                "first-occurrence characterisation); slices copy; del raw[:k] removes the first k bytes")
REG.assume_note("generators (step extraction): between two steps the environment only appends bytes to the shared "
                "bytearray; the generator protocol (send values, StopIteration), GeneratorExit/close() and the "
                "trailing `return` are dropped; a step = one pass through the `while True:` body from the top")


def _snap(name="raw", ghost="raw0", via=None):
    """ghost snapshot of a buffer at the start of the step: a pre-state list object the code cannot reach (distinct
    from the buffer; fresh objects have negative ids), with the buffer's length and contents.  No heap write is
    needed, which keeps the terms small."""
    def setup(E):
        lv = via(E) if via else E.frame.env[name]
        g = E.fresh("g_" + ghost, z3.IntSort())
        E.assume(g > 0)
        E.assume(g != lv.t)
        gl = ListV(g, lv.et)
        E.assume(E.llen(gl) == E.llen(lv))
        for x, y in zip(E.larrs(gl), E.larrs(lv)):
            E.assume(x == y)
        E.frame.env[ghost] = gl
    return setup


# ------------------------------------------------------------------------------------------ native harness
ALPHABET = b"a: \r\n"


def rand_bytes(rng, lo=0, hi=12, alphabet=ALPHABET):
    return bytes(rng.choice(alphabet) for _ in range(rng.randint(lo, hi)))


def _cex_list(cex, name):
    try:
        v = cex["params"][name]
        if isinstance(v, dict) and isinstance(v.get("len"), int) and len(v.get("items", [])) == v["len"]:
            return bytes(int(x) & 255 for x in v["items"])
    except Exception:
        pass
    return None


def _mk_line(eols_pool, with_n0=False, big=True):
    def make(rng, i, cex, nr):
        eols = rng.choice(eols_pool)
        dflt = nr.params.get("eols")
        if isinstance(dflt, tuple) and dflt and dflt[0] == "const":
            eols = dflt[1]
        buf = _cex_list(cex, "raw") if cex else None
        if buf is None:
            buf = rand_bytes(rng)
            if big and i % 97 == 96:        # the LineTooLong paths
                buf = b"a" * (nr.mod.MAX_LINE_SIZE + rng.randint(0, 2)) + rand_bytes(rng, 0, 3)
        env = {"raw": bytearray(buf), "raw0": bytes(buf), "eols": eols}
        if with_n0:
            n0 = None
            if cex:
                n0 = cex.get("params", {}).get("n0")
            if not isinstance(n0, int) or not (0 <= n0 <= len(buf)):
                n0 = rng.randint(0, len(buf))
            env["n0"] = n0
        return env
    return make


def _call_line(env, nr):
    g = nr.fn(env["raw"], eols=env["eols"])
    return next(g)


def _view(env, nr):
    return {"MAX_LINE_SIZE": nr.mod.MAX_LINE_SIZE, "CRLF": nr.mod.CRLF, "LF": nr.mod.LF, "CR": nr.mod.CR}


# ------------------------------------------------------------------------------------------ parseLine
HI = "len(raw0)"
LINE_ENSURES = [
    # no mark anywhere: nothing is consumed and None is yielded (waiting is harmless: the next step re-examines
    # raw ++ extra from the start)
    "implies(result is None, no_eol_in(raw0, 0, len(raw0), len(raw0), eols) and seq_eq(raw, raw0) "
    "and len(raw0) <= MAX_LINE_SIZE)",
    # a line is yielded: it is what precedes the EARLIEST mark ...
    "implies(result is not None, eol_at(raw0, len(result), len(raw0), eols) and len(result) <= MAX_LINE_SIZE)",
    "implies(result is not None, no_eol_in(raw0, 0, len(result), len(raw0), eols))",
    "implies(result is not None, is_slice(result, raw0, 0, len(result)))",
    "implies(result is not None, fresh(result) and result is not raw)",
    # ... and exactly the line and the LONGEST mark at that position are consumed
    "implies(result is not None, "
    "is_slice(raw, raw0, len(result) + eol_len_at(raw0, len(result), len(raw0), eols), len(raw0)))",
    # hence, for event streams (marks CRLF, LF, CR): a line contains neither CR nor LF
    "implies(result is not None and CR in eols and LF in eols, no_cr_lf(result))",
    "implies(has_eol(raw0, len(raw0), eols), result is not None)",
]
LINE_RAISES = {"LineTooLong": ["seq_eq(raw, raw0)", "len(raw0) > MAX_LINE_SIZE",
                               "no_eol_in(raw0, 0, MAX_LINE_SIZE + 1, len(raw0), eols)"]}
EOLS_POOL = [(b"\r\n", b"\n", b"\r")]

contract(F, "parseLine", "C33,C29", tags=("step2", "emits", "logic=AUFLIA"), params=dict(raw=BA), setup=_snap(),
         cases=[{}, {"eols": ("const", (b"\r\n", b"\n"))}, {"eols": ("const", (b"\r\n",))}],
         modifies=["raw[*]"], ensures=LINE_ENSURES, raises=LINE_RAISES, returns=Opt(BA),
         replay=dict(make=_mk_line(EOLS_POOL), call=_call_line, view=_view, count=400),
         note="one step of parseLine for the mark sets (CRLF, LF, CR) [events], (CRLF, LF) [leader], (CRLF,) [chunk "
              "size line]; the step always emits (tag emits), so next(lineParser) is one application of this contract")

# split independence (prefix stability): n0 = number of bytes that had arrived at an earlier step.  If raw0[:n0]
# already contained a mark, the step on the whole buffer yields the line and consumes the bytes that the statement
# prescribes for raw0[:n0] alone - whatever follows.
STABLE = "has_eol(raw0, n0, eols)"
contract(F, "parseLine", "C33,C29", tags=("step2", "logic=AUFLIA"), params=dict(raw=BA, n0=INT), setup=_snap(),
         cases=[{}, {"eols": ("const", (b"\r\n", b"\n"))}, {"eols": ("const", (b"\r\n",))}],
         requires=["0 <= n0 and n0 <= len(raw)"], modifies=["raw[*]"],
         ensures=[
             "implies(%s, result is not None)" % STABLE,
             "implies(%s and result is not None, len(result) < n0 and eol_at(raw0, len(result), n0, eols) and "
             "no_eol_in(raw0, 0, len(result), n0, eols))" % STABLE,
             "implies(%s and result is not None, "
             "len(raw0) - len(raw) == len(result) + eol_len_at(raw0, len(result), n0, eols))" % STABLE,
         ],
         raises={"LineTooLong": ["implies(%s, no_eol_in(raw0, 0, MAX_LINE_SIZE + 1, n0, eols))" % STABLE]},
         findings={"cr-lf-split": "1 <= n0 and n0 < len(raw) and raw[n0 - 1] == 13 and raw[n0] == 10 and CR in eols "
                                  "and no_eol_in(raw, 0, n0 - 1, n0, eols)"},
         returns=Opt(BA),
         replay=dict(make=_mk_line(EOLS_POOL, with_n0=True, big=False), call=_call_line, view=_view, count=600),
         note="prefix-stability lemma as a contract on the code; region cr-lf-split = the buffer ended with a CR "
              "that was its earliest mark and the next receive starts with LF")
