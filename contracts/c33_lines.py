"""C33 (server-sent events parse the same for any split and line ending) and the line level of C29:
the generators parseLine, parseLeader, parseBom, EventSource.parseEvents and packChunk of
ioflo/aio/http/httping.py.

Generators are verified through the mechanical step extraction `pyvc.builtins_.extract_step2` (tag "step2"):
ONE pass through the `while True:` body from the top, `(yield e)` = "emit e, suspend".  Between two steps the
environment may append arbitrary bytes to the shared bytearray (raw := raw ++ extra); nothing else of the state
is touched (assumption, listed).  Dropped by the extraction: the generator object protocol (send values,
StopIteration plumbing), GeneratorExit / close() (no yield is enclosed by try/with: checked), and the trailing
`return` that only ends the generator.  The statements before the loop are verified by "step2-init" contracts.

Buffers are bytearrays = List(INT), argued POINTWISE (length + array), never as SMT sequences.  `raw0` is a ghost
snapshot of the buffer at the start of the step (made by `setup`), so that every clause is also executable
natively (the harness stores a copy of the buffer under the same name).

The post-conditions come from the property statement: the line yielded is what precedes the EARLIEST end-of-line
mark (the longest mark at that position), exactly line + mark is consumed, nothing is consumed while no mark is
there; split independence = the same line and the same consumption on every extension of the buffer.
"""
from pyvc.api import *
from pyvc import builtins_ as B
from contracts.lib import *
import z3
import os as _os

F = "ioflo/aio/http/httping.py"
BA = List(INT)            # bytearray
CR_, LF_ = 13, 10


# ------------------------------------------------------------------------------------------ specification
def _n(E, lst, hi):
    return E.llen(lst) if hi is None else zint(hi)


def _occ(E, lst, p, e, hi):
    """z3: the concrete byte string e occurs at position p of lst[:hi]"""
    a = E.larrs(lst)[0]
    return z3.And(p >= 0, p + len(e) <= _n(E, lst, hi),
                  *[z3.Select(a, (p + j) if j else p) == e[j] for j in range(len(e))])


def _all(q, body, arr):
    """ForAll with the explicit trigger arr[q]: instantiated at every position the path reads (the automatically
    chosen triggers arr[q + 1] are not matched by e-matching)"""
    pat = z3.simplify(z3.Select(arr, q))          # beta-reduces a slice's lambda array
    try:
        if z3.is_app_of(pat, z3.Z3_OP_SELECT):
            return z3.ForAll([q], body, patterns=[pat])
    except z3.Z3Exception:
        pass
    return z3.ForAll([q], body)


def _eols(eols):
    out = tuple(bytes(e) for e in eols)
    if not out or any(len(e) == 0 for e in out):
        raise Unsupported("eols must be a non-empty tuple of non-empty concrete byte strings")
    return out


@specfunc
def eol_at(E, lst, p, hi, eols):
    """some end-of-line mark of `eols` occurs at position p of lst[:hi]"""
    p = zint(p)
    return Sym(z3.Or(*[_occ(E, lst, p, e, hi) for e in _eols(eols)]), "bool")


@specfunc
def eol_len_at(E, lst, p, hi, eols):
    """length of the LONGEST mark of `eols` occurring at position p of lst[:hi] (0 if none)"""
    p = zint(p)
    out = z3.IntVal(0)
    for e in sorted(_eols(eols), key=len):           # shortest first: the longest ends up outermost
        out = z3.If(_occ(E, lst, p, e, hi), z3.IntVal(len(e)), out)
    return Sym(out, "int")


@specfunc
def no_eol_in(E, lst, lo, up, hi, eols):
    """no mark of `eols` occurs in lst[:hi] at any position q with lo <= q < up"""
    q = z3.Int("q!ne%d" % next(E.counter))
    body = z3.Or(*[_occ(E, lst, q, e, hi) for e in _eols(eols)])
    return Sym(_all(q, z3.Implies(z3.And(q >= zint(lo), q < zint(up)), z3.Not(body)), E.larrs(lst)[0]), "bool")


@specfunc
def has_eol(E, lst, hi, eols):
    """some mark of `eols` occurs somewhere in lst[:hi]"""
    q = z3.Int("q!he%d" % next(E.counter))
    return Sym(z3.Exists([q], z3.Or(*[_occ(E, lst, q, e, hi) for e in _eols(eols)])), "bool")


@specfunc
def no_cr_lf(E, lst):
    k = z3.Int("k!nc%d" % next(E.counter))
    a = E.larrs(lst)[0] if lst.et is not None else None
    if a is None:
        return True
    return Sym(z3.ForAll([k], z3.Implies(z3.And(k >= 0, k < E.llen(lst)),
                                         z3.And(z3.Select(a, k) != CR_, z3.Select(a, k) != LF_))), "bool")


def _n_occ(lst, p, e, hi):
    hi = len(lst) if hi is None else hi
    return p >= 0 and p + len(e) <= hi and bytes(lst[p:p + len(e)]) == bytes(e)


def _n_first(lst, lo, up, hi, eols):
    """first position q in [lo, up) at which some mark occurs inside lst[:hi], or None"""
    hi = len(lst) if hi is None else hi
    view = bytes(lst[:hi])
    best = None
    for e in eols:
        q = view.find(bytes(e), max(lo, 0))
        if q >= 0 and q < up and (best is None or q < best):
            best = q
    return best


eol_at.native = lambda lst, p, hi, eols: any(_n_occ(lst, p, e, hi) for e in eols)
eol_len_at.native = lambda lst, p, hi, eols: max([len(e) for e in eols if _n_occ(lst, p, e, hi)] or [0])
no_eol_in.native = lambda lst, lo, up, hi, eols: _n_first(lst, lo, up, hi, eols) is None
has_eol.native = lambda lst, hi, eols: _n_first(lst, 0, len(lst) if hi is None else hi, hi, eols) is not None
no_cr_lf.native = lambda lst: not any(b in (CR_, LF_) for b in lst)


def ref_line(buf, eols, hi=None):
    """executable reference of the statement for one line: (line, consumed) or None when no mark is in buf[:hi]"""
    hi = len(buf) if hi is None else hi
    p = _n_first(buf, 0, hi, hi, eols)
    if p is None:
        return None
    return bytes(buf[:p]), p + max(len(e) for e in eols if _n_occ(buf, p, e, hi))


# ------------------------------------------------------------------------------------------ library externals
@external("list.find")
def _ba_find(E, args, kw):
    """bytearray.find(needle) for a concrete non-empty needle: pointwise first-occurrence characterisation"""
    lv, needle = args[0], args[1]
    if lv.et is None or lv.et.kind != "int" or not isinstance(needle, (bytes, bytearray)) or len(needle) == 0 \
            or len(args) != 2 or kw:
        raise Unsupported("find on %r with needle %r" % (lv, needle))
    needle = bytes(needle)
    r = E.fresh("find", z3.IntSort())
    q = E.fresh("qf", z3.IntSort())
    n = E.llen(lv)
    arr = E.larrs(lv)[0]
    none = _all(q, z3.Not(_occ(E, lv, q, needle, None)), arr)
    first = z3.And(r >= 0, r <= n - len(needle), _occ(E, lv, r, needle, None),
                   _all(q, z3.Implies(z3.And(q >= 0, q < r), z3.Not(_occ(E, lv, q, needle, None))), arr))
    E.assume(z3.Or(z3.And(r == -1, none), first))
    return Sym(r, "int")


REG.assume_note("bytearray.find(needle) (concrete needle): returns -1 and the needle occurs at no position, or "
                "0 <= r <= len - len(needle), the needle occurs at r and at no position < r (pointwise "
                "first-occurrence characterisation); slices copy; del raw[:k] removes the first k bytes")
REG.assume_note("generators (step extraction): between two steps the environment only appends bytes to the shared "
                "bytearray; the generator protocol (send values, StopIteration), GeneratorExit/close() and the "
                "trailing `return` are dropped; a step = one pass through the `while True:` body from the top")


_GHOST_ID = 1000000


def _snap(name="raw", ghost="raw0", via=None):
    """ghost snapshot of a buffer at the start of the step: a pre-state list object the code cannot reach (distinct
    from the buffer; fresh objects have negative ids), with the buffer's length and contents.  No heap write is
    needed, which keeps the terms small."""
    def setup(E):
        lv = via(E) if via else E.frame.env[name]
        g = z3.IntVal(_GHOST_ID)            # a pre-state object of its own (no parameter is pinned to this id)
        E.assume(g != lv.t)
        gl = ListV(g, lv.et)
        E.assume(E.llen(gl) == E.llen(lv))
        for x, y in zip(E.larrs(gl), E.larrs(lv)):
            E.assume(x == y)
        E.frame.env[ghost] = gl
    return setup


# ------------------------------------------------------------------------------------------ native harness
ALPHABET = b"a: \r\n"


def rand_bytes(rng, lo=0, hi=12, alphabet=ALPHABET):
    return bytes(rng.choice(alphabet) for _ in range(rng.randint(lo, hi)))


def _cex_list(cex, name):
    try:
        v = cex["params"][name]
        if isinstance(v, dict) and isinstance(v.get("len"), int) and len(v.get("items", [])) == v["len"]:
            return bytes(int(x) & 255 for x in v["items"])
    except Exception:
        pass
    return None


def _mk_line(eols_pool, with_n0=False, big=True):
    def make(rng, i, cex, nr):
        eols = rng.choice(eols_pool)
        dflt = nr.params.get("eols")
        if isinstance(dflt, tuple) and dflt and dflt[0] == "const":
            eols = dflt[1]
        buf = _cex_list(cex, "raw") if cex else None
        if buf is None:
            buf = rand_bytes(rng)
            if big and i % 97 == 96:        # the LineTooLong paths
                buf = b"a" * (nr.mod.MAX_LINE_SIZE + rng.randint(0, 2)) + rand_bytes(rng, 0, 3)
        env = {"raw": bytearray(buf), "raw0": bytes(buf), "eols": eols}
        if with_n0:
            n0 = None
            if cex:
                n0 = cex.get("params", {}).get("n0")
            if not isinstance(n0, int) or not (0 <= n0 <= len(buf)):
                n0 = rng.randint(0, len(buf))
            env["n0"] = n0
        return env
    return make


def _call_line(env, nr):
    g = nr.fn(env["raw"], eols=env["eols"])
    return next(g)


def _view(env, nr):
    return {"MAX_LINE_SIZE": nr.mod.MAX_LINE_SIZE, "CRLF": nr.mod.CRLF, "LF": nr.mod.LF, "CR": nr.mod.CR}


# ------------------------------------------------------------------------------------------ parseLine
HI = "len(raw0)"
LINE_ENSURES = [
    # no mark anywhere: nothing is consumed and None is yielded (waiting is harmless: the next step re-examines
    # raw ++ extra from the start)
    "implies(result is None, no_eol_in(raw0, 0, len(raw0), len(raw0), eols) and seq_eq(raw, raw0) "
    "and len(raw0) <= MAX_LINE_SIZE)",
    # a line is yielded: it is what precedes the EARLIEST mark ...
    "implies(result is not None, eol_at(raw0, len(result), len(raw0), eols) and len(result) <= MAX_LINE_SIZE)",
    "implies(result is not None, no_eol_in(raw0, 0, len(result), len(raw0), eols))",
    "implies(result is not None, is_slice(result, raw0, 0, len(result)))",
    "implies(result is not None, fresh(result) and result is not raw)",
    # ... and exactly the line and the LONGEST mark at that position are consumed
    "implies(result is not None, "
    "is_slice(raw, raw0, len(result) + eol_len_at(raw0, len(result), len(raw0), eols), len(raw0)))",
    # hence, for event streams (marks CRLF, LF, CR): a line contains neither CR nor LF
    "implies(result is not None and CR in eols and LF in eols, no_cr_lf(result))",
    "implies(has_eol(raw0, len(raw0), eols), result is not None)",
]
LINE_RAISES = {"LineTooLong": ["seq_eq(raw, raw0)", "len(raw0) > MAX_LINE_SIZE",
                               "no_eol_in(raw0, 0, MAX_LINE_SIZE + 1, len(raw0), eols)"]}
EOLS_POOL = [(b"\r\n", b"\n", b"\r")]

contract(F, "parseLine", "C33,C29", tags=("step2", "emits", "logic=AUFLIA"), params=dict(raw=BA), setup=_snap(),
         cases=[{}, {"eols": ("const", (b"\r\n", b"\n"))}, {"eols": ("const", (b"\r\n",))}],
         modifies=["raw[*]"], ensures=LINE_ENSURES, raises=LINE_RAISES, returns=Opt(BA),
         replay=dict(make=_mk_line(EOLS_POOL), call=_call_line, view=_view, count=400),
         note="one step of parseLine for the mark sets (CRLF, LF, CR) [events], (CRLF, LF) [leader], (CRLF,) [chunk "
              "size line]; the step always emits (tag emits), so next(lineParser) is one application of this contract")

# split independence (prefix stability): n0 = number of bytes that had arrived at an earlier step.  If raw0[:n0]
# already contained a mark, the step on the whole buffer yields the line and consumes the bytes that the statement
# prescribes for raw0[:n0] alone - whatever follows.
STABLE = "has_eol(raw0, n0, eols)"
contract(F, "parseLine", "C33,C29", tags=("step2", "logic=AUFLIA"), params=dict(raw=BA, n0=INT), setup=_snap(),
         cases=[{}, {"eols": ("const", (b"\r\n", b"\n"))}, {"eols": ("const", (b"\r\n",))}],
         requires=["0 <= n0 and n0 <= len(raw)"], modifies=["raw[*]"],
         ensures=[
             "implies(%s, result is not None)" % STABLE,
             "implies(%s and result is not None, len(result) < n0 and eol_at(raw0, len(result), n0, eols) and "
             "no_eol_in(raw0, 0, len(result), n0, eols))" % STABLE,
             "implies(%s and result is not None, "
             "len(raw0) - len(raw) == len(result) + eol_len_at(raw0, len(result), n0, eols))" % STABLE,
         ],
         raises={"LineTooLong": ["implies(%s, no_eol_in(raw0, 0, MAX_LINE_SIZE + 1, n0, eols))" % STABLE]},
         findings={"cr-lf-split": "1 <= n0 and n0 < len(raw) and raw[n0 - 1] == 13 and raw[n0] == 10 and CR in eols "
                                  "and no_eol_in(raw, 0, n0 - 1, n0, eols)"},
         returns=Opt(BA),
         replay=dict(make=_mk_line(EOLS_POOL, with_n0=True, big=False), call=_call_line, view=_view, count=600),
         note="prefix-stability lemma as a contract on the code; region cr-lf-split = the buffer ended with a CR "
              "that was its earliest mark and the next receive starts with LF")


# ========================================================================================== ghost positions
def _first(E, name, lo, hi, pred, arr):
    """definitional ghost (least-number principle, always satisfiable): the first q in [lo, hi) with pred(q), else hi"""
    p = E.fresh(name, z3.IntSort())
    q = E.fresh("q" + name, z3.IntSort())
    E.assume(z3.And(p >= lo, p <= hi))
    E.assume(z3.Implies(p < hi, pred(p)))
    E.assume(_all(q, z3.Implies(z3.And(q >= lo, q < p), z3.Not(pred(q))), arr))
    return p


OWS = (32, 9)            # optional whitespace of a header field value: SP / HTAB (RFC 7230 3.2)


def _line_ghosts(colon=True, buf=None):
    """setup: raw0 (snapshot) and the ghost positions of the FIRST line of raw0 as the statement defines it:
    pstar = position of the earliest mark (len(raw0) if there is none); cpos = position of the first ':' of the line
    (pstar if none); vs = first position after the colon that is not optional whitespace (pstar if none)"""
    snap = _snap(via=buf)

    def setup(E):
        snap(E)
        env = E.frame.env
        raw0, eols = env["raw0"], _eols(env["eols"]) if "eols" in env else EOLS_POOL[0]
        n = E.llen(raw0)
        a = E.larrs(raw0)[0]
        E.assume(n >= 0)
        ps = _first(E, "pstar", z3.IntVal(0), n, lambda q: z3.Or(*[_occ(E, raw0, q, e, None) for e in eols]), a)
        env["pstar"] = Sym(ps, "int")
        if colon:
            cp = _first(E, "cpos", z3.IntVal(0), ps, lambda q: z3.Select(a, q) == 58, a)
            env["cpos"] = Sym(cp, "int")
            lo = z3.If(cp + 1 < ps, cp + 1, ps)
            vs = _first(E, "vs", lo, ps, lambda q: z3.And(*[z3.Select(a, q) != w for w in OWS]), a)
            env["vs"] = Sym(vs, "int")
    return setup


def n_positions(buf, eols):
    """native twin of the ghost positions"""
    r = ref_line(buf, eols)
    ps = len(buf) if r is None else len(r[0])
    line = bytes(buf[:ps])
    cp = line.find(b":")
    cp = ps if cp < 0 else cp
    vs = min(cp + 1, ps)
    while vs < ps and line[vs] in OWS:
        vs += 1
    return {"pstar": ps, "cpos": cp, "vs": vs}


REG.assume_note("ghost positions pstar / cpos / vs (first mark, first colon, first non-blank after the colon of the "
                "first line) are introduced by their defining property (least-number principle); no other fact")


# ========================================================================================== byte/str list externals
def _ints(x):
    if isinstance(x, (bytes, bytearray)):
        return list(x)
    if isinstance(x, str) and all(ord(c) < 256 for c in x):
        return [ord(c) for c in x]
    raise Unsupported("separator %r" % (x,))


def _sub(E, lv, a, b, kind=None):
    """new list lv[a:b]; its array is a NAMED array with the defining axiom (trigger: a read of the new array), so
    that quantified facts about the new list chain to the facts about the source by e-matching"""
    src = E.larrs(lv)[0]
    if _os.environ.get("C33_SUB") == "lambda":
        return E.new_list(lv.et, b - a, [z3.Lambda([B.KLAM], z3.Select(src, B.KLAM + a))], kind=kind or lv.kind)
    arr = E.fresh("sub", src.sort())
    k = E.fresh("ksub", z3.IntSort())
    E.assume(z3.ForAll([k], z3.Select(arr, k) == z3.simplify(z3.Select(src, k + a)), patterns=[z3.Select(arr, k)]))
    # the same axiom re-indexed, triggered by a read of the SOURCE: positions the specification names in the source
    # (ghost positions) become positions of the new list, so that the facts about the new list fire there too
    back = z3.simplify(z3.Select(src, k))
    if z3.is_app_of(back, z3.Z3_OP_SELECT):
        try:
            E.assume(z3.ForAll([k], back == z3.Select(arr, k - a), patterns=[back]))
        except z3.Z3Exception:
            pass
    return E.new_list(lv.et, b - a, [arr], kind=kind or lv.kind)


def _first_sep(E, lv, sep):
    """branches on the presence of the concrete separator; returns its first position or None"""
    n = E.llen(lv)
    q = E.fresh("qs", z3.IntSort())
    occ = lambda t: _occ(E, lv, t, bytes(sep), None)
    arr = E.larrs(lv)[0]
    # demonic two-way choice instead of a decided branch: deciding `exists q. occ(q)` under the quantified facts of
    # the path costs a solver time-out per branch; an impossible side only yields a path with a contradictory
    # condition (dropped at the next decided branch, or caught by the canary)
    if E.choose(2) == 0:
        E.assume(_all(q, z3.Not(occ(q)), arr))
        return None
    p = _first(E, "sep", z3.IntVal(0), n, occ, arr)
    E.assume(p < n)
    return p


@external("list.partition")
def _l_partition(E, args, kw):
    lv, sep = args[0], _ints(args[1])
    n = E.llen(lv)
    p = _first_sep(E, lv, sep)
    if p is None:
        return (_sub(E, lv, z3.IntVal(0), n), E.new_list(lv.et, 0, kind=lv.kind), E.new_list(lv.et, 0, kind=lv.kind))
    E.assume(p < n)
    return (_sub(E, lv, z3.IntVal(0), p), _sub(E, lv, p, p + len(sep)), _sub(E, lv, p + len(sep), n))


@external("list.split")
def _l_split(E, args, kw):
    """x.split(sep, 1) for a concrete separator: [x] when sep does not occur, else [before, after] of the first one"""
    lv, sep = args[0], _ints(args[1])
    if len(args) != 3 or args[2] != 1 or kw:
        raise Unsupported("split other than split(sep, 1)")
    n = E.llen(lv)
    p = _first_sep(E, lv, sep)
    if p is None:
        return E.list_from_values([_sub(E, lv, z3.IntVal(0), n)], et=List(lv.et))
    E.assume(p < n)
    return E.list_from_values([_sub(E, lv, z3.IntVal(0), p), _sub(E, lv, p + len(sep), n)], et=List(lv.et))


PY_STR_WS = (9, 10, 11, 12, 13, 28, 29, 30, 31, 32, 133, 160)     # str.strip() on a latin-1 decoded text
PY_BYTES_WS = (9, 10, 11, 12, 13, 32)                             # bytes.strip()


@external("list.strip")
def _l_strip(E, args, kw):
    """x.strip([chars]): the slice between the first and the last character outside the stripped set"""
    lv = args[0]
    if len(args) > 1 and args[1] is not None:
        ws = tuple(_ints(args[1]))
    else:
        ws = PY_STR_WS if lv.kind == "latin1" else PY_BYTES_WS
    n = E.llen(lv)
    a = E.larrs(lv)[0]
    keep = lambda t: z3.And(*[z3.Select(a, t) != w for w in ws])
    lo = _first(E, "strip_lo", z3.IntVal(0), n, keep, a)
    # hi = one past the last kept character (lo when nothing is kept)
    hi = E.fresh("strip_hi", z3.IntSort())
    q = E.fresh("qh", z3.IntSort())
    E.assume(z3.And(hi >= lo, hi <= n))
    E.assume(z3.Implies(hi > lo, keep(hi - 1)))
    E.assume(z3.Implies(lo < n, hi > lo))
    E.assume(_all(q, z3.Implies(z3.And(q >= hi, q < n), z3.Not(keep(q))), a))
    return _sub(E, lv, lo, hi)


@external("list.decode")
def _l_decode(E, args, kw):
    lv = args[0]
    codec = (args[1] if len(args) > 1 else kw.get("encoding", "utf-8"))
    if not isinstance(codec, str):
        raise Unsupported("decode with symbolic codec")
    codec = codec.lower().replace("_", "-")
    if codec in ("iso-8859-1", "latin-1", "latin1"):
        # latin-1: character k of the text is the code point raw[k] - the text IS the same sequence of ints
        return _sub(E, lv, z3.IntVal(0), E.llen(lv), kind="latin1")
    if codec in ("utf-8", "utf8"):
        return _utf8_decode(E, lv)
    raise Unsupported("decode(%r)" % codec)


REG.assume_note("bytearray/str methods on int-list modelled texts: partition(sep), split(sep, 1) (first occurrence of "
                "a concrete separator, pointwise), strip([chars]) (Python's whitespace sets for str / bytes), "
                "decode('iso-8859-1') = the same sequence of code points (never raises)")


# ========================================================================================== lodict (header table)
classdecl("lodict", file=None, fields=dict(log_k=List(BA), log_v=List(BA), n=INT))


@hook("lodict", "ctor")
def _lod_ctor(E, cv, args, kwargs):
    if args or kwargs:
        raise Unsupported("lodict(...) with arguments")
    o = RefV(E.new_ref(), "lodict", nn=True)
    E.wr_field(o, "log_k", E.new_list(BA, 0))
    E.wr_field(o, "log_v", E.new_list(BA, 0))
    E.wr_field(o, "n", 0)
    return o


@hook("lodict", "setitem")
def _lod_set(E, o, key, val):
    if not (isinstance(key, ListV) and isinstance(val, ListV)):
        raise Unsupported("lodict[%r] = %r" % (key, val))
    B.list_method(E, E.rd_field(o, "log_k"), "append", [key], {})
    B.list_method(E, E.rd_field(o, "log_v"), "append", [val], {})
    n = zint(E.rd_field(o, "n"))
    n2 = E.fresh("lod_n", z3.IntSort())
    E.assume(z3.And(n2 >= n, n2 <= n + 1))       # a new (lower-cased) key or an overwrite
    E.wr_field(o, "n", Sym(n2, "int"))


@hook("lodict", "len")
def _lod_len(E, o):
    return E.rd_field(o, "n")


REG.assume_note("lodict (lower-casing ordered dict, ioflo/aid/odicting.py) is NOT verified here: headers[k] = v is "
                "modelled as appending (k, v) to a ghost log of set operations and len(headers) as a counter that "
                "grows by 0 or 1 per set; lodict() creates an empty one")


@specfunc
def hdr_count(E, h):
    return Sym(E.llen(E.rd_field(h, "log_k")), "int")


@specfunc
def hdr_size(E, h):
    return E.rd_field(h, "n")


@specfunc
def hdr_last_is(E, h, buf, k0, k1, v0, v1):
    """the last header set has key == buf[k0:k1] and a value that is buf[v0:v1] with trailing optional whitespace
    (SP / HTAB) kept or dropped: value == buf[v0:v0+len(value)], v0 + len(value) <= v1, rest all SP / HTAB"""
    lk, lvv = E.rd_field(h, "log_k"), E.rd_field(h, "log_v")
    m = E.llen(lk)
    key = E.lget(lk, m - 1)
    val = E.lget(lvv, m - 1)
    k0, k1, v0, v1 = zint(k0), zint(k1), zint(v0), zint(v1)
    a = E.larrs(buf)[0]
    ka, va = E.larrs(key)[0], E.larrs(val)[0]
    j = z3.Int("j!hl%d" % next(E.counter))
    nk, nv = E.llen(key), E.llen(val)
    return Sym(z3.And(m >= 1, E.llen(lvv) == m, nk == k1 - k0,
                      z3.ForAll([j], z3.Implies(z3.And(j >= 0, j < nk), z3.Select(ka, j) == z3.Select(a, k0 + j))),
                      nv >= 0, v0 + nv <= v1,
                      z3.ForAll([j], z3.Implies(z3.And(j >= 0, j < nv), z3.Select(va, j) == z3.Select(a, v0 + j))),
                      z3.ForAll([j], z3.Implies(z3.And(j >= v0 + nv, j < v1),
                                                z3.Or(*[z3.Select(a, j) == w for w in OWS])))), "bool")


def _n_hdr_last_is(h, buf, k0, k1, v0, v1):
    if not h.last:
        return False
    key, val = h.last
    key, val = key.encode("latin-1"), val.encode("latin-1")
    buf = bytes(buf)
    return key == buf[k0:k1] and v0 + len(val) <= max(v1, v0) and buf[v0:v0 + len(val)] == val and \
        all(b in OWS for b in buf[v0 + len(val):v1])


hdr_count.native = lambda h: h.sets
hdr_size.native = lambda h: len(h)
hdr_last_is.native = _n_hdr_last_is


# ========================================================================================== parseLeader
def _pin(**ids):
    """setup: the reference values of the named parameter objects are fixed to distinct concrete positive ids
    (without loss of generality: no code depends on an id, and the pinned parameters are objects of different Python
    types or are stated distinct).  Heap reads through a concrete id simplify syntactically, which keeps the
    obligations small; the symbolic parameter constant is kept equal to the id for counterexample extraction."""
    def setup(E):
        for nm, c in ids.items():
            v = E.frame.env.get(nm)
            if isinstance(v, ListV) and not z3.is_int_value(v.t):
                E.assume(v.t == c)
                E.frame.env[nm] = ListV(z3.IntVal(c), v.et, nn=v.nn, kind=v.kind)
            elif isinstance(v, RefV) and not z3.is_int_value(v.t):
                E.assume(v.t == c)
                E.frame.env[nm] = RefV(z3.IntVal(c), v.cls, nn=v.nn)
    return setup


def _bytearray_kind(*names):
    def setup(E):
        for nm in names:
            v = E.frame.env.get(nm)
            if isinstance(v, ListV):
                v.kind = "bytearray"
    return setup


def _seq(*fs):
    def setup(E):
        for f in fs:
            f(E)
    return setup


class OnePass(bytearray):
    """native double of the receive buffer that shows the generator ONE consuming pass: after the first deletion
    (a line was consumed) find() reports no further mark, as if the rest had not arrived yet - the next pass then
    waits (yields None, consumes nothing), so next() on the real generator == one pass of the step contract"""
    consumed = False

    def __delitem__(self, k):
        self.consumed = True
        return bytearray.__delitem__(self, k)

    def find(self, *a):
        if self.consumed:
            return -1
        return bytearray.find(self, *a)


def _mk_lodict_double(mod):
    base = mod.lodict

    class LodictD(base):
        sets = 0
        last = None

        def __setitem__(self, key, val):
            self.sets += 1
            self.last = (key, val)
            return base.__setitem__(self, key, val)
    return LodictD


HEADER_SAMPLES = [b"Key: value", b"Key:value", b"Key:  value", b"Key: value ", b"K:", b"K: ", b"a:b:c", b"novalue",
                  b"Content-Length: 10", b"X:\tv"]


def _mk_leader(rng, i, cex, nr):
    eols = (b"\r\n", b"\n")
    buf = _cex_list(cex, "raw") if cex else None
    if buf is None:
        r = rng.random()
        if r < 0.45:
            buf = rng.choice(HEADER_SAMPLES) + rng.choice([b"\r\n", b"\n", b"", b"\r"]) + rand_bytes(rng, 0, 6)
        elif r < 0.6:
            buf = rng.choice([b"\r\n", b"\n"]) + rand_bytes(rng, 0, 6)
        else:
            buf = rand_bytes(rng)
    hd = _mk_lodict_double(nr.mod)()
    for _ in range(rng.randint(0, 2)):
        hd["K%d" % rng.randint(0, 3)] = "v"
    if i % 53 == 52:
        for j in range(nr.mod.MAX_HEADERS + 1):
            hd["h%d" % j] = "v"
    env = {"raw": OnePass(buf), "raw0": bytes(buf), "eols": eols, "headers": hd}
    env.update(n_positions(buf, eols))
    return env


def _call_leader(env, nr):
    g = nr.fn(env["raw"], eols=env["eols"], headers=env["headers"])
    return next(g)


def _view_leader(env, nr):
    d = _view(env, nr)
    d["MAX_HEADERS"] = nr.mod.MAX_HEADERS
    return d


# the ghost logs of the header table are objects of their own (they exist only in the proof)
LOG_DISTINCT = ("headers.log_k is not raw and headers.log_v is not raw and headers.log_k is not headers.log_v and "
                "headers.log_k is not raw0 and headers.log_v is not raw0")
HAS = "pstar < len(raw0)"
SAMEH = "hdr_count(headers) == old(hdr_count(headers))"
CONSUMED = "is_slice(raw, raw0, pstar + eol_len_at(raw0, pstar, len(raw0), eols), len(raw0))"
LEADER_ENSURES = [
    # no mark: wait, nothing consumed, no header touched
    "implies(not %s, result is None and seq_eq(raw, raw0) and %s and len(raw0) <= MAX_LINE_SIZE)" % (HAS, SAMEH),
    "implies(not %s, step_emit and not step_exit)" % HAS,
    # a line: exactly the line and its (longest, earliest) mark are consumed
    "implies(%s, %s and pstar <= MAX_LINE_SIZE)" % (HAS, CONSUMED),
    # empty line: the leader is complete, the header table is yielded
    "implies(%s and pstar == 0, result is headers and %s)" % (HAS, SAMEH),
    "implies(%s and pstar == 0, step_emit and not step_exit)" % HAS,
    # header line `key: value` / `key:value`: one header is set, key = text before the first colon, value = text
    # after it without the optional leading whitespace (trailing optional whitespace kept or dropped)
    # (a line without any colon is malformed: outside the statement; ValueError is then allowed, C32's subject)
    "implies(%s and pstar > 0 and cpos < pstar, result is None and "
    "hdr_count(headers) == old(hdr_count(headers)) + 1 and hdr_last_is(headers, raw0, 0, cpos, vs, pstar))" % HAS,
    "implies(%s and pstar > 0, not step_emit and not step_exit)" % HAS,
]
LEADER_RAISES = dict(LINE_RAISES)
LEADER_RAISES["ValueError"] = ["%s and pstar > 0 and cpos == pstar" % HAS]       # malformed: no colon at all (C32)
LEADER_RAISES["HTTPException"] = ["hdr_size(headers) > MAX_HEADERS"]

def _pin_logs(E):
    h = E.frame.env["headers"]
    for attr, c in (("log_k", 1000003), ("log_v", 1000004)):
        lv = E.rd_field(h, attr)
        E.assume(lv.t == c)
        E.wr_field(h, attr, ListV(z3.IntVal(c), lv.et))


def _cut_line(E):
    """proof cut after `line = raw[:index]`: the code's index is the ghost position pstar and its eol is the longest
    mark there - proved here (small context), then available to the obligations that follow the header parsing"""
    g = E.spec_eval("index == pstar and len(eol) == eol_len_at(raw0, pstar, len(raw0), eols)")
    E.oblige("cut", g, "line selection: index == pstar and len(eol) == eol_len_at(raw0, pstar, len(raw0), eols)")


contract(F, "parseLeader", "C29", tags=("step2", "logic=AUFLIA"), ghost={"after": {"line = raw[:index]": _cut_line}},
         params=dict(raw=BA, headers=Ref("lodict")),
         setup=_seq(_pin(raw=1000001, headers=1000002), _line_ghosts(), _bytearray_kind("raw"), _pin_logs),
         assumes=[LOG_DISTINCT],
         modifies=["raw[*]", "headers.log_k[*]", "headers.log_v[*]", "headers.n"],
         ensures=LEADER_ENSURES, raises=LEADER_RAISES,
         replay=dict(make=_mk_leader, call=_call_leader, view=_view_leader, count=500),
         note="one pass of parseLeader for the marks (CRLF, LF); `headers` is the step state (created by the "
              "prologue); a header line does not emit: the next pass follows at once")

contract(F, "parseLeader", "C29", tags=("step2-init",), params=dict(raw=BA, headers=Opt(Ref("lodict"))),
         modifies=[], ensures=["implies(headers is not None, L_headers is headers)",
                               "implies(headers is None, fresh(L_headers) and hdr_count(L_headers) == 0 and "
                               "hdr_size(L_headers) == 0)"],
         note="prologue of parseLeader: the header table passed in, or a new empty lodict")


# ========================================================================================== parseBom
@specfunc
def starts_with(E, lst, pre):
    pre = bytes(pre)
    a = E.larrs(lst)[0]
    return Sym(z3.And(E.llen(lst) >= len(pre), *[z3.Select(a, j) == pre[j] for j in range(len(pre))]), "bool")


starts_with.native = lambda lst, pre: bytes(lst[:len(pre)]) == bytes(pre)


def _mk_bom(rng, i, cex, nr):
    buf = _cex_list(cex, "raw") if cex else None
    if buf is None:
        bom = nr.mod.codecs.BOM_UTF8
        buf = rng.choice([b"", bom[:1], bom[:2], bom, bom[:2] + b"a", b"a" + bom]) + rand_bytes(rng, 0, 4)
    return {"raw": bytearray(buf), "raw0": bytes(buf), "bom": nr.mod.codecs.BOM_UTF8, "size": 3}


def _call_bom(env, nr):
    return next(nr.fn(env["raw"], bom=env["bom"]))


contract(F, "parseBom", "C33", tags=("step2", "logic=AUFLIA"), params=dict(raw=BA, size=INT),
         setup=_seq(_snap(), _bytearray_kind("raw")), requires=["size == len(bom)"], modifies=["raw[*]"],
         ensures=[
             "implies(len(raw0) < len(bom), result is None and seq_eq(raw, raw0))",
             "implies(len(raw0) < len(bom), step_emit and not step_exit)",
             "implies(len(raw0) >= len(bom) and starts_with(raw0, bom), "
             "result == bom and is_slice(raw, raw0, len(bom), len(raw0)))",
             "implies(len(raw0) >= len(bom) and not starts_with(raw0, bom), "
             "result is not None and len(result) == 0 and seq_eq(raw, raw0))",
             "implies(len(raw0) >= len(bom), step_emit and step_exit)",
         ],
         replay=dict(make=_mk_bom, call=_call_bom, count=200),
         note="one pass of parseBom for bom = codecs.BOM_UTF8 (the default, the only value used); `size` is the "
              "step state set by the prologue; the decision is taken on the first len(bom) bytes only, once they "
              "are there (hence the same for every split)")
contract(F, "parseBom", "C33", tags=("step2-init",), params=dict(raw=BA), modifies=[],
         ensures=["L_size == len(bom)"], note="prologue of parseBom")
