"""C33 (server-sent events parse the same for any split and line ending) and the line level of C29:
the generators parseLine, parseLeader, parseBom, EventSource.parseEvents and packChunk of
ioflo/aio/http/httping.py.

Generators are verified through the mechanical step extraction `pyvc.builtins_.extract_step2` (tag "step2"):
ONE pass through the `while True:` body from the top, `(yield e)` = "emit e, suspend".  Between two steps the
environment may append arbitrary bytes to the shared bytearray (raw := raw ++ extra); nothing else of the state
is touched (assumption, listed).  Dropped by the extraction: the generator object protocol (send values,
StopIteration plumbing), GeneratorExit / close() (no yield is enclosed by try/with: checked), and the trailing
`return` that only ends the generator.  The statements before the loop are verified by "step2-init" contracts.

Buffers are bytearrays = List(INT), argued POINTWISE (length + array), never as SMT sequences.  `raw0` is a ghost
snapshot of the buffer at the start of the step (made by `setup`), so that every clause is also executable
natively (the harness stores a copy of the buffer under the same name).

The post-conditions come from the property statement: the line yielded is what precedes the EARLIEST end-of-line
mark (the longest mark at that position), exactly line + mark is consumed, nothing is consumed while no mark is
there; split independence = the same line and the same consumption on every extension of the buffer.

Proof engineering (measured, see the engine guide): (a) parameter objects are pinned to concrete ids (`_pin`) - a
symbolic reference leaves every heap read as an ite over the allocation ids and defeats e-matching; (b) every
quantified hypothesis carries the explicit trigger arr[q] (`_all`), sub-lists made by the externals get named arrays
with the defining axiom in both directions (`_sub`); (c) the ghost positions pstar / cpos / vs of the first line are
introduced by their defining property (`_first`); (d) proof cuts after the line selection restate the facts on the
ghost positions; (e) tag "logic=AUFLIA": e-matching proves, z3's AUFLIA strategy finds the counter-models, every
counter-model is replayed natively.  Not covered here: parseChunk (sequential phases), parseEventStream, the
Requestant / Respondent message level.
"""
from pyvc.api import *
from pyvc import builtins_ as B
from pyvc.engine import PyRaise
from contracts.lib import *
import ast
import z3

F = "ioflo/aio/http/httping.py"
BA = List(INT)            # bytearray
CR_, LF_ = 13, 10


# ------------------------------------------------------------------------------------------ specification
def _n(E, lst, hi):
    return E.llen(lst) if hi is None else zint(hi)


def _occ(E, lst, p, e, hi):
    """z3: the concrete byte string e occurs at position p of lst[:hi]"""
    a = E.larrs(lst)[0]
    return z3.And(p >= 0, p + len(e) <= _n(E, lst, hi),
                  *[z3.Select(a, (p + j) if j else p) == e[j] for j in range(len(e))])


def _all(q, body, arr):
    """ForAll with the explicit trigger arr[q]: instantiated at every position the path reads (the automatically
    chosen triggers arr[q + 1] are not matched by e-matching)"""
    pat = z3.simplify(z3.Select(arr, q))          # beta-reduces a slice's lambda array
    try:
        if z3.is_app_of(pat, z3.Z3_OP_SELECT):
            return z3.ForAll([q], body, patterns=[pat])
    except z3.Z3Exception:
        pass
    return z3.ForAll([q], body)


def _eols(eols):
    out = tuple(bytes(e) for e in eols)
    if not out or any(len(e) == 0 for e in out):
        raise Unsupported("eols must be a non-empty tuple of non-empty concrete byte strings")
    return out


@specfunc
def eol_at(E, lst, p, hi, eols):
    """some end-of-line mark of `eols` occurs at position p of lst[:hi]"""
    p = zint(p)
    return Sym(z3.Or(*[_occ(E, lst, p, e, hi) for e in _eols(eols)]), "bool")


@specfunc
def eol_len_at(E, lst, p, hi, eols):
    """length of the LONGEST mark of `eols` occurring at position p of lst[:hi] (0 if none)"""
    p = zint(p)
    out = z3.IntVal(0)
    for e in sorted(_eols(eols), key=len):           # shortest first: the longest ends up outermost
        out = z3.If(_occ(E, lst, p, e, hi), z3.IntVal(len(e)), out)
    return Sym(out, "int")


@specfunc
def no_eol_in(E, lst, lo, up, hi, eols):
    """no mark of `eols` occurs in lst[:hi] at any position q with lo <= q < up"""
    q = z3.Int("q!ne%d" % next(E.counter))
    body = z3.Or(*[_occ(E, lst, q, e, hi) for e in _eols(eols)])
    return Sym(_all(q, z3.Implies(z3.And(q >= zint(lo), q < zint(up)), z3.Not(body)), E.larrs(lst)[0]), "bool")


@specfunc
def has_eol(E, lst, hi, eols):
    """some mark of `eols` occurs somewhere in lst[:hi]"""
    q = z3.Int("q!he%d" % next(E.counter))
    return Sym(z3.Exists([q], z3.Or(*[_occ(E, lst, q, e, hi) for e in _eols(eols)])), "bool")


@specfunc
def no_cr_lf(E, lst):
    k = z3.Int("k!nc%d" % next(E.counter))
    a = E.larrs(lst)[0] if lst.et is not None else None
    if a is None:
        return True
    return Sym(z3.ForAll([k], z3.Implies(z3.And(k >= 0, k < E.llen(lst)),
                                         z3.And(z3.Select(a, k) != CR_, z3.Select(a, k) != LF_))), "bool")


def _n_occ(lst, p, e, hi):
    hi = len(lst) if hi is None else hi
    return p >= 0 and p + len(e) <= hi and bytes(lst[p:p + len(e)]) == bytes(e)


def _n_first(lst, lo, up, hi, eols):
    """first position q in [lo, up) at which some mark occurs inside lst[:hi], or None"""
    hi = len(lst) if hi is None else hi
    view = bytes(lst[:hi])
    best = None
    for e in eols:
        q = view.find(bytes(e), max(lo, 0))
        if q >= 0 and q < up and (best is None or q < best):
            best = q
    return best


eol_at.native = lambda lst, p, hi, eols: any(_n_occ(lst, p, e, hi) for e in eols)
eol_len_at.native = lambda lst, p, hi, eols: max([len(e) for e in eols if _n_occ(lst, p, e, hi)] or [0])
no_eol_in.native = lambda lst, lo, up, hi, eols: _n_first(lst, lo, up, hi, eols) is None
has_eol.native = lambda lst, hi, eols: _n_first(lst, 0, len(lst) if hi is None else hi, hi, eols) is not None
no_cr_lf.native = lambda lst: not any(b in (CR_, LF_) for b in lst)


def ref_line(buf, eols, hi=None):
    """executable reference of the statement for one line: (line, consumed) or None when no mark is in buf[:hi]"""
    hi = len(buf) if hi is None else hi
    p = _n_first(buf, 0, hi, hi, eols)
    if p is None:
        return None
    return bytes(buf[:p]), p + max(len(e) for e in eols if _n_occ(buf, p, e, hi))


# ------------------------------------------------------------------------------------------ library externals
@external("list.find")
def _ba_find(E, args, kw):
    """bytearray.find(needle) for a concrete non-empty needle: pointwise first-occurrence characterisation"""
    lv, needle = args[0], args[1]
    if lv.et is None or lv.et.kind != "int" or not isinstance(needle, (bytes, bytearray)) or len(needle) == 0 \
            or len(args) != 2 or kw:
        raise Unsupported("find on %r with needle %r" % (lv, needle))
    needle = bytes(needle)
    r = E.fresh("find", z3.IntSort())
    q = E.fresh("qf", z3.IntSort())
    n = E.llen(lv)
    arr = E.larrs(lv)[0]
    none = _all(q, z3.Not(_occ(E, lv, q, needle, None)), arr)
    first = z3.And(r >= 0, r <= n - len(needle), _occ(E, lv, r, needle, None),
                   _all(q, z3.Implies(z3.And(q >= 0, q < r), z3.Not(_occ(E, lv, q, needle, None))), arr))
    E.assume(z3.Or(z3.And(r == -1, none), first))
    return Sym(r, "int")


REG.assume_note("bytearray.find(needle) (concrete needle): returns -1 and the needle occurs at no position, or "
                "0 <= r <= len - len(needle), the needle occurs at r and at no position < r (pointwise "
                "first-occurrence characterisation); slices copy; del raw[:k] removes the first k bytes")
REG.assume_note("generators (step extraction): between two steps the environment only appends bytes to the shared "
                "bytearray; the generator protocol (send values, StopIteration), GeneratorExit/close() and the "
                "trailing `return` are dropped; a step = one pass through the `while True:` body from the top")


_GHOST_ID = 1000000


def _snap(name="raw", ghost="raw0", via=None, gid=None):
    """ghost snapshot of a buffer at the start of the step: a pre-state list object the code cannot reach (distinct
    from the buffer; fresh objects have negative ids), with the buffer's length and contents.  No heap write is
    needed, which keeps the terms small."""
    def setup(E):
        lv = via(E) if via else E.frame.env[name]
        gid_ = gid or _GHOST_ID
        if gid is None and len(E.frames) > 1 and getattr(E, "snap_ctr", None) is not None:
            # snapshot made for a MODULAR call while the caller's own snapshot must stay valid (the caller has already
            # consumed bytes): a ghost object of its own per call.  Opt-in (the calling contract's setup sets
            # E.snap_ctr); without it nothing changes
            E.snap_ctr += 1
            gid_ = 990000 - E.snap_ctr
        g = z3.IntVal(gid_)                 # a pre-state object of its own (no parameter is pinned to this id)
        E.assume(g != lv.t)
        gl = ListV(g, lv.et)
        E.assume(E.llen(gl) == E.llen(lv))
        for x, y in zip(E.larrs(gl), E.larrs(lv)):
            if z3.is_quantifier(y):
                # the buffer's array is a lambda (bytes were deleted earlier in the step): state the equality pointwise,
                # triggered from both sides (an equation between an array constant and a lambda is not propagated)
                k = E.fresh("ksnap", z3.IntSort())
                yk = z3.simplify(z3.Select(y, k))
                E.assume(z3.ForAll([k], z3.Select(x, k) == yk, patterns=[z3.Select(x, k)]))
                if z3.is_app_of(yk, z3.Z3_OP_SELECT):
                    try:
                        E.assume(z3.ForAll([k], z3.Select(x, k) == yk, patterns=[yk]))
                    except z3.Z3Exception:
                        pass
                continue
            E.assume(x == y)
        E.frame.env[ghost] = gl
    return setup


# ------------------------------------------------------------------------------------------ native harness
ALPHABET = b"a: \r\n"


def rand_bytes(rng, lo=0, hi=12, alphabet=ALPHABET):
    return bytes(rng.choice(alphabet) for _ in range(rng.randint(lo, hi)))


def _cex_list(cex, name):
    try:
        v = cex["params"][name]
        if isinstance(v, dict) and isinstance(v.get("len"), int) and len(v.get("items", [])) == v["len"]:
            return bytes(int(x) & 255 for x in v["items"])
    except Exception:
        pass
    return None


def _mk_line(eols_pool, with_n0=False, big=True):
    def make(rng, i, cex, nr):
        eols = rng.choice(eols_pool)
        dflt = nr.params.get("eols")
        if isinstance(dflt, tuple) and dflt and dflt[0] == "const":
            eols = dflt[1]
        buf = _cex_list(cex, "raw") if cex else None
        if buf is None:
            buf = rand_bytes(rng)
            if big and i % 97 == 96:        # the LineTooLong paths
                buf = b"a" * (nr.mod.MAX_LINE_SIZE + rng.randint(0, 2)) + rand_bytes(rng, 0, 3)
        env = {"raw": bytearray(buf), "raw0": bytes(buf), "eols": eols}
        if with_n0:
            n0 = None
            if cex:
                n0 = cex.get("params", {}).get("n0")
            if not isinstance(n0, int) or not (0 <= n0 <= len(buf)):
                n0 = rng.randint(0, len(buf))
            env["n0"] = n0
        return env
    return make


def _call_line(env, nr):
    g = nr.fn(env["raw"], eols=env["eols"])
    return next(g)


def _view(env, nr):
    return {"MAX_LINE_SIZE": nr.mod.MAX_LINE_SIZE, "CRLF": nr.mod.CRLF, "LF": nr.mod.LF, "CR": nr.mod.CR}


# ------------------------------------------------------------------------------------------ parseLine
HI = "len(raw0)"
LINE_ENSURES = [
    # no mark anywhere: nothing is consumed and None is yielded (waiting is harmless: the next step re-examines
    # raw ++ extra from the start)
    "implies(result is None, no_eol_in(raw0, 0, len(raw0), len(raw0), eols) and seq_eq(raw, raw0) "
    "and len(raw0) <= MAX_LINE_SIZE)",
    # a line is yielded: it is what precedes the EARLIEST mark ...
    "implies(result is not None, eol_at(raw0, len(result), len(raw0), eols) and len(result) <= MAX_LINE_SIZE)",
    "implies(result is not None, no_eol_in(raw0, 0, len(result), len(raw0), eols))",
    "implies(result is not None, is_slice(result, raw0, 0, len(result)))",
    "implies(result is not None, fresh(result) and result is not raw)",
    # ... and exactly the line and the LONGEST mark at that position are consumed
    "implies(result is not None, "
    "is_slice(raw, raw0, len(result) + eol_len_at(raw0, len(result), len(raw0), eols), len(raw0)))",
    # hence, for event streams (marks CRLF, LF, CR): a line contains neither CR nor LF
    "implies(result is not None and CR in eols and LF in eols, no_cr_lf(result))",
    "implies(has_eol(raw0, len(raw0), eols), result is not None)",
]
LINE_RAISES = {"LineTooLong": ["seq_eq(raw, raw0)", "len(raw0) > MAX_LINE_SIZE",
                               "no_eol_in(raw0, 0, MAX_LINE_SIZE + 1, len(raw0), eols)"]}
EOLS_POOL = [(b"\r\n", b"\n", b"\r")]

def _line_setup(E):
    _seq(_pin(raw=1000001), _snap(), _bytearray_kind("raw"))(E)


STABLE = "has_eol(raw0, n0, eols)"
STABLE_ENSURES = [
    "implies(%s, result is not None)" % STABLE,
    "implies(%s and result is not None, len(result) < n0 and eol_at(raw0, len(result), n0, eols) and "
    "no_eol_in(raw0, 0, len(result), n0, eols))" % STABLE,
    "implies(%s and result is not None, "
    "len(raw0) - len(raw) == len(result) + eol_len_at(raw0, len(result), n0, eols))" % STABLE,
]
STABLE_RAISES = {"LineTooLong": ["implies(%s, no_eol_in(raw0, 0, MAX_LINE_SIZE + 1, n0, eols))" % STABLE]}
CR_LF_SPLIT = ("1 <= n0 and n0 < len(raw) and raw[n0 - 1] == 13 and raw[n0] == 10 and CR in eols and "
               "no_eol_in(raw, 0, n0 - 1, n0, eols)")

for _prop, _cases, _pool, _what in (
        ("C33", None, [(b"\r\n", b"\n", b"\r")], "the event-stream marks (CRLF, LF, CR) [the default]"),
        # (also listed under C33: a C33 run verifies every variant of parseLine as a dependency of parseEvents, and
        # the native replay of a refuted obligation needs the harness registered under the property being checked)
        ("C29,C33", [{"eols": ("const", (b"\r\n", b"\n"))}, {"eols": ("const", (b"\r\n",))}], [(b"\r\n", b"\n")],
         "the marks (CRLF, LF) [leader, trailer] and (CRLF,) [chunk size line]")):
    # FIRST variant registered = the contract used modularly by next(lineParser) in parseEvents (marks = default)
    contract(F, "parseLine", _prop, tags=("step2", "emits", "logic=AUFLIA", "fresh-result"), params=dict(raw=BA),
             setup=_line_setup, cases=_cases, modifies=["raw[*]"], ensures=LINE_ENSURES, raises=LINE_RAISES,
             returns=Opt(BA), replay=dict(make=_mk_line(_pool), call=_call_line, view=_view, count=400),
             note="one step of parseLine for %s; the step always emits (tag emits), so next(lineParser) is one "
                  "application of this contract" % _what)
    # split independence (prefix stability): n0 = number of bytes that had arrived at an earlier step.  If raw0[:n0]
    # already contained a mark, the step on the whole buffer yields the line and consumes the bytes that the
    # statement prescribes for raw0[:n0] alone - whatever follows.
    contract(F, "parseLine", _prop, tags=("step2", "logic=AUFLIA"), params=dict(raw=BA, n0=INT), setup=_line_setup,
             cases=_cases, requires=["0 <= n0 and n0 <= len(raw)"], modifies=["raw[*]"],
             ensures=STABLE_ENSURES, raises=STABLE_RAISES, findings={"cr-lf-split": CR_LF_SPLIT}, returns=Opt(BA),
             replay=dict(make=_mk_line(_pool, with_n0=True, big=False), call=_call_line, view=_view, count=600),
             note="prefix-stability lemma as a contract on the code, for %s; region cr-lf-split = the buffer ended "
                  "with a CR that was its earliest mark and the next receive starts with LF" % _what)


# ========================================================================================== ghost positions
def _first(E, name, lo, hi, pred, arr):
    """definitional ghost (least-number principle, always satisfiable): the first q in [lo, hi) with pred(q), else hi"""
    p = E.fresh(name, z3.IntSort())
    q = E.fresh("q" + name, z3.IntSort())
    E.assume(z3.And(p >= lo, p <= hi))
    E.assume(z3.Implies(p < hi, pred(p)))
    E.assume(_all(q, z3.Implies(z3.And(q >= lo, q < p), z3.Not(pred(q))), arr))
    return p


OWS = (32, 9)            # optional whitespace of a header field value: SP / HTAB (RFC 7230 3.2)


def _line_ghosts(colon=True, buf=None):
    """setup: raw0 (snapshot) and the ghost positions of the FIRST line of raw0 as the statement defines it:
    pstar = position of the earliest mark (len(raw0) if there is none); cpos = position of the first ':' of the line
    (pstar if none); vs = first position after the colon that is not optional whitespace (pstar if none)"""
    snap = _snap(via=buf)

    def setup(E):
        snap(E)
        env = E.frame.env
        raw0, eols = env["raw0"], _eols(env["eols"]) if "eols" in env else EOLS_POOL[0]
        n = E.llen(raw0)
        a = E.larrs(raw0)[0]
        E.assume(n >= 0)
        ps = _first(E, "pstar", z3.IntVal(0), n, lambda q: z3.Or(*[_occ(E, raw0, q, e, None) for e in eols]), a)
        env["pstar"] = Sym(ps, "int")
        if colon:
            cp = _first(E, "cpos", z3.IntVal(0), ps, lambda q: z3.Select(a, q) == 58, a)
            env["cpos"] = Sym(cp, "int")
            lo = z3.If(cp + 1 < ps, cp + 1, ps)
            vs = _first(E, "vs", lo, ps, lambda q: z3.And(*[z3.Select(a, q) != w for w in OWS]), a)
            env["vs"] = Sym(vs, "int")
    return setup


def n_positions(buf, eols):
    """native twin of the ghost positions"""
    r = ref_line(buf, eols)
    ps = len(buf) if r is None else len(r[0])
    line = bytes(buf[:ps])
    cp = line.find(b":")
    cp = ps if cp < 0 else cp
    vs = min(cp + 1, ps)
    while vs < ps and line[vs] in OWS:
        vs += 1
    return {"pstar": ps, "cpos": cp, "vs": vs}


REG.assume_note("ghost positions pstar / cpos / vs (first mark, first colon, first non-blank after the colon of the "
                "first line) are introduced by their defining property (least-number principle); no other fact")


# ========================================================================================== byte/str list externals
def _ints(x):
    if isinstance(x, (bytes, bytearray)):
        return list(x)
    if isinstance(x, str) and all(ord(c) < 256 for c in x):
        return [ord(c) for c in x]
    raise Unsupported("separator %r" % (x,))


def _sub(E, lv, a, b, kind=None):
    """new list lv[a:b]; its array is a NAMED array with the defining axiom (trigger: a read of the new array), so
    that quantified facts about the new list chain to the facts about the source by e-matching"""
    src = E.larrs(lv)[0]
    arr = E.fresh("sub", src.sort())
    k = E.fresh("ksub", z3.IntSort())
    E.assume(z3.ForAll([k], z3.Select(arr, k) == z3.simplify(z3.Select(src, k + a)), patterns=[z3.Select(arr, k)]))
    # the same axiom re-indexed, triggered by a read of the SOURCE: positions the specification names in the source
    # (ghost positions) become positions of the new list, so that the facts about the new list fire there too
    back = z3.simplify(z3.Select(src, k))
    if z3.is_app_of(back, z3.Z3_OP_SELECT):
        try:
            E.assume(z3.ForAll([k], back == z3.Select(arr, k - a), patterns=[back]))
        except z3.Z3Exception:
            pass
    return E.new_list(lv.et, b - a, [arr], kind=kind or lv.kind)


def _first_sep(E, lv, sep):
    """branches on the presence of the concrete separator; returns its first position or None"""
    n = E.llen(lv)
    q = E.fresh("qs", z3.IntSort())
    occ = lambda t: _occ(E, lv, t, bytes(sep), None)
    arr = E.larrs(lv)[0]
    # demonic two-way choice instead of a decided branch: deciding `exists q. occ(q)` under the quantified facts of
    # the path costs a solver time-out per branch; an impossible side only yields a path with a contradictory
    # condition (dropped at the next decided branch, or caught by the canary)
    if E.choose(2) == 0:
        E.assume(_all(q, z3.Not(occ(q)), arr))
        return None
    p = _first(E, "sep", z3.IntVal(0), n, occ, arr)
    E.assume(p < n)
    return p


@external("list.partition")
def _l_partition(E, args, kw):
    lv, sep = args[0], _ints(args[1])
    n = E.llen(lv)
    p = _first_sep(E, lv, sep)
    if p is None:
        return (_sub(E, lv, z3.IntVal(0), n), E.new_list(lv.et, 0, kind=lv.kind), E.new_list(lv.et, 0, kind=lv.kind))
    E.assume(p < n)
    return (_sub(E, lv, z3.IntVal(0), p), _sub(E, lv, p, p + len(sep)), _sub(E, lv, p + len(sep), n))


@external("list.split")
def _l_split(E, args, kw):
    """x.split(sep, 1) for a concrete separator: [x] when sep does not occur, else [before, after] of the first one"""
    lv, sep = args[0], _ints(args[1])
    if len(args) != 3 or args[2] != 1 or kw:
        raise Unsupported("split other than split(sep, 1)")
    n = E.llen(lv)
    p = _first_sep(E, lv, sep)
    if p is None:
        return E.list_from_values([_sub(E, lv, z3.IntVal(0), n)], et=List(lv.et))
    E.assume(p < n)
    return E.list_from_values([_sub(E, lv, z3.IntVal(0), p), _sub(E, lv, p + len(sep), n)], et=List(lv.et))


PY_STR_WS = (9, 10, 11, 12, 13, 28, 29, 30, 31, 32, 133, 160)     # str.strip() on a latin-1 decoded text
PY_BYTES_WS = (9, 10, 11, 12, 13, 32)                             # bytes.strip()


@external("list.strip")
def _l_strip(E, args, kw):
    """x.strip([chars]): the slice between the first and the last character outside the stripped set"""
    lv = args[0]
    if len(args) > 1 and args[1] is not None:
        ws = tuple(_ints(args[1]))
    else:
        ws = PY_STR_WS if lv.kind == "latin1" else PY_BYTES_WS
    n = E.llen(lv)
    a = E.larrs(lv)[0]
    keep = lambda t: z3.And(*[z3.Select(a, t) != w for w in ws])
    lo = _first(E, "strip_lo", z3.IntVal(0), n, keep, a)
    # hi = one past the last kept character (lo when nothing is kept)
    hi = E.fresh("strip_hi", z3.IntSort())
    q = E.fresh("qh", z3.IntSort())
    E.assume(z3.And(hi >= lo, hi <= n))
    E.assume(z3.Implies(hi > lo, keep(hi - 1)))
    E.assume(z3.Implies(lo < n, hi > lo))
    E.assume(_all(q, z3.Implies(z3.And(q >= hi, q < n), z3.Not(keep(q))), a))
    return _sub(E, lv, lo, hi)


@external("list.decode")
def _l_decode(E, args, kw):
    lv = args[0]
    codec = (args[1] if len(args) > 1 else kw.get("encoding", "utf-8"))
    if not isinstance(codec, str):
        raise Unsupported("decode with symbolic codec")
    codec = codec.lower().replace("_", "-")
    if codec in ("iso-8859-1", "latin-1", "latin1"):
        # latin-1: character k of the text is the code point raw[k] - the text IS the same sequence of ints
        return _sub(E, lv, z3.IntVal(0), E.llen(lv), kind="latin1")
    if codec in ("utf-8", "utf8"):
        return _utf8_decode(E, lv)
    raise Unsupported("decode(%r)" % codec)


REG.assume_note("bytearray/str methods on int-list modelled texts: partition(sep), split(sep, 1) (first occurrence of "
                "a concrete separator, pointwise), strip([chars]) (Python's whitespace sets for str / bytes), "
                "decode('iso-8859-1') = the same sequence of code points (never raises)")


# ========================================================================================== lodict (header table)
classdecl("lodict", file=None, fields=dict(log_k=List(BA), log_v=List(BA), n=INT))


@hook("lodict", "ctor")
def _lod_ctor(E, cv, args, kwargs):
    if args or kwargs:
        raise Unsupported("lodict(...) with arguments")
    o = RefV(E.new_ref(), "lodict", nn=True)
    E.wr_field(o, "log_k", E.new_list(BA, 0))
    E.wr_field(o, "log_v", E.new_list(BA, 0))
    E.wr_field(o, "n", 0)
    return o


@hook("lodict", "setitem")
def _lod_set(E, o, key, val):
    if not (isinstance(key, ListV) and isinstance(val, ListV)):
        raise Unsupported("lodict[%r] = %r" % (key, val))
    B.list_method(E, E.rd_field(o, "log_k"), "append", [key], {})
    B.list_method(E, E.rd_field(o, "log_v"), "append", [val], {})
    n = zint(E.rd_field(o, "n"))
    n2 = E.fresh("lod_n", z3.IntSort())
    E.assume(z3.And(n2 >= n, n2 <= n + 1))       # a new (lower-cased) key or an overwrite
    E.wr_field(o, "n", Sym(n2, "int"))


@hook("lodict", "len")
def _lod_len(E, o):
    return E.rd_field(o, "n")


REG.assume_note("lodict (lower-casing ordered dict, ioflo/aid/odicting.py) is NOT verified here: headers[k] = v is "
                "modelled as appending (k, v) to a ghost log of set operations and len(headers) as a counter that "
                "grows by 0 or 1 per set; lodict() creates an empty one")


@specfunc
def hdr_count(E, h):
    return Sym(E.llen(E.rd_field(h, "log_k")), "int")


@specfunc
def hdr_size(E, h):
    return E.rd_field(h, "n")


@specfunc
def hdr_last_is(E, h, buf, k0, k1, v0, v1):
    """the last header set has key == buf[k0:k1] and a value that is buf[v0:v1] with trailing optional whitespace
    (SP / HTAB) kept or dropped: value == buf[v0:v0+len(value)], v0 + len(value) <= v1, rest all SP / HTAB"""
    lk, lvv = E.rd_field(h, "log_k"), E.rd_field(h, "log_v")
    m = E.llen(lk)
    key = E.lget(lk, m - 1)
    val = E.lget(lvv, E.llen(lvv) - 1)
    k0, k1, v0, v1 = zint(k0), zint(k1), zint(v0), zint(v1)
    a = E.larrs(buf)[0]
    ka, va = E.larrs(key)[0], E.larrs(val)[0]
    j = z3.Int("j!hl%d" % next(E.counter))
    nk, nv = E.llen(key), E.llen(val)
    return Sym(z3.And(m >= 1, E.llen(lvv) >= 1, nk == k1 - k0,
                      z3.ForAll([j], z3.Implies(z3.And(j >= 0, j < nk), z3.Select(ka, j) == z3.Select(a, k0 + j))),
                      nv >= 0, v0 + nv <= v1,
                      z3.ForAll([j], z3.Implies(z3.And(j >= 0, j < nv), z3.Select(va, j) == z3.Select(a, v0 + j))),
                      z3.ForAll([j], z3.Implies(z3.And(j >= v0 + nv, j < v1),
                                                z3.Or(*[z3.Select(a, j) == w for w in OWS])))), "bool")


def _n_hdr_last_is(h, buf, k0, k1, v0, v1):
    if not h.last:
        return False
    key, val = h.last
    key, val = key.encode("latin-1"), val.encode("latin-1")
    buf = bytes(buf)
    return key == buf[k0:k1] and v0 + len(val) <= max(v1, v0) and buf[v0:v0 + len(val)] == val and \
        all(b in OWS for b in buf[v0 + len(val):v1])


hdr_count.native = lambda h: h.sets
hdr_size.native = lambda h: len(h)
hdr_last_is.native = _n_hdr_last_is


# ========================================================================================== parseLeader
def _pin(**ids):
    """setup: the reference values of the named parameter objects are fixed to distinct concrete positive ids
    (without loss of generality: no code depends on an id, and the pinned parameters are objects of different Python
    types or are stated distinct).  Heap reads through a concrete id simplify syntactically, which keeps the
    obligations small; the symbolic parameter constant is kept equal to the id for counterexample extraction."""
    def setup(E):
        for nm, c in ids.items():
            v = E.frame.env.get(nm)
            if isinstance(v, ListV) and not z3.is_int_value(v.t):
                E.assume(v.t == c)
                E.frame.env[nm] = ListV(z3.IntVal(c), v.et, nn=v.nn, kind=v.kind)
            elif isinstance(v, RefV) and not z3.is_int_value(v.t):
                E.assume(v.t == c)
                E.frame.env[nm] = RefV(z3.IntVal(c), v.cls, nn=v.nn)
    return setup


def _bytearray_kind(*names):
    def setup(E):
        for nm in names:
            v = E.frame.env.get(nm)
            if isinstance(v, ListV):
                v.kind = "bytearray"
    return setup


def _seq(*fs):
    def setup(E):
        for f in fs:
            f(E)
    return setup


class OnePass(bytearray):
    """native double of the receive buffer that shows the generator ONE consuming pass: after the first deletion
    (a line was consumed) find() reports no further mark, as if the rest had not arrived yet - the next pass then
    waits (yields None, consumes nothing), so next() on the real generator == one pass of the step contract"""
    consumed = False
    finds = 0

    def __delitem__(self, k):
        self.consumed = True
        return bytearray.__delitem__(self, k)

    def find(self, *a):
        self.finds += 1
        if self.finds > 20000:        # a generator that loops without consuming or yielding: stop the harness
            raise RuntimeError("harness: the generator makes no progress (no yield, nothing consumed)")
        if self.consumed:
            return -1
        return bytearray.find(self, *a)


def _mk_lodict_double(mod):
    base = mod.lodict

    class LodictD(base):
        sets = 0
        last = None

        def __setitem__(self, key, val):
            self.sets += 1
            self.last = (key, val)
            return base.__setitem__(self, key, val)
    return LodictD


HEADER_SAMPLES = [b"Key: value", b"Key:value", b"Key:  value", b"Key: value ", b"K:", b"K: ", b"a:b:c", b"novalue",
                  b"Content-Length: 10", b"X:\tv"]


def _mk_leader(rng, i, cex, nr):
    eols = (b"\r\n", b"\n")
    buf = _cex_list(cex, "raw") if cex else None
    if buf is None:
        r = rng.random()
        if r < 0.45:
            buf = rng.choice(HEADER_SAMPLES) + rng.choice([b"\r\n", b"\n", b"", b"\r"]) + rand_bytes(rng, 0, 6)
        elif r < 0.6:
            buf = rng.choice([b"\r\n", b"\n"]) + rand_bytes(rng, 0, 6)
        else:
            buf = rand_bytes(rng)
    hd = _mk_lodict_double(nr.mod)()
    for _ in range(rng.randint(0, 2)):
        hd["K%d" % rng.randint(0, 3)] = "v"
    if i % 53 == 52:
        for j in range(nr.mod.MAX_HEADERS + 1):
            hd["h%d" % j] = "v"
    env = {"raw": OnePass(buf), "raw0": bytes(buf), "eols": eols, "headers": hd}
    env.update(n_positions(buf, eols))
    return env


def _call_leader(env, nr):
    g = nr.fn(env["raw"], eols=env["eols"], headers=env["headers"])
    return next(g)


def _view_leader(env, nr):
    d = _view(env, nr)
    d["MAX_HEADERS"] = nr.mod.MAX_HEADERS
    return d


# the ghost logs of the header table are objects of their own (they exist only in the proof)
LOG_DISTINCT = ("headers.log_k is not raw and headers.log_v is not raw and headers.log_k is not headers.log_v and "
                "headers.log_k is not raw0 and headers.log_v is not raw0")
HAS = "pstar < len(raw0)"
SAMEH = "hdr_count(headers) == old(hdr_count(headers))"
CONSUMED = "is_slice(raw, raw0, pstar + eol_len_at(raw0, pstar, len(raw0), eols), len(raw0))"
LEADER_ENSURES = [
    # no mark: wait, nothing consumed, no header touched
    "implies(not %s, result is None and seq_eq(raw, raw0) and %s and len(raw0) <= MAX_LINE_SIZE)" % (HAS, SAMEH),
    "implies(not %s, step_emit and not step_exit)" % HAS,
    # a line: exactly the line and its (longest, earliest) mark are consumed
    "implies(%s, %s and pstar <= MAX_LINE_SIZE)" % (HAS, CONSUMED),
    # empty line: the leader is complete, the header table is yielded
    "implies(%s and pstar == 0, result is headers and %s)" % (HAS, SAMEH),
    "implies(%s and pstar == 0, step_emit and not step_exit)" % HAS,
    # header line `key: value` / `key:value`: one header is set, key = text before the first colon, value = text
    # after it without the optional leading whitespace (trailing optional whitespace kept or dropped)
    # (a line without any colon is malformed: outside the statement; ValueError is then allowed, C32's subject)
    "implies(%s and pstar > 0 and cpos < pstar, result is None and "
    "hdr_count(headers) == old(hdr_count(headers)) + 1 and hdr_last_is(headers, raw0, 0, cpos, vs, pstar))" % HAS,
    "implies(%s and pstar > 0, not step_emit and not step_exit)" % HAS,
]
LEADER_RAISES = dict(LINE_RAISES)
LEADER_RAISES["ValueError"] = ["%s and pstar > 0 and cpos == pstar" % HAS]       # malformed: no colon at all (C32)
LEADER_RAISES["HTTPException"] = ["hdr_size(headers) > MAX_HEADERS"]

def _pin_logs(E):
    h = E.frame.env["headers"]
    for attr, c in (("log_k", 1000003), ("log_v", 1000004)):
        lv = E.rd_field(h, attr)
        E.assume(lv.t == c)
        E.wr_field(h, attr, ListV(z3.IntVal(c), lv.et))


def _cut_line(E):
    """proof cut after `line = raw[:index]`: the code's index is the ghost position pstar and its eol is the longest
    mark there - proved here (small context), then available to the obligations that follow the header parsing"""
    g = E.spec_eval("index == pstar and len(eol) == eol_len_at(raw0, pstar, len(raw0), eols)")
    E.oblige("cut", g, "line selection: index == pstar and len(eol) == eol_len_at(raw0, pstar, len(raw0), eols)")


contract(F, "parseLeader", "C29", tags=("step2", "logic=AUFLIA"), ghost={"after": {"line = raw[:index]": _cut_line}},
         params=dict(raw=BA, headers=Ref("lodict")),
         setup=_seq(_pin(raw=1000001, headers=1000002), _line_ghosts(), _bytearray_kind("raw"), _pin_logs),
         assumes=[LOG_DISTINCT],
         modifies=["raw[*]", "headers.log_k[*]", "headers.log_v[*]", "headers.n"],
         ensures=LEADER_ENSURES, raises=LEADER_RAISES,
         replay=dict(make=_mk_leader, call=_call_leader, view=_view_leader, count=500),
         note="one pass of parseLeader for the marks (CRLF, LF); `headers` is the step state (created by the "
              "prologue); a header line does not emit: the next pass follows at once")

contract(F, "parseLeader", "C29", tags=("step2-init",), params=dict(raw=BA, headers=Opt(Ref("lodict"))),
         modifies=[], ensures=["implies(headers is not None, L_headers is headers)",
                               "implies(headers is None, fresh(L_headers) and hdr_count(L_headers) == 0 and "
                               "hdr_size(L_headers) == 0)"],
         note="prologue of parseLeader: the header table passed in, or a new empty lodict")


# ========================================================================================== parseBom
@specfunc
def starts_with(E, lst, pre):
    pre = bytes(pre)
    a = E.larrs(lst)[0]
    return Sym(z3.And(E.llen(lst) >= len(pre), *[z3.Select(a, j) == pre[j] for j in range(len(pre))]), "bool")


starts_with.native = lambda lst, pre: bytes(lst[:len(pre)]) == bytes(pre)


def _mk_bom(rng, i, cex, nr):
    buf = _cex_list(cex, "raw") if cex else None
    if buf is None:
        bom = nr.mod.codecs.BOM_UTF8
        buf = rng.choice([b"", bom[:1], bom[:2], bom, bom[:2] + b"a", b"a" + bom]) + rand_bytes(rng, 0, 4)
    return {"raw": bytearray(buf), "raw0": bytes(buf), "bom": nr.mod.codecs.BOM_UTF8, "size": 3}


def _call_bom(env, nr):
    return next(nr.fn(env["raw"], bom=env["bom"]))


contract(F, "parseBom", "C33", tags=("step2", "logic=AUFLIA"), params=dict(raw=BA, size=INT),
         setup=_seq(_pin(raw=1000001), _snap(), _bytearray_kind("raw")), requires=["size == len(bom)"], modifies=["raw[*]"],
         ensures=[
             "implies(len(raw0) < len(bom), result is None and seq_eq(raw, raw0))",
             "implies(len(raw0) < len(bom), step_emit and not step_exit)",
             "implies(len(raw0) >= len(bom) and starts_with(raw0, bom), "
             "result == bom and is_slice(raw, raw0, len(bom), len(raw0)))",
             "implies(len(raw0) >= len(bom) and not starts_with(raw0, bom), "
             "result is not None and len(result) == 0 and seq_eq(raw, raw0))",
             "implies(len(raw0) >= len(bom), step_emit and step_exit)",
         ],
         replay=dict(make=_mk_bom, call=_call_bom, count=200),
         note="one pass of parseBom for bom = codecs.BOM_UTF8 (the default, the only value used); `size` is the "
              "step state set by the prologue; the decision is taken on the first len(bom) bytes only, once they "
              "are there (hence the same for every split)")
contract(F, "parseBom", "C33", tags=("step2-init",), params=dict(raw=BA), modifies=[],
         ensures=["L_size == len(bom)"], note="prologue of parseBom")


# ========================================================================================== parseEvents (C33 field rules)
classdecl("EventSource", file=F, fields=dict(raw=BA, events=List(Ref("SseEvent")), dictable=BOOL, leid=Opt(STR),
                                             retry=Opt(INT), closed=Opt(BOOL)))
classdecl("SseEvent", file=None, fields=dict(eid=Opt(STR), name=STR, data=STR))
if "odict" not in REG.classes:
    classdecl("odict", file=None, fields={})


@hook("odict", "ctor")
def _event_ctor(E, cv, args, kwargs):
    """odict([('id', eid), ('name', ename), ('data', edata)]) : the event record appended to .events"""
    items = B.iter_values(E, args[0]) if len(args) == 1 and not kwargs else None
    def key(k):
        if isinstance(k, Sym) and z3.is_string_value(z3.simplify(k.t)):
            return z3.simplify(k.t).as_string()
        return k
    if not items or [key(it[0]) for it in items] != ["id", "name", "data"]:
        raise Unsupported("odict(...) other than the event record of parseEvents")
    o = RefV(E.new_ref(), "SseEvent", nn=True)
    E.wr_field(o, "eid", items[0][1])
    E.wr_field(o, "name", items[1][1])
    E.wr_field(o, "data", items[2][1])
    return o


_JOIN = z3.Function("join_nl", z3.IntSort(), z3.ArraySort(z3.IntSort(), z3.StringSort()), z3.StringSort())
_PYINT_OK = z3.Function("pyint_ok", z3.StringSort(), z3.BoolSort())
_PYINT = z3.Function("pyint", z3.StringSort(), z3.IntSort())
FIELD_NAMES = (b"event", b"data", b"id", b"retry")


def _join_term(E, lst):
    if lst.et is None:
        return z3.StringVal("")
    return _JOIN(E.llen(lst), E.larrs(lst)[0])


@external("str.join")
def _str_join(E, args, kw):
    sep, lst = args[0], args[1]
    if isinstance(sep, bytes) and sep == b"" and isinstance(lst, ListV):
        items = B.iter_values(E, lst)              # b''.join([...]) of a concrete number of byte strings
        if items is None:
            raise Unsupported("b''.join of a list of symbolic length")
        out = b""
        for it in items:
            out = E.arith(ast.Add(), out, it)
        return out
    if sep != u"\n" or not isinstance(lst, ListV):
        raise Unsupported("join other than '\\n'.join(list)")
    t = _join_term(E, lst)
    if lst.et is None:
        return ""
    E.assume(z3.Implies(E.llen(lst) == 0, t == z3.StringVal("")))
    return Sym(t, "str")


@specfunc
def join_nl(E, lst):
    return Sym(_join_term(E, lst), "str")


join_nl.native = lambda lst: u"\n".join(lst)


def _bytes_eq(E, arr, n, lit):
    return z3.And(n == len(lit), *[z3.Select(arr, j) == lit[j] for j in range(len(lit))])


def _utf8_decode(E, lv):
    """x.decode('UTF-8'): raises UnicodeDecodeError (malformed input) or returns a text that the path records as
    "the UTF-8 decoding of these bytes" (ghost table `dec`); the only facts: decoding is injective and maps ASCII
    bytes to the same characters, instantiated for the four SSE field names"""
    if E.choose(2) == 1:
        raise PyRaise(ExcV(UnicodeDecodeError, ("utf-8", b"", 0, 1, "invalid")))
    s = E.fresh("utf8", z3.StringSort())
    n, arr = E.llen(lv), E.larrs(lv)[0]
    E.ghost.setdefault("dec", [])
    E.ghost["dec"] = E.ghost["dec"] + [(arr, n, s)]
    for lit in FIELD_NAMES:
        E.assume((s == z3.StringVal(lit.decode())) == _bytes_eq(E, arr, n, lit))
    E.assume((z3.Length(s) == 0) == (n == 0))
    return Sym(s, "str")


@external("int(str)")
def _py_int(E, args, kw):
    """int(text): succeeds exactly on the texts Python accepts as an integer literal (uninterpreted predicate
    pyint_ok); a non-empty text of ASCII digits only is accepted"""
    v = args[0]
    if len(args) != 1 or not (isinstance(v, Sym) and v.k == "str"):
        raise Unsupported("int(%r)" % (args,))
    for (arr, n, s) in E.ghost.get("dec", []):
        if s.eq(v.t):
            k = E.fresh("kd", z3.IntSort())
            digits = z3.And(n > 0, z3.ForAll([k], z3.Implies(z3.And(k >= 0, k < n),
                                                             z3.And(z3.Select(arr, k) >= 48, z3.Select(arr, k) <= 57))))
            E.assume(z3.Implies(digits, _PYINT_OK(v.t)))
    if not E.branch(_PYINT_OK(v.t)):
        raise PyRaise(ExcV(ValueError, ("invalid literal for int()",)))
    return Sym(_PYINT(v.t), "int")


REG.assume_note("bytes.decode('UTF-8') raises UnicodeDecodeError or returns a text; the only facts used: it is "
                "injective, maps the ASCII bytes of b'event' / b'data' / b'id' / b'retry' to those names and the empty "
                "byte string to the empty text.  int(text) raises ValueError or returns an int (uninterpreted "
                "pyint_ok / pyint); it accepts every non-empty text of ASCII digits.  '\\n'.join(list) is an "
                "uninterpreted function of the list's contents (empty list -> empty text)")


def _dec_match(E, s, buf, lo, hi):
    """z3: text s was produced on this path by decoding bytes pointwise equal to buf[lo:hi]"""
    lo, hi = zint(lo), zint(hi)
    a = E.larrs(buf)[0]
    out = []
    for (arr, n, t) in E.ghost.get("dec", []):
        k = z3.Int("k!du%d" % next(E.counter))
        out.append(z3.And(zstr(s) == t, n == hi - lo,
                          z3.ForAll([k], z3.Implies(z3.And(k >= 0, k < n), z3.Select(arr, k) == z3.Select(a, lo + k)))))
    return out


@specfunc
def is_utf8(E, s, buf, lo, hi):
    """s is the UTF-8 decoding of buf[lo:hi]"""
    if isinstance(s, OptV):
        return Sym(z3.And(z3.Not(s.isnone), z3.Or(*(_dec_match(E, s.val, buf, lo, hi) or [z3.BoolVal(False)]))), "bool")
    if s is None:
        return False
    return Sym(z3.Or(*(_dec_match(E, s, buf, lo, hi) or [z3.BoolVal(False)])), "bool")


@specfunc
def all_digits(E, buf, lo, hi):
    lo, hi = zint(lo), zint(hi)
    a = E.larrs(buf)[0]
    k = z3.Int("k!ad%d" % next(E.counter))
    return Sym(z3.And(hi > lo, z3.ForAll([k], z3.Implies(z3.And(k >= lo, k < hi),
                                                         z3.And(z3.Select(a, k) >= 48, z3.Select(a, k) <= 57)))), "bool")


@specfunc
def retry_is(E, new, buf, lo, hi):
    """new is the int Python reads from the UTF-8 text of buf[lo:hi]"""
    if new is None:
        return False
    outs = []
    lo_, hi_ = zint(lo), zint(hi)
    a = E.larrs(buf)[0]
    for (arr, n, t) in E.ghost.get("dec", []):
        k = z3.Int("k!ri%d" % next(E.counter))
        same = z3.And(n == hi_ - lo_, z3.ForAll([k], z3.Implies(z3.And(k >= 0, k < n),
                                                               z3.Select(arr, k) == z3.Select(a, lo_ + k))))
        val = E.equal(new, Sym(_PYINT(t), "int"))
        outs.append(z3.And(same, E.tobool(val)))
    return Sym(z3.Or(*(outs or [z3.BoolVal(False)])), "bool")


@specfunc
def field_is(E, buf, lo, hi, name):
    """buf[lo:hi] == name (concrete bytes)"""
    name = bytes(name)
    lo, hi = zint(lo), zint(hi)
    a = E.larrs(buf)[0]
    return Sym(z3.And(hi - lo == len(name), *[z3.Select(a, lo + j) == name[j] for j in range(len(name))]), "bool")


def _n_utf8(s, buf, lo, hi):
    try:
        return s == bytes(buf[lo:hi]).decode("utf-8")
    except UnicodeDecodeError:
        return False


def _n_retry_is(new, buf, lo, hi):
    try:
        return new == int(bytes(buf[lo:hi]).decode("utf-8"))
    except ValueError:
        return False


is_utf8.native = _n_utf8
all_digits.native = lambda buf, lo, hi: hi > lo and all(48 <= b <= 57 for b in bytes(buf[lo:hi]))
retry_is.native = _n_retry_is
field_is.native = lambda buf, lo, hi, name: bytes(buf[lo:hi]) == bytes(name)


EV_IDS = dict(self=1000010, raw=1000001, events=1000005, parts=1000006)


def _ev_setup(E):
    """pin the objects (distinct Python types: EventSource, bytearray, deque, list), snapshot the buffer, the data
    lines and the event queue, introduce the ghost positions of the first line"""
    env = E.frame.env
    me = env["self"]
    E.assume(me.t == EV_IDS["self"])
    me = RefV(z3.IntVal(EV_IDS["self"]), "EventSource", nn=True)
    env["self"] = me
    for attr in ("raw", "events"):
        lv = E.rd_field(me, attr)
        E.assume(lv.t == EV_IDS[attr])
        E.wr_field(me, attr, ListV(z3.IntVal(EV_IDS[attr]), lv.et, kind="bytearray" if attr == "raw" else "list"))
    if isinstance(env.get("parts"), ListV):
        _pin(parts=EV_IDS["parts"])(E)
        _snap(name="parts", ghost="parts0", gid=1000007)(E)
    _snap(ghost="events0", via=lambda E2: E2.rd_field(me, "events"), gid=1000008)(E)
    env["eols"] = (b"\r\n", b"\n", b"\r")
    _line_ghosts(colon=True, buf=lambda E2: E2.rd_field(me, "raw"))(E)
    a = E.larrs(env["raw0"])[0]
    cp, ps = zint(env["cpos"]), zint(env["pstar"])
    # SSE: exactly ONE leading space of the value is dropped
    env["vs"] = Sym(z3.If(cp < ps, z3.If(z3.And(cp + 1 < ps, z3.Select(a, cp + 1) == 32), cp + 2, cp + 1), ps), "int")


def _line_parser(E):
    """the suspended inner generator created by the prologue: parseLine(raw=self.raw, eols=(CRLF, LF, CR), ...)"""
    me = E.frame.env["self"]
    me = RefV(z3.IntVal(EV_IDS["self"]), "EventSource", nn=True) if not z3.is_int_value(me.t) else me
    node = E.repo.func(F, "parseLine")
    fv = FuncV(F, "parseLine", node)
    c = E.reg.contracts[(F, "parseLine")][0]
    raw = ListV(z3.IntVal(EV_IDS["raw"]), INT, kind="bytearray")
    return B.GenV(fv, {"raw": raw, "eols": (b"\r\n", b"\n", b"\r"), "kind": "event line"}, c)


@specfunc
def is_line_parser(E, g, raw):
    """g is a generator object of parseLine on the buffer `raw` with the event-stream marks"""
    return isinstance(g, B.GenV) and g.fv.qual == "parseLine" and tuple(g.env.get("eols", ())) == (b"\r\n", b"\n", b"\r") \
        and isinstance(g.env.get("raw"), ListV) and Sym(g.env["raw"].t == raw.t, "bool")


def _cut_events(E):
    """after `line = next(lineParser)`: the facts of the parseLine step contract restated on the ghost positions"""
    env = E.frame.env
    ln = env["line"]
    if isinstance(ln, ListV):
        ln.kind = "bytearray"
    E.oblige("cut", E.spec_eval("iff(line is None, pstar == len(raw0)) and "
                                "implies(line is not None, len(line) == pstar and is_slice(self.raw, raw0, "
                                "pstar + eol_len_at(raw0, pstar, len(raw0), eols), len(raw0)))"),
             "next(lineParser): line is None iff no mark; else len(line) == pstar and line + longest mark consumed")


@specfunc
def ev_id(E, e):
    return E.rd_field(e, "eid")


@specfunc
def ev_name(E, e):
    return E.rd_field(e, "name")


@specfunc
def ev_data(E, e):
    return E.rd_field(e, "data")


ev_id.native = lambda e: e["id"]
ev_name.native = lambda e: e["name"]
ev_data.native = lambda e: e["data"]

CLOSED = "(self.closed is not None and self.closed)"
LIVE = "(pstar < len(raw0) and not %s)" % CLOSED
KEEP_ID = "L_eid == eid and self.leid == old(self.leid)"
KEEP_NAME = "L_ename == ename"
KEEP_PARTS = "L_parts is parts and seq_eq(parts, parts0)"
KEEP_RETRY = "self.retry == old(self.retry)"
KEEP_EVENTS = "len(self.events) == len(events0) and is_slice(events0, self.events, 0, len(events0))"
KEEP_ALL = " and ".join([KEEP_ID, KEEP_NAME, KEEP_PARTS, KEEP_RETRY, KEEP_EVENTS, "L_edata == edata"])
FIELD = "(%s and pstar > 0 and raw0[0] != 58)" % LIVE            # a field line (not empty, not a comment)


def _fld(name):
    return "(%s and field_is(raw0, 0, cpos, %r))" % (FIELD, name)


OTHER = "(%s and not field_is(raw0, 0, cpos, b'data') and not field_is(raw0, 0, cpos, b'event') and " \
        "not field_is(raw0, 0, cpos, b'id') and not field_is(raw0, 0, cpos, b'retry'))" % FIELD
EVENTS_ENSURES = [
    # no complete line yet: wait; nothing consumed, nothing changed
    "implies(pstar == len(raw0), result is None and seq_eq(self.raw, raw0) and %s)" % KEEP_ALL,
    "implies(pstar == len(raw0), step_emit and not step_exit)",
    # a line: exactly the line and its mark are consumed
    "implies(pstar < len(raw0), is_slice(self.raw, raw0, pstar + eol_len_at(raw0, pstar, len(raw0), eols), len(raw0)))",
    "implies(%s, not step_emit and not step_exit)" % LIVE,
    # comment line (starts with a colon): ignored
    "implies(%s and pstar > 0 and raw0[0] == 58, %s)" % (LIVE, KEEP_ALL),
    # `data`: the value (after the colon, ONE leading space dropped; empty when there is no colon) is appended
    "implies(%s, L_parts is parts and len(parts) == len(parts0) + 1 and is_slice(parts0, parts, 0, len(parts0)) and "
    "is_utf8(parts[len(parts) - 1], raw0, vs, pstar))" % _fld(b"data"),
    "implies(%s, %s)" % (_fld(b"data"), " and ".join([KEEP_ID, KEEP_NAME, KEEP_RETRY, KEEP_EVENTS])),
    # `event`: sets the event name
    "implies(%s, is_utf8(L_ename, raw0, vs, pstar) and %s)" % (_fld(b"event"), " and ".join([KEEP_ID, KEEP_PARTS, KEEP_RETRY, KEEP_EVENTS])),
    # `id`: sets the event id and the last event id
    "implies(%s, is_utf8(L_eid, raw0, vs, pstar) and self.leid == L_eid and %s)"
    % (_fld(b"id"), " and ".join([KEEP_NAME, KEEP_PARTS, KEEP_RETRY, KEEP_EVENTS])),
    # `retry`: sets the reconnection time only when the value is an integer literal (SSE: ASCII digits only)
    "implies(%s and all_digits(raw0, vs, pstar), self.retry is not None and retry_is(self.retry, raw0, vs, pstar))" % _fld(b"retry"),
    "implies(not all_digits(raw0, vs, pstar) and %s, %s)" % (_fld(b"retry"), KEEP_RETRY),
    "implies(%s, %s)" % (_fld(b"retry"), " and ".join([KEEP_ID, KEEP_NAME, KEEP_PARTS, KEEP_EVENTS])),
    # any other field name: ignored
    "implies(%s, %s)" % (OTHER, KEEP_ALL),
    # empty line: dispatch.  With data lines: exactly ONE event (id, name, data lines joined by newlines) is appended
    "implies(%s and pstar == 0 and len(parts0) > 0, len(self.events) == len(events0) + 1 and "
    "is_slice(events0, self.events, 0, len(events0)) and ev_id(self.events[len(events0)]) == eid and "
    "ev_name(self.events[len(events0)]) == ename and ev_data(self.events[len(events0)]) == join_nl(parts0))" % LIVE,
    # without data lines: nothing is appended
    "implies(%s and pstar == 0 and len(parts0) == 0 and len(edata) == 0, %s)" % (LIVE, KEEP_EVENTS),
    # after a dispatch the name and data buffers are reset, the id persists
    "implies(%s and pstar == 0, len(L_ename) == 0 and len(L_edata) == 0 and len(L_parts) == 0 and "
    "seq_eq(parts, parts0) and %s and %s)" % (LIVE, KEEP_ID, KEEP_RETRY),
]

contract(F, "EventSource.parseEvents", "C33", tags=("step2", "logic=AUFLIA"),
         params=dict(self=Ref("EventSource"), eid=Opt(STR), ename=STR, edata=STR, parts=List(STR), ejson=NONE,
                     lineParser=_line_parser),
         setup=_ev_setup, requires=["not self.dictable"],
         ghost={"after": {"line = next(lineParser)": _cut_events}},
         modifies=["self.raw[*]", "self.events[*]", "self.leid", "self.retry", "parts[*]"],
         ensures=EVENTS_ENSURES, raises={"UnicodeDecodeError": ["pstar < len(raw0)"], "LineTooLong": ["True"]},
         findings={"retry-python-int": "%s and not all_digits(raw0, vs, pstar)" % _fld(b"retry"),
                   "empty-data-not-dispatched": "pstar == 0 and len(parts0) > 0 and len(join_nl(parts0)) == 0"},
         note="one pass of EventSource.parseEvents (dictable False); step state: eid, ename, edata, parts and the "
              "suspended lineParser; the inner next(lineParser) is the parseLine step contract (modular)")


contract(F, "EventSource.parseEvents", "C33", tags=("step2-init",), params=dict(self=Ref("EventSource")),
         setup=_ev_setup, modifies=[],
         ensures=["L_eid == self.leid", "len(L_ename) == 0 and len(L_edata) == 0", "len(L_parts) == 0 and fresh(L_parts)",
                  "L_ejson is None", "is_line_parser(L_lineParser, self.raw)"],
         note="prologue of parseEvents: the initial step state")


# ------------------------------------------------------------------------------------------ native harness
EVENT_LINES = [b"data: x", b"data:x", b"data:  y", b"data", b"data:", b"event: e", b"event:e", b"id: 7", b"id", b"id:",
               b": comment", b":", b"retry: 10", b"retry:10", b"retry: +5", b"retry: x", b"retry: 1 ", b"retry:",
               b"foo: bar", b"foo", b"da: x", b"data : x", b"a:b:c", b" data: x", b"data: a:b"]


def _drive(gen, es, chunk):
    """feed one chunk to a suspended parseEvents generator, one OnePass step per line"""
    es.raw.extend(chunk)
    for _ in range(64):
        es.raw.consumed = False
        before = len(es.raw)
        r = next(gen)
        if len(es.raw) == before:
            return r
    raise RuntimeError("prefix not consumed")


def _mk_events(rng, i, cex, nr):
    cls = nr.mod.EventSource
    es = object.__new__(cls)
    es.raw = OnePass()
    es.events = nr.mod.deque()
    es.dictable = False
    es.leid = rng.choice([None, u"L"])
    es.retry = rng.choice([None, 3])
    es.closed = None
    es.parser = None
    gen = cls.parseEvents(es)
    # bring the generator into some reachable state: a few complete lines first
    eol = lambda: rng.choice([b"\n", b"\r\n", b"\r"])
    pre = b""
    for _ in range(rng.randint(0, 3)):
        pre += rng.choice(EVENT_LINES[:12] + [b""]) + b"\n"
    try:
        _drive(gen, es, pre)
    except Exception:
        return None          # the generator under test cannot even be brought into a start state: no evaluation
    if len(es.raw) != 0:
        return None
    buf = _cex_list(cex, "raw") if cex else None
    if buf is None:
        r = rng.random()
        if r < 0.55:
            buf = rng.choice(EVENT_LINES) + rng.choice([eol(), eol(), b""]) + rand_bytes(rng, 0, 5)
        elif r < 0.7:
            buf = eol() + rand_bytes(rng, 0, 5)
        else:
            buf = rand_bytes(rng)
    if rng.random() < 0.05:
        es.closed = True
    es.raw.consumed = False
    es.raw.extend(buf)
    loc = gen.gi_frame.f_locals
    eols = (b"\r\n", b"\n", b"\r")
    env = {"self": es, "raw0": bytes(buf), "eols": eols, "_gen": gen, "eid": loc["eid"], "ename": loc["ename"],
           "edata": loc["edata"], "parts": loc["parts"], "parts0": list(loc["parts"]), "events0": list(es.events)}
    pos = n_positions(buf, eols)
    ps, cp = pos["pstar"], pos["cpos"]
    pos["vs"] = (cp + 2 if (cp + 1 < ps and buf[cp + 1] == 32) else cp + 1) if cp < ps else ps
    env.update(pos)
    return env


def _call_events(env, nr):
    return next(env["_gen"])


def _view_events(env, nr):
    d = _view(env, nr)
    fr = env["_gen"].gi_frame
    if fr is not None:
        for k, v in fr.f_locals.items():
            d["L_" + k] = v
    return d


for _c in REG.contracts[(F, "EventSource.parseEvents")]:
    if "step2" in _c.tags:
        _c.replay = dict(make=_mk_events, call=_call_events, view=_view_events, count=600)


# ========================================================================================== packChunk (C29)
_HEXD = z3.Function("hexdigits", z3.IntSort(), SeqInt)


class HexFmt(Opaque_):
    """the text "{0:x}\\r\\n".format(n): carried until it is encoded"""
    __slots__ = ("n",)

    def __init__(self, n):
        Opaque_.__init__(self, "hexfmt")
        self.n = n


@external("literal.format")
def _lit_format(E, args, kw):
    if args[0] == u"{0:x}\r\n" and len(args) == 2 and kind_of(args[1]) == "int":
        return HexFmt(args[1])
    return None                 # any other literal: not modelled (message text)


@external("str.encode")
def _str_encode(E, args, kw):
    if isinstance(args[0], HexFmt) and len(args) == 2 and args[1] == "ascii":
        return Sym(z3.Concat(_HEXD(zint(args[0].n)), zbytes(b"\r\n")), "bytes")
    if isinstance(args[0], Opaque_):
        return Opaque_("str.encode")
    raise Unsupported("encode of %r" % (args[0],))


@specfunc
def hexdigits(E, n):
    return Sym(_HEXD(zint(n)), "bytes")


hexdigits.native = lambda n: format(n, "x").encode("ascii")
REG.assume_note('"{0:x}\\r\\n".format(n).encode("ascii") == hexdigits(n) + b"\\r\\n" where hexdigits(n) is the lower-case '
                "hexadecimal numeral of n (uninterpreted in the proof, format(n, 'x') natively)")

contract(F, "packChunk", "C29", params=dict(msg=BYTES), modifies=[], returns=BYTES,
         ensures=["result == hexdigits(len(msg)) + CRLF + msg + CRLF"],
         replay=dict(make=lambda rng, i, cex, nr: {"msg": bytes(rng.randrange(256) for _ in range(rng.choice([0, 1, 5, 17, 300])))},
                     view=_view, count=60),
         note="chunk = size in hex, CRLF, the data verbatim, CRLF (no chunk extensions are produced)")
