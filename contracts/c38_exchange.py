"""C38 exchanges: Exchange.__init__/process/send/transmit/prepSend/fail/finish, Exchanger.start, Exchangent.start
(ioflo/aio/proto/exchanging.py), verified modularly against the StoreTimer contracts of C42.

Ghost: `stack.sent` is the list of packets handed to stack.transmit (the stack's queue is outside this contract).
Statement -> process(): overall timeout (when > 0) reached  => failed and done, nothing transmitted;
otherwise redo interval (when > 0) reached => redo timer restarted at the current stamp and exactly one
retransmission of the latest message; otherwise nothing changes; timeout == 0 never fails.
"""
from pyvc.api import *
from contracts import c42_timers as T   # StoreTimer contracts (callee contracts)
import z3

F = "ioflo/aio/proto/exchanging.py"

classdecl("Pkt", fields={})
classdecl("DeviceLike", fields={})
classdecl("StackLike", fields=dict(stamper=Ref("StoreLike"), sent=List(Ref("Pkt")), name=STR))
EXF = dict(stack=Ref("StackLike"), name=STR, device=Opt(Ref("DeviceLike")), timeout=REAL, redoTimeout=REAL,
           timer=Ref("StoreTimer"), redoTimer=Ref("StoreTimer"), rx=Opt(Ref("Pkt")), tx=Opt(Ref("Pkt")),
           done=BOOL, failed=BOOL, acked=BOOL, uid=STR)
classdecl("Exchange", file=F, fields=EXF)
classdecl("Exchanger", file=F, bases=("Exchange",))
classdecl("Exchangent", file=F, bases=("Exchange",))


@hook("StackLike", "getattr", "transmit")
def _stack_transmit(E, obj):
    def transmit(E2, pkt, *a, **k):
        sent = E2.rd_field(obj, "sent")
        from pyvc import builtins_ as B
        B.list_method(E2, sent, "append", [pkt], {})
        return None
    transmit._specfunc = True
    return transmit


contract("ioflo/aid/timing.py", "tuuid", "C38", params={}, returns=STR, verify=False, may_raise_at_call=False,
         note="assumed: returns some string, no effect on the objects under contract")
REG.assume_note("stack.transmit(pkt) is abstracted to appending pkt to the ghost list stack.sent; tuuid() returns "
                "an arbitrary string; console output ignored")

TINV = ("self.timer.start >= 0 and self.timer.duration >= 0 and self.timer.stop == self.timer.start + self.timer.duration"
        " and self.redoTimer.start >= 0 and self.redoTimer.duration >= 0 and "
        "self.redoTimer.stop == self.redoTimer.start + self.redoTimer.duration")
WF = [TINV, "self.timer is not self.redoTimer",
      "self.timer.store is self.stack.stamper and self.redoTimer.store is self.stack.stamper",
      "self.stack.stamper.stamp is not None and self.stack.stamper.stamp >= 0"]
NOW = "self.stack.stamper.stamp"
SENT = "self.stack.sent"


@specfunc
def sent_unchanged(E, cur, old):
    return Sym(E.tobool(E.list_eq(cur, old)), "bool")


@specfunc
def sent_appended(E, cur, old, pkt):
    """cur == old ++ [pkt] pointwise"""
    n0 = E.llen(old)
    k = z3.Int("k!sent")
    same = z3.ForAll([k], z3.Implies(z3.And(k >= 0, k < n0),
                                     E.tobool(E.equal(E.lget(cur, k), E.lget(old, k)))))
    return Sym(z3.And(E.llen(cur) == n0 + 1, same, E.tobool(E.equal(E.lget(cur, n0), pkt))), "bool")


sent_unchanged.native = lambda cur, old: list(cur) == list(old)
sent_appended.native = lambda cur, old, pkt: list(cur) == list(old) + [pkt]


# in post-conditions `old(...)` of a list denotes the list object; its OLD contents are read through old_list
@specfunc
def old_sent(E, self_):
    """the ghost list as it was at entry (same object, entry heap)"""
    heap = E.heap
    E.heap = dict(E.heap_old)
    try:
        stack = E.rd_field(self_, "stack")
        lv = E.rd_field(stack, "sent")
        n = E.llen(lv)
        arrs = E.larrs(lv)
    finally:
        E.heap = heap
    snap = E.new_list(lv.et, n, arrs)
    return snap


# ---------------------------------------------------------------- native doubles
class _Stamper:
    def __init__(self, stamp):
        self.stamp = stamp


class _Stack:
    name = "stack.double"

    def __init__(self, stamp):
        self.stamper = _Stamper(stamp)
        self.sent = []

    def transmit(self, pkt, *a, **k):
        self.sent.append(pkt)


class _Dev:
    name = "device.double"
    ha = ("127.0.0.1", 1)


def _mk_ex(clsname="Exchange"):
    def make(rng, i, cex, nr):
        import importlib
        timing = importlib.import_module("ioflo.aid.timing")
        cls = getattr(nr.mod, clsname)
        stamp = rng.randint(0, 800) / 8.0
        stack = _Stack(stamp)
        ex = object.__new__(cls)
        ex.stack = stack
        ex.name = "ex"
        ex.uid = "u"
        ex.device = _Dev()
        ex.timeout = rng.choice([0.0, 0.5, 1.0, 2.0])
        ex.redoTimeout = rng.choice([0.0, 0.25, 0.5])
        ex.timer = timing.StoreTimer(stack.stamper, duration=ex.timeout)
        ex.redoTimer = timing.StoreTimer(stack.stamper, duration=ex.redoTimeout)
        ex.rx = None
        ex.tx = rng.choice([None, "pkt-A"])
        ex.done = False
        ex.failed = False
        ex.acked = False
        stack.stamper.stamp = stamp + rng.choice([0.0, 0.125, 0.25, 0.5, 1.0, 2.0, 3.0])
        env = {"self": ex}
        for name in nr.params:
            if name in ("tx", "pkt", "rx"):
                env[name] = rng.choice([None, "pkt-B"])
        return env
    return make


def _view(env, nr):
    return {}


NX = dict(make=_mk_ex("Exchange"))

# ---------------------------------------------------------------- small steps
contract(F, "Exchange.prepFinish", "C38", params=dict(self=Ref("Exchange")), modifies=["self.done"],
         ensures=["self.done"], replay=NX)
contract(F, "Exchange.finish", "C38", params=dict(self=Ref("Exchange")), modifies=["self.done"],
         ensures=["self.done", "self.failed == old(self.failed)"], replay=NX)
contract(F, "Exchange.fail", "C38", params=dict(self=Ref("Exchange")), modifies=["self.done", "self.failed"],
         ensures=["self.done and self.failed"], replay=NX)
contract(F, "Exchange.prepStart", "C38", params=dict(self=Ref("Exchange")),
         modifies=["self.done", "self.failed", "self.acked"],
         ensures=["not self.done and not self.failed and not self.acked"], replay=NX)

NO_TX = {"ValueError": ["tx is None and old(self.tx) is None", "self.tx is None"]}
contract(F, "Exchange.prepSend", "C38", params=dict(self=Ref("Exchange"), tx=Opt(Ref("Pkt"))),
         modifies=["self.tx"],
         ensures=["self.tx is not None", "implies(tx is not None, self.tx is tx)",
                  "implies(tx is None, self.tx is old(self.tx))"],
         raises=NO_TX, replay=NX)
contract(F, "Exchange.transmit", "C38", params=dict(self=Ref("Exchange"), pkt=Opt(Ref("Pkt"))),
         modifies=["self.tx", SENT + "[*]"],
         ensures=["self.tx is not None", "implies(pkt is not None, self.tx is pkt)",
                  "implies(pkt is None, self.tx is old(self.tx))",
                  "sent_appended(self.stack.sent, old_sent(self), self.tx)"],
         raises={"ValueError": ["pkt is None and old(self.tx) is None", "self.tx is None",
                                "sent_unchanged(self.stack.sent, old_sent(self))"]}, replay=NX)
contract(F, "Exchange.send", "C38", params=dict(self=Ref("Exchange"), tx=Opt(Ref("Pkt"))),
         modifies=["self.tx", SENT + "[*]"],
         ensures=["self.tx is not None", "implies(tx is not None, self.tx is tx)",
                  "implies(tx is None, self.tx is old(self.tx))",
                  "sent_appended(self.stack.sent, old_sent(self), self.tx)"],
         raises={"ValueError": ["tx is None and old(self.tx) is None", "self.tx is None",
                                "sent_unchanged(self.stack.sent, old_sent(self))"]}, replay=NX)

# ---------------------------------------------------------------- process
TIMED_OUT = "(self.timeout > 0 and %s >= old(self.timer.stop))" % NOW
REDO_DUE = "(self.redoTimeout > 0 and %s >= old(self.redoTimer.stop))" % NOW
contract(F, "Exchange.process", "C38", params=dict(self=Ref("Exchange")), requires=WF,
         modifies=["self.done", "self.failed", "self.tx", SENT + "[*]",
                   "self.redoTimer.start", "self.redoTimer.stop", "self.redoTimer.duration"],
         ensures=[
             # overall timeout first: fail, transmit nothing
             "implies(%s, self.failed and self.done and sent_unchanged(self.stack.sent, old_sent(self)))" % TIMED_OUT,
             # a timeout of zero never expires
             "implies(self.timeout == 0, self.failed == old(self.failed) and self.done == old(self.done))",
             # fails exactly when the overall timeout has elapsed
             "implies(not %s, self.failed == old(self.failed) and self.done == old(self.done))" % TIMED_OUT,
             # redo: once per interval, retransmit the latest message
             "implies(not %s and %s, self.redoTimer.start == %s and "
             "self.redoTimer.stop == %s + self.redoTimer.duration and "
             "self.redoTimer.duration == old(self.redoTimer.duration))" % (TIMED_OUT, REDO_DUE, NOW, NOW),
             "implies(not %s and %s and old(self.tx) is not None, "
             "sent_appended(self.stack.sent, old_sent(self), old(self.tx)))" % (TIMED_OUT, REDO_DUE),
             "implies(not %s and %s and old(self.tx) is None, "
             "sent_unchanged(self.stack.sent, old_sent(self)))" % (TIMED_OUT, REDO_DUE),
             # neither: nothing happens
             "implies(not %s and not %s, sent_unchanged(self.stack.sent, old_sent(self)) and "
             "self.redoTimer.start == old(self.redoTimer.start) and self.redoTimer.stop == old(self.redoTimer.stop))"
             % (TIMED_OUT, REDO_DUE),
             "self.tx is old(self.tx)",
             TINV,
         ], replay=NX)

def _mk_init(given_to, given_rt):
    def make(rng, i, cex, nr):
        stack = _Stack(rng.randint(0, 80) / 8.0)
        ex = object.__new__(nr.mod.Exchange)
        env = {"self": ex, "stack": stack, "uid": rng.choice([None, "u1"]), "name": rng.choice([None, "n"]),
               "device": _Dev(), "tx": rng.choice([None, "pkt"]), "rx": None,
               "timeout": rng.choice([0.0, 1.0, 2.5]) if given_to else None,
               "redoTimout": rng.choice([0.0, 0.25, 1.5]) if given_rt else None}
        return env
    return make


# ---------------------------------------------------------------- construction: any combination of settings
INIT_MOD = ["self." + k for k in EXF]
for _ci, (_to, _rt) in enumerate([(NONE, NONE), (REAL, NONE), (NONE, REAL), (REAL, REAL)]):
    contract(F, "Exchange.__init__", "C38",
             params=dict(self=Ref("Exchange"), stack=Ref("StackLike"), uid=Opt(STR), name=Opt(STR),
                         device=Opt(Ref("DeviceLike")), timeout=_to, redoTimout=_rt, tx=Opt(Ref("Pkt")),
                         rx=Opt(Ref("Pkt"))),
             requires=["implies(stack.stamper.stamp is not None, stack.stamper.stamp >= 0)"],
             modifies=INIT_MOD, frame=False,
             ensures=["self.timeout == (timeout if timeout is not None else 2)" if _to is REAL else "self.timeout == 2",
                      "self.redoTimeout == (redoTimout if redoTimout is not None else 0.5)" if _rt is REAL
                      else "self.redoTimeout == 0.5",
                      "self.timer.duration == abs(self.timeout)", "self.redoTimer.duration == abs(self.redoTimeout)",
                      "self.timer is not self.redoTimer", "self.timer.store is stack.stamper",
                      "self.redoTimer.store is stack.stamper",
                      "not self.done and not self.failed and not self.acked", "self.tx is tx", "self.rx is rx",
                      TINV],
             replay=dict(make=_mk_init(_to is REAL, _rt is REAL), count=40),
             note="timeout %s, redoTimout %s" % ("given" if _to is REAL else "None", "given" if _rt is REAL else "None"))

# ---------------------------------------------------------------- start (initiator / correspondent)
START_POST = ["not self.done and not self.failed and not self.acked",
              "self.timer.start == %s and self.timer.stop == %s + self.timer.duration" % (NOW, NOW),
              "self.redoTimer.start == %s and self.redoTimer.stop == %s + self.redoTimer.duration" % (NOW, NOW),
              TINV]
START_MOD = ["self.done", "self.failed", "self.acked", "self.tx", SENT + "[*]",
             "self.timer.start", "self.timer.stop", "self.timer.duration",
             "self.redoTimer.start", "self.redoTimer.stop", "self.redoTimer.duration"]
contract(F, "Exchanger.start", "C38", params=dict(self=Ref("Exchanger"), tx=Opt(Ref("Pkt"))), requires=WF,
         modifies=START_MOD,
         ensures=START_POST + ["self.tx is not None", "sent_appended(self.stack.sent, old_sent(self), self.tx)"],
         raises={"ValueError": ["tx is None and old(self.tx) is None"]},
         replay=dict(make=_mk_ex("Exchanger")))

contract(F, "Exchangent.respond", "C38", params=dict(self=Ref("Exchangent"), rx=Opt(Ref("Pkt"))),
         modifies=["self.rx", "self.done"],
         ensures=["self.done", "self.rx is not None", "implies(rx is not None, self.rx is rx)",
                  "implies(rx is None, self.rx is old(self.rx))"],
         raises={"ValueError": ["rx is None and old(self.rx) is None", "self.done == old(self.done)"]},
         replay=dict(make=_mk_ex("Exchangent")))
contract(F, "Exchangent.start", "C38", params=dict(self=Ref("Exchangent"), rx=Opt(Ref("Pkt"))), requires=WF,
         modifies=["self.done", "self.failed", "self.acked", "self.rx",
                   "self.timer.start", "self.timer.stop", "self.timer.duration",
                   "self.redoTimer.start", "self.redoTimer.stop", "self.redoTimer.duration"],
         ensures=["self.done and not self.failed and not self.acked",
                  "self.timer.start == %s and self.timer.stop == %s + self.timer.duration" % (NOW, NOW),
                  "self.redoTimer.start == %s and self.redoTimer.stop == %s + self.redoTimer.duration" % (NOW, NOW),
                  TINV, "self.rx is not None"],
         raises={"ValueError": ["rx is None and old(self.rx) is None"]},
         replay=dict(make=_mk_ex("Exchangent")))
