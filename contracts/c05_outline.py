"""C05 active frames are the active frame's outline: Frame.getUnder/traceOutline/traceHead
(ioflo/base/framing.py) + the activation bookkeeping of the framer (in c06_bracketing.py, counted for C05 too).

Acyclicity of the over / primary-under chains is a pre-condition stated with two ghost rank fields
(level = distance to the top, height = distance to the bottom along primary unders); it is what
resolveOverLinks/checkLoop establish at build time (their own termination is not claimed here).
outline(f) is characterised pointwise: position `level` holds f, every earlier element is the `over`
of its successor with the top first, every later element is the primary under of its predecessor, and
the last element has no under.
"""
from pyvc.api import *
from contracts.framing_decl import *
from contracts.lib import *

REG.classes["Frame"].fields.update(level=INT, height=INT)       # ghost ranks

RANKS = [
    "forall(Ref('Frame'), lambda f: f.level >= 0, trigger=lambda f: f.level)",
    "forall(Ref('Frame'), lambda f: f.height >= 0, trigger=lambda f: f.height)",
    "forall(Ref('Frame'), lambda f: iff(f.over is None, f.level == 0), trigger=lambda f: f.over)",
    "forall(Ref('Frame'), lambda f: implies(f.over is not None, f.over.level == f.level - 1), "
    "trigger=lambda f: f.over.level)",
    "forall(Ref('Frame'), lambda f: iff(len(f.unders) == 0, f.height == 0), trigger=lambda f: len(f.unders))",
    "forall(Ref('Frame'), lambda f: implies(len(f.unders) > 0, f.unders[0].height == f.height - 1), "
    "trigger=lambda f: f.unders[0].height)",
]
LF = List(Ref("Frame"))

contract(FF, "Frame.getUnder", "C05", params=dict(self=Ref("Frame")),
         ensures=["implies(len(self.unders) > 0, result is self.unders[0])",
                  "implies(len(self.unders) == 0, result is None)"],
         returns=Opt(Ref("Frame")), traced=False)

UP = "forall(lambda k: implies(0 <= k and k < {n} - 1, {o}[k] is {o}[k + 1].over))"
OUTLINE_POST = [
    "len(result) == self.level + 1 + self.height",
    "result[self.level] is self",
    "result[0].over is None",
    "forall(lambda k: implies(0 <= k and k < self.level, result[k] is result[k + 1].over))",
    "forall(lambda k: implies(self.level <= k and k < len(result) - 1, "
    "len(result[k].unders) > 0 and result[k + 1] is result[k].unders[0]))",
    "len(result[len(result) - 1].unders) == 0",
    "self.outline is result and fresh(result)",
]

contract(FF, "Frame.traceOutline", "C05", params=dict(self=Ref("Frame")), requires=RANKS,
         local_types={"outline": LF},
         modifies=["self.outline"],
         loops={
             0: dict(locals={"frame": Opt(Ref("Frame"))},
                     inv=["len(outline) >= 0 and len(outline) <= self.level + 1",
                          "implies(len(outline) > 0, outline[0] is self)",
                          "forall(lambda k: implies(0 <= k and k < len(outline) - 1, outline[k + 1] is outline[k].over))",
                          "forall(lambda k: implies(0 <= k and k < len(outline), outline[k].level == self.level - k))",
                          "implies(len(outline) == 0, frame is self)",
                          "implies(len(outline) > 0, frame is outline[len(outline) - 1].over)",
                          "implies(frame is not None, frame.level == self.level - len(outline))",
                          "implies(frame is None, len(outline) == self.level + 1)",
                          "fresh(outline)"]),
             1: dict(locals={"frame": Opt(Ref("Frame"))},
                     inv=["len(outline) >= self.level + 1 and len(outline) <= self.level + 1 + self.height",
                          "outline[self.level] is self", "outline[0].over is None",
                          "forall(lambda k: implies(0 <= k and k < self.level, outline[k] is outline[k + 1].over))",
                          "forall(lambda k: implies(self.level <= k and k < len(outline) - 1, "
                          "len(outline[k].unders) > 0 and outline[k + 1] is outline[k].unders[0]))",
                          "forall(lambda k: implies(self.level <= k and k < len(outline), "
                          "outline[k].height == self.height - (k - self.level)))",
                          "implies(len(outline[len(outline) - 1].unders) > 0, "
                          "frame is outline[len(outline) - 1].unders[0])",
                          "implies(len(outline[len(outline) - 1].unders) == 0, frame is None)",
                          "implies(frame is not None, frame.height == self.height - (len(outline) - self.level))",
                          "implies(frame is None, len(outline) == self.level + 1 + self.height)",
                          "fresh(outline)"]),
         },
         ensures=OUTLINE_POST, returns=LF)

contract(FF, "Frame.traceHead", "C05", params=dict(self=Ref("Frame")), requires=RANKS,
         local_types={"head": LF},
         modifies=["self.head"],
         loops={0: dict(locals={"frame": Opt(Ref("Frame"))},
                        inv=["len(head) >= 0 and len(head) <= self.level + 1",
                             "implies(len(head) > 0, head[0] is self)",
                             "forall(lambda k: implies(0 <= k and k < len(head) - 1, head[k + 1] is head[k].over))",
                             "forall(lambda k: implies(0 <= k and k < len(head), head[k].level == self.level - k))",
                             "implies(len(head) == 0, frame is self)",
                             "implies(len(head) > 0, frame is head[len(head) - 1].over)",
                             "implies(frame is not None, frame.level == self.level - len(head))",
                             "implies(frame is None, len(head) == self.level + 1)",
                             "fresh(head)"])},
         ensures=["len(result) == self.level + 1", "result[self.level] is self", "result[0].over is None",
                  "forall(lambda k: implies(0 <= k and k < self.level, result[k] is result[k + 1].over))",
                  "self.head is result and fresh(result)"],
         returns=LF)
