"""C24 / C25 for the serial driver (ioflo/aio/serial/serialing.py): DeviceNb.send / receive against a demonic
os.write / os.read, and Driver.tx / _serviceOneTx / serviceTxes / serviceTxOnce / serviceReceives /
serviceReceiveOnce modularly against those two contracts.

Statement (C24): the bytes accepted by the device are exactly the concatenation of the queued data in queue order
(nothing lost, repeated or reordered, for every pattern of partial writes and would-block results); received
chunks are appended to the receive buffer in arrival order.  (C25, would-block): EAGAIN on write/read is "nothing
moved" (0 / empty), any other error propagates.
"""
from pyvc.api import *
from pyvc import builtins_ as B
from contracts import c24_streams as S       # DequeB / BArr / flat / ghost accumulators / doubles
from contracts.transport_decl import _raise_sockerr
import errno as _errno
import os as _os
import z3

F = "ioflo/aio/serial/serialing.py"

classdecl("DeviceNb", file=F, fields=dict(fd=INT, bs=INT, opened=BOOL, wire=BYTES, got=BYTES))
classdecl("SerDriver", file=F, fields=dict(server=Ref("DeviceNb"), txes=Ref("DequeB"), rxbs=Ref("BArr"), name=STR))
REG.classes["SerDriver"].source = "Driver"


def _dev_of(E):
    """the device object whose method is being executed (os.write / os.read address it through its fd)"""
    for fr in reversed(E.frames):
        v = fr.env.get("self")
        if isinstance(v, RefV) and v.cls == "DeviceNb":
            return v
    raise Unsupported("os.read/os.write outside a DeviceNb method")


@external("os.write", obj=_os.write)
def _os_write(E, args, kwargs):
    dev = _dev_of(E)
    if E.choose(2) == 1:
        _raise_sockerr(E, [OSError])
    zb = zbytes(args[1])
    n = E.fresh("written", z3.IntSort())
    E.assume(z3.And(n >= 0, n <= z3.Length(zb)))
    E.wr_field(dev, "wire", Sym(z3.Concat(zbytes(E.rd_field(dev, "wire")), z3.Extract(zb, 0, n)), "bytes"))
    return Sym(n, "int")


@external("os.read", obj=_os.read)
def _os_read(E, args, kwargs):
    dev = _dev_of(E)
    if E.choose(2) == 1:
        _raise_sockerr(E, [OSError])
    d = E.fresh("rd", SeqInt)
    E.assume(z3.Length(d) <= zint(args[1]))
    E.wr_field(dev, "got", Sym(z3.Concat(zbytes(E.rd_field(dev, "got")), d), "bytes"))
    return Sym(d, "bytes")


REG.assume_note("serial device (assumed external contract): os.write(fd, data) accepts any prefix of data (ghost `wire` "
                "of the device grows by exactly that prefix) or raises OSError with any errno and the wire unchanged; "
                "os.read(fd, n) returns any byte string of length <= n (ghost `got` grows by it) or raises likewise")

EAGAIN = _errno.EAGAIN
P = dict(self=Ref("DeviceNb"))
contract(F, "DeviceNb.send", "C24,C25", params=dict(P, data=BYTES), setup=S.sock_setup, modifies=["self.wire"],
         ensures=["0 <= result and result <= len(data)", "self.wire == old(self.wire) + data[:result]",
                  "implies(sock_raised, errno == %d and result == 0)" % EAGAIN],
         raises={"OSError": ["errno != %d" % EAGAIN, "self.wire == old(self.wire)"]},
         returns=INT)
contract(F, "DeviceNb.receive", "C24,C25", params=dict(P), setup=S.sock_setup, requires=["self.bs >= 0"],
         modifies=["self.got"],
         ensures=["self.got == old(self.got) + result",
                  "implies(sock_raised, errno == %d and len(result) == 0)" % EAGAIN],
         raises={"OSError": ["errno != %d" % EAGAIN, "self.got == old(self.got)"]},
         returns=BYTES)

D = dict(self=Ref("SerDriver"))
WF = ["self.txes.lo <= self.txes.hi"]
CONS = "self.server.wire + flat(self.txes) == old(self.server.wire) + old(flat(self.txes))"

contract(F, "Driver.tx", "C24", params=dict(D, data=BYTES), requires=WF,
         modifies=["self.txes.hi", "self.txes.buf[*]"],
         ensures=["flat(self.txes) == old(flat(self.txes)) + data", "self.txes.lo == old(self.txes.lo)"])

contract(F, "Driver._serviceOneTx", "C24", params=D, requires=["self.txes.lo < self.txes.hi"],
         modifies=["self.server.wire", "self.txes.lo", "self.txes.buf[*]"],
         ensures=[CONS, "self.txes.lo <= self.txes.hi", "self.txes.hi == old(self.txes.hi)",
                  # blocked (False) exactly when an unsent suffix went back to the FRONT of the queue
                  "implies(result, self.txes.lo == old(self.txes.lo) + 1)",
                  "implies(not result, self.txes.lo == old(self.txes.lo) and self.txes.lo < self.txes.hi)"],
         raises={"OSError": ["True"]}, returns=BOOL,
         note="an error other than would-block propagates; the message being written at that moment is not requeued "
              "(outside the statement's quantifier: partial writes and would-block)")

contract(F, "Driver.serviceTxes", "C24", params=D, requires=WF,
         modifies=["self.server.wire", "self.txes.lo", "self.txes.buf[*]"],
         loops={0: dict(inv=[CONS, "self.txes.lo <= self.txes.hi", "self.txes.hi == old(self.txes.hi)"])},
         ensures=[CONS, "self.txes.hi == old(self.txes.hi)", "self.txes.lo <= self.txes.hi"],
         raises={"OSError": ["True"]})

contract(F, "Driver.serviceTxOnce", "C24", params=D, requires=WF,
         modifies=["self.server.wire", "self.txes.lo", "self.txes.buf[*]"],
         ensures=[CONS, "self.txes.hi == old(self.txes.hi)", "self.txes.lo <= self.txes.hi"],
         raises={"OSError": ["True"]})

RXG = "self.rxbs.content == old(self.rxbs.content) + %s and self.server.got == old(self.server.got) + %s"
contract(F, "Driver.serviceReceives", "C24", params=D, requires=["self.server.bs >= 0"],
         setup=S.ghost_acc_setup, ghost={"after": {"data = self.server.receive()": S._acc_rcvd}},
         modifies=["self.server.got", "self.rxbs.content"],
         loops={0: dict(inv=[RXG % ("g_acc", "g_acc"), "self.server.bs >= 0"], locals={"g_acc": BYTES})},
         ensures=[RXG % ("L_g_acc", "L_g_acc")],
         raises={"OSError": ["True"]})
contract(F, "Driver.serviceReceiveOnce", "C24", params=D, requires=["self.server.bs >= 0"],
         setup=S.ghost_acc_setup, ghost={"after": {"data = self.server.receive()": S._acc_rcvd}},
         modifies=["self.server.got", "self.rxbs.content"],
         ensures=[RXG % ("L_g_acc", "L_g_acc")],
         raises={"OSError": ["True"]})
