"""C29 beyond the line level (development: listed in registry/C29.dev.txt, read only with PYVC_DEV=1):
parseChunk of ioflo/aio/http/httping.py through the PHASE extraction `pyvc.builtins_.extract_phases` (tags "phases",
"phase=K"), and the packChunk / parseChunk inverse lemma as a composed contract.

parseChunk is a sequence of wait loops (size line, [trailers | chunk data, chunk end line]) that yield None without
consuming anything until their input is there, then one final yield of (size, parms, trails, chunk).  The step of
phase K = resume at the head of wait loop K (0: the first next()) and run to the next yield.  Inner generators:
next(lineParser) is the parseLine step contract (modular, marks (CRLF,)); next(leaderParser) is a LOOP of parseLeader
passes and enters as an assumed summary (derived from the parseLeader pass contract by induction; listed).

Framing (the statement's "chunked with extensions and trailers"), on the snapshot raw0 of the buffer:
    p1   = position of the first CRLF           size line = raw0[0:p1]
    semi = position of the first ';' in it      size text = raw0[0:semi] stripped of blanks = raw0[slo:shi]
    SZ   = int(size text, 16)                   D0 = p1 + 2
    chunk data = raw0[D0 : D0+SZ], followed by CRLF; consumed = D0 + SZ + 2; what follows is left untouched.
Chunk-extension parameters are parsed by the code but are not part of what the statement compares (start line,
headers, body, trailers): the extension loop is abstracted by an invariant that says it touches neither the buffer
nor the size.
"""
from pyvc.api import *
from pyvc import builtins_ as B
from pyvc.engine import PyRaise
from contracts.lib import *
from contracts import c33_lines as L
import z3

F = L.F
BA = L.BA
CRLF1 = (b"\r\n",)
WS = L.PY_BYTES_WS          # bytes.strip() whitespace


# ------------------------------------------------------------------------------------------ extra externals
_old_decode = REG.externals["list.decode"]


@external("list.decode")
def _decode(E, args, kw):
    lv = args[0]
    codec = args[1] if len(args) > 1 else kw.get("encoding", "utf-8")
    if isinstance(codec, str) and codec.lower() in ("ascii", "us-ascii"):
        # ascii: every byte < 128 (else UnicodeDecodeError); the text is the same sequence of code points
        a = E.larrs(lv)[0]
        q = E.fresh("qa", z3.IntSort())
        ok = L._all(q, z3.Implies(z3.And(q >= 0, q < E.llen(lv)), z3.Select(a, q) < 128), a)
        if E.choose(2) == 1:
            E.assume(z3.Not(ok))
            raise PyRaise(ExcV(UnicodeDecodeError, ("ascii", b"", 0, 1, "ordinal not in range(128)")))
        E.assume(ok)
        return L._sub(E, lv, z3.IntVal(0), E.llen(lv), kind="latin1")
    return _old_decode(E, args, kw)


_HEXLEN = z3.Function("hexlen", z3.IntSort(), z3.IntSort())
_HEXDIG = z3.Function("hexdig", z3.IntSort(), z3.IntSort(), z3.IntSort())
_old_int = REG.externals["int(str)"]


def hex_facts(E, n):
    """library facts about format(n, 'x') for n >= 0: at least one character, every character in 0-9a-f"""
    k = E.fresh("khx", z3.IntSort())
    d = _HEXDIG(n, k)
    E.assume(_HEXLEN(n) >= 1)
    E.assume(z3.ForAll([k], z3.Implies(z3.And(k >= 0, k < _HEXLEN(n)),
                                       z3.Or(z3.And(d >= 48, d <= 57), z3.And(d >= 97, d <= 102))), patterns=[d]))


@external("int(str)")
def _int16(E, args, kw):
    """int(text, 16): raises ValueError or returns an int v (recorded with the text in the ghost table `hexints`).
    Library fact (the inverse pair): int(format(n, 'x'), 16) == n, i.e. if the text is hexdig(n, 0..hexlen(n)-1)
    for some n >= 0 then the call succeeds and v == n."""
    if len(args) == 2 and args[1] == 16 and isinstance(args[0], ListV):
        lv = args[0]
        arr, n = E.larrs(lv)[0], E.llen(lv)
        v = E.fresh("hexint", z3.IntSort())
        okc = E.fresh("hexok", z3.BoolSort())
        m = z3.Int("m!hx%d" % next(E.counter))
        k = z3.Int("k!hx%d" % next(E.counter))
        same = z3.And(m >= 0, n == _HEXLEN(m),
                      z3.ForAll([k], z3.Implies(z3.And(k >= 0, k < n), z3.Select(arr, k) == _HEXDIG(m, k))))
        E.assume(z3.ForAll([m], z3.Implies(same, z3.And(okc, v == m)), patterns=[_HEXLEN(m)]))
        E.ghost["hexints"] = E.ghost.get("hexints", []) + [(arr, n, v)]
        if not E.branch(okc):
            raise PyRaise(ExcV(ValueError, ("invalid literal for int() with base 16",)))
        return Sym(v, "int")
    return _old_int(E, args, kw)


@external("list.split")
def _split_all(E, args, kw):
    """x.split(sep) without a count: SOME non-empty list of byte strings (sound over-approximation: the pieces are
    not characterised; only the chunk-extension loop, whose result the statement does not compare, uses it)"""
    if len(args) == 2 and not kw:
        lv = args[0]
        out = E.new_list(List(lv.et), E.fresh("nsplit", z3.IntSort()))
        E.assume(E.llen(out) >= 1)
        return out
    return L._l_split(E, args, kw)


REG.assume_note("bytes.decode('ascii'): UnicodeDecodeError iff some byte >= 128, else the same code points.  "
                "int(text, 16): ValueError or an int; the inverse pair format(n, 'x') = hexdig(n, 0..hexlen(n)-1), "
                "characters in 0-9a-f, int(format(n, 'x'), 16) == n for n >= 0.  x.split(b';') without count: an "
                "uncharacterised non-empty list of byte strings (used by the chunk-extension loop only)")


# ------------------------------------------------------------------------------------------ parms / trails models
classdecl("ChunkParms", file=None, fields=dict(nset=INT))
_old_odict_ctor = REG.classes["odict"].hooks.get(("ctor", None))


def _odict_ctor(E, cv, args, kwargs):
    if not args and not kwargs:
        o = RefV(E.new_ref(), "ChunkParms", nn=True)          # parms = odict(): chunk-extension parameters
        E.wr_field(o, "nset", 0)
        return o
    return _old_odict_ctor(E, cv, args, kwargs)


REG.classes["odict"].hooks[("ctor", None)] = _odict_ctor


@hook("ChunkParms", "setitem")
def _parms_set(E, o, key, val):
    E.wr_field(o, "nset", Sym(zint(E.rd_field(o, "nset")) + 1, "int"))      # contents not modelled (not compared)


def _trails_update(E, o):
    def upd(E2, other):
        # trails.update(headers): every header set on `headers` is set on `trails`, in order (ghost logs)
        for attr in ("log_k", "log_v"):
            B.list_method(E2, E2.rd_field(o, attr), "extend", [E2.rd_field(other, attr)], {})
        n = E2.fresh("lod_n", z3.IntSort())
        E2.assume(z3.And(n >= zint(E2.rd_field(o, "n")), n <= zint(E2.rd_field(o, "n")) + zint(E2.rd_field(other, "n"))))
        E2.wr_field(o, "n", Sym(n, "int"))
        return None
    upd._specfunc = True
    return upd


REG.classes["lodict"].hooks[("getattr", "update")] = _trails_update


@external("next:parseLeader")
def _next_leader(E, args, kw):
    """ASSUMED summary of next(leaderParser) for parseLeader(raw, eols=(CRLF, LF)) with a fresh header table: a loop
    of parseLeader passes (each verified: contracts/c33_lines.py) until one emits.  Either it yields None - the
    buffer then holds no complete line, i.e. no LF (complete header lines before it were consumed and set) - or it
    yields the header table, having consumed the header lines up to and including the first EMPTY line; bytes after
    that line are untouched.  May raise what a pass may raise.  Only the consumption facts are stated here: `lead_end`
    (ghost) is the position just after the first empty line of the buffer at the time of the call."""
    g = args[0]
    raw = g.env["raw"]
    # trailer lines are header lines: they end with CRLF (a bare LF is tolerated), never with a bare CR - with CR as
    # a mark a trailer's CRLF split across two receives would end the trailer early (cf. the C33 CR|LF finding)
    marks = tuple(bytes(e) for e in g.env.get("eols", ()))
    pc_ = E.pc
    E.pc = []                  # a concrete fact about the code: decided without the (quantified) path condition
    try:
        E.oblige("call-pre", z3.BoolVal(marks == (b"\r\n", b"\n")),
                 "trailer lines are parsed with the leader's marks (CRLF, LF): got %r" % (marks,), assume_after=False)
    finally:
        E.pc = pc_
    if "headers_obj" not in g.env:
        h = RefV(E.new_ref(), "lodict", nn=True)               # created by the prologue at the first next()
        E.wr_field(h, "log_k", E.new_list(L.BA, 0))
        E.wr_field(h, "log_v", E.new_list(L.BA, 0))
        E.wr_field(h, "n", 0)
        g.env["headers_obj"] = h
    h = g.env["headers_obj"]
    n0, a0 = E.llen(raw), E.larrs(raw)[0]
    which = E.choose(3)
    if which == 2:
        raise PyRaise(ExcV(ValueError, ("malformed trailer line",)))
    # the passes consume a prefix of the buffer made of complete lines and set headers
    c = E.fresh("lead_cons", z3.IntSort())
    E.assume(z3.And(c >= 0, c <= n0))
    k = E.fresh("klead", z3.IntSort())
    newarr = E.fresh("lead_arr", a0.sort())
    E.assume(z3.ForAll([k], z3.Select(newarr, k) == z3.Select(a0, k + c), patterns=[z3.Select(newarr, k)]))
    E.set_llen(raw, n0 - c)
    E.set_larrs(raw, [newarr])
    for attr in ("log_k", "log_v"):
        lv = E.rd_field(h, attr)
        E.set_llen(lv, E.fresh("lead_nh", z3.IntSort()))
        E.assume(E.llen(lv) >= 0)
        E.set_larrs(lv, [E.fresh("lead_h", x.sort()) for x in E.larrs(lv)])
    E.wr_field(h, "n", Sym(E.fresh("lead_n", z3.IntSort()), "int"))
    E.ghost["lead_cons"] = Sym(c, "int")
    q = E.fresh("qlead", z3.IntSort())
    if which == 0:
        # None: what is left holds no LF (no complete line)
        E.assume(L._all(q, z3.Implies(z3.And(q >= c, q < n0), z3.Select(a0, q) != 10), a0))
        E.ghost["lead_done"] = False
        return None
    # headers: the consumed part ends with an empty line = a line end (LF) directly followed by CRLF or LF, or the
    # buffer started with one; c is just after it, and it is the FIRST empty line
    e = E.fresh("lead_e", z3.IntSort())          # start of the empty line
    E.assume(z3.And(e >= 0, e < c, z3.Or(e == 0, z3.Select(a0, e - 1) == 10),
                    z3.Or(z3.And(c == e + 2, z3.Select(a0, e) == 13, z3.Select(a0, e + 1) == 10),
                          z3.And(c == e + 1, z3.Select(a0, e) == 10))))
    E.assume(L._all(q, z3.Implies(z3.And(q >= 0, q < e, z3.Or(q == 0, z3.Select(a0, q - 1) == 10)),
                                  z3.And(z3.Select(a0, q) != 10,
                                         z3.Not(z3.And(z3.Select(a0, q) == 13, z3.Select(a0, q + 1) == 10)))), a0))
    E.ghost["lead_done"] = True
    return h


REG.assume_note("ASSUMED (not mechanised): the summary of next(leaderParser) in parseChunk's trailer phase - a loop of "
                "parseLeader passes (each pass IS verified) consumes whole lines only, yields None when no LF is left, "
                "or yields the header table just after the first empty line; derived from the pass contract by "
                "induction over the passes.  Chunk-extension parameters (parms) are not modelled beyond a counter.")


# ------------------------------------------------------------------------------------------ ghosts of the framing
def _chunk_ghosts(E):
    """raw0 and the positions of the size line: pstar (first CRLF, len(raw0) if none), semi (first ';' of the size line,
    pstar if none), slo / shi (the size text raw0[slo:shi] = raw0[0:semi] without surrounding blanks)"""
    env = E.frame.env
    env["eols"] = CRLF1
    E.ghost["lead_done"], E.ghost["lead_cons"] = False, 0          # set by the leader summary when it is reached
    L._line_ghosts(colon=False)(E)
    raw0 = env["raw0"]
    a = E.larrs(raw0)[0]
    ps = zint(env["pstar"])
    semi = L._first(E, "semi", z3.IntVal(0), ps, lambda q: z3.Select(a, q) == 59, a)
    keep = lambda t: z3.And(*[z3.Select(a, t) != w for w in WS])
    slo = L._first(E, "slo", z3.IntVal(0), semi, keep, a)
    shi = E.fresh("shi", z3.IntSort())
    q = E.fresh("qshi", z3.IntSort())
    E.assume(z3.And(shi >= slo, shi <= semi))
    E.assume(z3.Implies(shi > slo, keep(shi - 1)))
    E.assume(z3.Implies(slo < semi, shi > slo))
    E.assume(L._all(q, z3.Implies(z3.And(q >= shi, q < semi), z3.Not(keep(q))), a))
    env["semi"], env["slo"], env["shi"] = Sym(semi, "int"), Sym(slo, "int"), Sym(shi, "int")


def n_chunk_positions(buf):
    buf = bytes(buf)
    p = buf.find(b"\r\n")
    ps = len(buf) if p < 0 else p
    line = buf[:ps]
    s = line.find(b";")
    semi = ps if s < 0 else s
    txt = line[:semi]
    slo = len(txt) - len(txt.lstrip())
    shi = len(txt.rstrip()) if txt.strip() else slo
    return {"pstar": ps, "semi": semi, "slo": slo, "shi": shi}


@specfunc
def size_is(E, x, buf, lo, hi):
    """x is the int that int(text, 16) returned on this path for a text equal to buf[lo:hi]"""
    lo, hi = zint(lo), zint(hi)
    a = E.larrs(buf)[0]
    outs = []
    for (arr, n, v) in E.ghost.get("hexints", []):
        k = z3.Int("k!sz%d" % next(E.counter))
        outs.append(z3.And(zint(x) == v, n == hi - lo,
                           z3.ForAll([k], z3.Implies(z3.And(k >= 0, k < n), z3.Select(arr, k) == z3.Select(a, lo + k)))))
    return Sym(z3.Or(*(outs or [z3.BoolVal(False)])), "bool")


@specfunc
def data_is(E, x, buf, lo, hi):
    """x (a bytearray, or the concrete empty bytearray() of the last chunk) == buf[lo:hi] pointwise"""
    if isinstance(x, (bytes, bytearray)):
        lo_, hi_ = zint(lo), zint(hi)
        a = E.larrs(buf)[0]
        return Sym(z3.And(hi_ - lo_ == len(x), *[z3.Select(a, lo_ + j) == x[j] for j in range(len(x))]), "bool")
    return is_slice(E, x, buf, lo, hi)


data_is.native = lambda x, buf, lo, hi: bytes(x) == bytes(buf)[lo:hi]


@specfunc
def fresh_data(E, x):
    return True if isinstance(x, (bytes, bytearray)) else fresh(E, x)


def _n_size_is(x, buf, lo, hi):
    try:
        return x == int(bytes(buf[lo:hi]).decode("ascii"), 16)
    except ValueError:
        return False


size_is.native = _n_size_is


def _line_gen(kind):
    def mk(E):
        node = E.repo.func(F, "parseLine")
        c = E.reg.contracts[(F, "parseLine")][0]
        raw = ListV(z3.IntVal(1000001), INT, kind="bytearray")
        return B.GenV(FuncV(F, "parseLine", node), {"raw": raw, "eols": CRLF1, "kind": kind}, c)
    return mk


def _setup0(E):
    E.snap_ctr = 0          # modular parseLine calls get ghost snapshots of their own (see c33_lines._snap)
    L._seq(L._pin(raw=1000001), _chunk_ghosts, L._bytearray_kind("raw"))(E)


def _pin_state(E):
    """the step-state objects of a resumed parseChunk: parms and trails are objects of their own, and so are the ghost
    logs of the trailer table (they exist only in the proof)"""
    L._pin(parms=1000040, trails=1000041)(E)
    h = E.frame.env.get("trails")
    if isinstance(h, RefV):
        for attr, c in (("log_k", 1000042), ("log_v", 1000043)):
            lv = E.rd_field(h, attr)
            E.assume(lv.t == c)
            E.wr_field(h, attr, ListV(z3.IntVal(c), lv.et))


def _not_dep(E, *a):
    # the parseLine clauses relied on here (LINE_ENSURES with marks (CRLF,)) are verified in the C29 run itself as
    # parseLine[v2][case1] (same clause list); the event-stream variants of parseLine are C33's business
    E.called.discard((F, "parseLine"))


def _kind_line(E):
    env = E.frame.env
    ln = env.get("line")
    if isinstance(ln, ListV):
        ln.kind = "bytearray"
    # proof cut: the callee's post relates the new buffer to the old one in the forward direction only
    # (new[j] == old[j + off]); the same fact re-indexed (raw0[k] == new[k - off]) is PROVED here and then available with
    # the trigger raw0[k], so that positions named on the snapshot reach the facts stated on the current buffer
    raw, raw0 = env.get("raw"), env.get("raw0")
    if isinstance(raw, ListV) and isinstance(raw0, ListV):
        ra, a0 = E.larrs(raw)[0], E.larrs(raw0)[0]
        if z3.is_const(ra) and not ra.eq(a0):
            off = E.llen(raw0) - E.llen(raw)
            k = E.fresh("kcut", z3.IntSort())
            body = z3.Implies(z3.And(k >= off, k < E.llen(raw0)), z3.Select(a0, k) == z3.Select(ra, k - off))
            E.oblige("cut", z3.ForAll([k], body), "buffer after next(lineParser) == raw0 shifted (re-indexed)",
                     assume_after=False)
            E.assume(z3.ForAll([k], body, patterns=[z3.Select(a0, k)]))


N = "len(raw0)"
D0 = "(pstar + 2)"
DE = "(pstar + 2 + L_size)"            # end of the chunk data
CHUNK_ENSURES = [
    # phase 1: no complete size line yet - wait, nothing consumed
    "implies(step_phase == 1, pstar == len(raw0) and seq_eq(raw, raw0) and result is None)",
    "implies(pstar == len(raw0), step_phase == 1)",
    # the size is what int(., 16) reads from the size text (before any ';', blanks stripped)
    "implies(pstar < len(raw0), size_is(L_size, raw0, slo, shi))",
    # phase 3: size line consumed, fewer than `size` data bytes there - wait, data untouched
    "implies(step_phase == 3, L_size > 0 and is_slice(raw, raw0, %s, %s) and len(raw) < L_size and result is None)" % (D0, N),
    "implies(pstar < len(raw0) and L_size > 0 and len(raw0) - %s < L_size, step_phase == 3)" % D0,
    # phase 4: the chunk is exactly the next `size` bytes; its terminating CRLF is not there yet - wait
    # (a NEGATIVE size - int() accepts a sign - also gets here: malformed, outside the statement; see findings)
    "implies(step_phase == 4 and L_size > 0, is_slice(L_chunk, raw0, %s, %s) and is_slice(raw, raw0, %s, %s) and "
    "no_eol_in(raw0, %s, %s, %s, eols) and result is None)" % (D0, DE, DE, N, DE, N, N),
    # finished, data chunk: (size, parms, trails, chunk) with chunk == exactly the `size` bytes after the size line,
    # CRLF after them, consumed exactly size line + CRLF + data + CRLF, what follows is untouched
    "implies(step_phase == -1 and L_size > 0, result[0] == L_size and data_is(result[3], raw0, %s, %s) and "
    "eol_at(raw0, %s, %s, eols) and is_slice(raw, raw0, %s + 2, %s))" % (D0, DE, DE, N, DE, N),
    "implies(step_phase == -1 and L_size > 0, fresh_data(result[3]))",
    "implies(pstar < len(raw0) and L_size > 0 and len(raw0) >= %s + 2 and eol_at(raw0, %s, %s, eols), step_phase == -1)"
    % (DE, DE, N),
    # last chunk (size 0): trailers through the leader parser (assumed summary): size line + what the leader consumed
    "implies(step_phase == 2, L_size == 0 and result is None and is_slice(raw, raw0, %s + lead_cons, %s))" % (D0, N),
    "implies(step_phase == -1 and L_size == 0, result[0] == 0 and len(result[3]) == 0 and lead_done and "
    "is_slice(raw, raw0, %s + lead_cons, %s))" % (D0, N),
    "step_emit and (step_phase == -1) == (result is not None)",
]
CHUNK_RAISES = {"ValueError": ["pstar < len(raw0)"], "UnicodeDecodeError": ["pstar < len(raw0)"],
                "LineTooLong": ["True"], "HTTPException": ["pstar < len(raw0)"]}
EXT_LOOP = {1: dict(inv=["is_slice(raw, raw0, pstar + 2, len(raw0))", "size_is(size, raw0, slo, shi)"], locals={})}
MODS = ["raw[*]"]


# ------------------------------------------------------------------------------------------ native harness
def _yield_lines(mod):
    import ast as _ast
    import inspect
    src = inspect.getsource(mod.parseChunk)
    fn = _ast.parse(src).body[0]
    base = mod.parseChunk.__code__.co_firstlineno - 1
    out = []
    for n in _ast.walk(fn):
        if isinstance(n, _ast.While) and isinstance(n.body[-1], _ast.Expr) and isinstance(n.body[-1].value, _ast.Yield):
            out.append(n.body[-1].lineno + base)
    return sorted(out)


SIZE_LINES = [b"5", b"5;x=1", b" 5 ", b"a", b"A;ext", b"0", b"00", b"5;a=1;b", b"zz", b"", b"-3", b"1f"]


def _mk_chunk(phase):
    def make(rng, i, cex, nr):
        mod = nr.mod
        data = L.rand_bytes(rng, 0, 12, alphabet=b"ab\r\n;")
        sl = rng.choice(SIZE_LINES)
        r = rng.random()
        if r < 0.5:
            try:
                n = int(sl.split(b";")[0].strip().decode(), 16)
            except ValueError:
                n = 3
            n = max(0, min(n, 40))
            data = bytes(rng.choice(b"ab\r\n;") for _ in range(n)) + rng.choice([b"\r\n", b"\r\n", b"", b"\r", b"x\r\n"])
        first = sl + rng.choice([b"\r\n", b"\r\n", b"\r\n", b"", b"\r"])
        rest = L.rand_bytes(rng, 0, 6, alphabet=b"ab\r\n")
        whole = first + data + rest
        cut = rng.choice([0, 0, len(first), rng.randint(0, len(whole))]) if phase else 0
        raw = bytearray(whole[:cut])
        gen = mod.parseChunk(raw)
        env = {"raw": raw, "_gen": gen, "eols": CRLF1}
        if phase:
            # bring the generator into the wanted phase by feeding a prefix first
            try:
                r0 = next(gen)
            except Exception:
                return None
            fr = gen.gi_frame
            lines = _yield_lines(mod)
            if r0 is not None or fr is None or lines.index(fr.f_lineno) + 1 != phase:
                return None
            raw.extend(whole[cut:])
            loc = fr.f_locals
            for k in ("size", "parms", "trails", "chunk"):
                env[k] = loc[k]
        else:
            raw.extend(whole)
        env["raw0"] = bytes(raw)
        env.update(n_chunk_positions(env["raw0"]))
        return env
    return make


def _call_chunk(env, nr):
    env["_res"] = None
    env["_res"] = next(env["_gen"])
    return env["_res"]


def _view_chunk(env, nr):
    d = L._view(env, nr)
    fr = env["_gen"].gi_frame
    if fr is None:
        d["step_phase"] = -1
        if env.get("_res") is not None:
            d["L_size"], d["L_chunk"] = env["_res"][0], env["_res"][3]
    elif fr.f_lasti >= 0 and fr.f_lineno in _yield_lines(nr.mod):
        d["step_phase"] = _yield_lines(nr.mod).index(fr.f_lineno) + 1
    if fr is not None:
        for k, v in fr.f_locals.items():
            d["L_" + k] = v
    d["step_emit"] = True
    return d


# ------------------------------------------------------------------------------------------ parseChunk contracts
HOOKS = {"after": {"line = next(lineParser)": _kind_line}}
classdecl_ = None
PSTATE = dict(parms=Ref("ChunkParms"), trails=Ref("lodict"))

contract(F, "parseChunk", "C29", tags=("phases", "phase=0", "logic=AUFLIA"), params=dict(raw=BA), setup=_setup0,
         ghost=HOOKS, loops=EXT_LOOP, modifies=MODS, ensures=CHUNK_ENSURES, raises=CHUNK_RAISES,
         replay=dict(make=_mk_chunk(0), call=_call_chunk, view=_view_chunk, count=500),
         note="first next() on parseChunk: runs as far as the bytes allow; step_phase = wait loop it suspends in "
              "(1 size line, 2 trailers, 3 chunk data, 4 chunk end line) or -1 when the chunk tuple is yielded")
contract(F, "parseChunk", "C29", tags=("phases", "phase=1", "logic=AUFLIA"),
         params=dict(raw=BA, size=("const", 0), chunk=("const", b""), lineParser=_line_gen("chunk size line"), **PSTATE),
         setup=L._seq(_setup0, _pin_state), ghost=HOOKS, loops=EXT_LOOP,
         modifies=MODS + ["parms.nset", "trails.log_k[*]", "trails.log_v[*]", "trails.n"],
         ensures=CHUNK_ENSURES + ["implies(step_phase == -1, result[1] is parms and result[2] is trails)"],
         raises=CHUNK_RAISES, replay=dict(make=_mk_chunk(1), call=_call_chunk, view=_view_chunk, count=500),
         note="resumption in the size-line wait: same post-conditions as the first next()")


def _setup_data(E):
    E.snap_ctr = 0
    L._seq(L._pin(raw=1000001), L._snap(), L._bytearray_kind("raw"))(E)
    E.frame.env["eols"] = CRLF1


contract(F, "parseChunk", "C29", tags=("phases", "phase=3", "logic=AUFLIA"),
         params=dict(raw=BA, size=INT, chunk=("const", b""), **PSTATE), setup=L._seq(_setup_data, _pin_state), ghost=HOOKS,
         requires=["size > 0"], modifies=MODS,
         ensures=[
             "implies(len(raw0) < size, step_phase == 3 and seq_eq(raw, raw0) and result is None)",
             "implies(step_phase == 3, len(raw0) < size)",
             "implies(step_phase == 4, is_slice(L_chunk, raw0, 0, size) and is_slice(raw, raw0, size, len(raw0)) and "
             "no_eol_in(raw0, size, len(raw0), len(raw0), eols) and result is None)",
             "implies(step_phase == -1, result[0] == size and result[1] is parms and result[2] is trails and "
             "data_is(result[3], raw0, 0, size) and fresh_data(result[3]) and eol_at(raw0, size, len(raw0), eols) and "
             "is_slice(raw, raw0, size + 2, len(raw0)))",
             "implies(len(raw0) >= size + 2 and eol_at(raw0, size, len(raw0), eols), step_phase == -1)",
             "step_emit and step_phase in (3, 4, -1) and (step_phase == -1) == (result is not None)",
         ],
         raises={"ValueError": ["len(raw0) >= size and has_eol(raw0, len(raw0), eols) and "
                                "not eol_at(raw0, size, len(raw0), eols)"], "LineTooLong": ["True"]},
         replay=dict(make=_mk_chunk(3), call=_call_chunk, view=_view_chunk, count=500),
         note="resumption in the chunk-data wait (size > 0 is what suspending there implies)")


def _setup_end(E):
    E.snap_ctr = 0
    L._seq(L._pin(raw=1000001, chunk=1000020), L._snap(), L._bytearray_kind("raw", "chunk"))(E)
    E.frame.env["eols"] = CRLF1


contract(F, "parseChunk", "C29", tags=("phases", "phase=4", "logic=AUFLIA"),
         params=dict(raw=BA, size=INT, chunk=BA, lineParser=_line_gen("chunk end line"), **PSTATE), setup=L._seq(_setup_end, _pin_state),
         ghost=HOOKS, modifies=MODS,
         ensures=[
             "implies(not has_eol(raw0, len(raw0), eols), step_phase == 4 and seq_eq(raw, raw0) and result is None)",
             "implies(step_phase == -1, eol_at(raw0, 0, len(raw0), eols) and result[0] == size and result[1] is parms "
             "and result[2] is trails and result[3] is chunk and is_slice(raw, raw0, 2, len(raw0)))",
             "implies(eol_at(raw0, 0, len(raw0), eols), step_phase == -1)",
             "step_emit and step_phase in (4, -1) and (step_phase == -1) == (result is not None)",
         ],
         raises={"ValueError": ["has_eol(raw0, len(raw0), eols) and not eol_at(raw0, 0, len(raw0), eols)"],
                 "LineTooLong": ["True"]},
         replay=dict(make=_mk_chunk(4), call=_call_chunk, view=_view_chunk, count=500),
         note="resumption in the chunk-end-line wait: the chunk is already taken; CRLF must follow directly")


def _leader_gen(E):
    node = E.repo.func(F, "parseLeader")
    c = E.reg.contracts[(F, "parseLeader")][0]
    raw = ListV(z3.IntVal(1000001), INT, kind="bytearray")
    h = RefV(z3.IntVal(1000050), "lodict", nn=True)
    for attr, cid in (("log_k", 1000051), ("log_v", 1000052)):
        E.wr_field(h, attr, ListV(z3.IntVal(cid), L.BA))
    return B.GenV(FuncV(F, "parseLeader", node),
                  {"raw": raw, "eols": (b"\r\n", b"\n"), "kind": "trailer header line", "headers": None, "headers_obj": h}, c)


contract(F, "parseChunk", "C29", tags=("phases", "phase=2", "logic=AUFLIA"),
         params=dict(raw=BA, size=INT, chunk=("const", b""), leaderParser=_leader_gen, **PSTATE),
         setup=L._seq(_setup_data, _pin_state), requires=["size == 0"],
         modifies=MODS + ["trails.log_k[*]", "trails.log_v[*]", "trails.n"], frame=False,
         ensures=[
             "implies(step_phase == 2, result is None and not lead_done and is_slice(raw, raw0, lead_cons, len(raw0)))",
             "implies(step_phase == -1, lead_done and result[0] == 0 and result[1] is parms and result[2] is trails "
             "and len(result[3]) == 0 and is_slice(raw, raw0, lead_cons, len(raw0)))",
             "step_emit and step_phase in (2, -1) and (step_phase == -1) == (result is not None)",
         ],
         raises={"ValueError": ["True"]},
         note="resumption in the trailer wait (last chunk): consumption is what the leader parser consumed (assumed "
              "summary of next(leaderParser)); frame not checked (the summary havocs the leader's header table)")

# prefix stability: once the first n0 bytes hold the complete chunk (size line, data, CRLF), the step on ANY extension
# finishes with that chunk and consumes exactly those bytes
contract(F, "parseChunk", "C29", tags=("phases", "phase=0", "logic=AUFLIA"), params=dict(raw=BA, n0=INT),
         setup=_setup0, ghost=HOOKS, loops=EXT_LOOP, modifies=MODS, requires=["0 <= n0 and n0 <= len(raw)"],
         ensures=["implies(pstar + 2 <= n0 and L_size > 0 and %s + 2 <= n0 and eol_at(raw0, %s, n0, eols), "
                  "step_phase == -1 and len(raw0) - len(raw) == %s + 2 and data_is(result[3], raw0, %s, %s))"
                  % (DE, DE, DE, D0, DE)],
         raises=CHUNK_RAISES, note="split independence of a data chunk")


# ------------------------------------------------------------------------------------------ packChunk / parseChunk inverse
@specfunc
def packed(E, raw, msg):
    """raw starts with packChunk(msg) = format(len(msg), 'x') CRLF msg CRLF (pointwise; hexdig / hexlen are the
    characters and the length of the hex numeral), anything may follow"""
    n = E.llen(msg)
    hex_facts(E, n)
    hl = _HEXLEN(n)
    E.assume(hl <= 16)        # len(msg) < 2**63 (size of a bytes object): its hex numeral has at most 16 digits
    a, m = E.larrs(raw)[0], E.larrs(msg)[0]
    k = z3.Int("k!pk%d" % next(E.counter))
    return Sym(z3.And(E.llen(raw) >= hl + n + 4,
                      z3.ForAll([k], z3.Implies(z3.And(k >= 0, k < hl), z3.Select(a, k) == _HEXDIG(n, k)),
                                patterns=[z3.Select(a, k)]),
                      z3.Select(a, hl) == 13, z3.Select(a, hl + 1) == 10,
                      z3.ForAll([k], z3.Implies(z3.And(k >= 0, k < n), z3.Select(a, hl + 2 + k) == z3.Select(m, k)),
                                patterns=[z3.Select(m, k)]),
                      z3.Select(a, hl + 2 + n) == 13, z3.Select(a, hl + 3 + n) == 10), "bool")


@specfunc
def packed_len(E, msg):
    n = E.llen(msg)
    return Sym(_HEXLEN(n) + n + 4, "int")


packed.native = lambda raw, msg: bytes(raw).startswith(format(len(msg), "x").encode() + b"\r\n" + bytes(msg) + b"\r\n")
packed_len.native = lambda msg: len(format(len(msg), "x")) + len(msg) + 4


def _setup_inv(E):
    E.snap_ctr = 0
    L._seq(L._pin(raw=1000001, msg=1000060), _chunk_ghosts, L._bytearray_kind("raw", "msg"))(E)


def _mk_inverse(rng, i, cex, nr):
    msg = bytes(rng.randrange(256) for _ in range(rng.choice([1, 2, 5, 16, 17, 255, 256, 300])))
    rest = L.rand_bytes(rng, 0, 8, alphabet=b"ab\r\n;0")
    raw = bytearray(nr.mod.packChunk(msg) + rest)
    env = {"raw": raw, "msg": msg, "_gen": nr.mod.parseChunk(raw), "eols": CRLF1, "raw0": bytes(raw)}
    env.update(n_chunk_positions(env["raw0"]))
    return env


contract(F, "parseChunk", "C29", tags=("phases", "phase=0", "logic=AUFLIA"), params=dict(raw=BA, msg=BA),
         setup=_setup_inv, ghost=HOOKS, loops=EXT_LOOP, modifies=MODS,
         requires=["len(msg) > 0", "packed(raw, msg)"],
         ensures=["step_phase == -1",
                  "implies(step_phase == -1, result[0] == len(msg) and seq_eq(result[3], msg))",
                  "is_slice(raw, raw0, packed_len(msg), len(raw0))"],
         raises={},
         replay=dict(make=_mk_inverse, call=_call_chunk, view=_view_chunk, count=200),
         note="inverse lemma as a composed contract: parseChunk on packChunk(msg) ++ anything yields size == len(msg), "
              "chunk == msg and leaves exactly what followed (len(msg) > 0; the empty message packs to the LAST chunk, "
              "which goes through the trailer phase)")


# ------------------------------------------------------------------------------------------ native split independence
def _run_chunks(mod, pieces):
    """feed the pieces one receive at a time to a fresh parseChunk; returns (result or exception name, rest)"""
    raw = bytearray()
    gen = mod.parseChunk(raw)
    res = None
    fed = 0
    for p in pieces:
        raw.extend(p)
        fed += 1
        try:
            res = next(gen)
        except StopIteration:
            break
        except Exception as ex:
            return ("raised", type(ex).__name__), bytes(raw)
        if res is not None:
            break
    for p in pieces[fed:]:
        raw.extend(p)              # receives after the chunk was complete only extend what is left over
    if res is None:
        return None, bytes(raw)
    return (res[0], dict(res[2]), bytes(res[3])), bytes(raw)


def _split_check(env, nr, outcome, result, exc):
    """statement: any split of the bytes into successive receives parses like the whole.  Every two-way split of the
    buffer is replayed on the real generator whenever the whole buffer yields a complete chunk."""
    whole = env["raw0"]
    ref, rest = _run_chunks(nr.mod, [whole])
    if ref is None or ref[0] == "raised":
        return []
    out = []
    for cut in range(1, len(whole)):
        got, grest = _run_chunks(nr.mod, [whole[:cut], whole[cut:]])
        if (got, grest) != (ref, rest):
            out.append("split independence: %r | %r parses as %r leaving %r, the whole buffer as %r leaving %r"
                       % (whole[:cut], whole[cut:], got, grest, ref, rest))
            break
    return out


LAST_CHUNKS = [b"0\r\n\r\n", b"0\r\nA: b\r\n\r\n", b"0;x=1\r\nA: b\r\nC:d\r\n\r\n", b"0\r\nA: b\n\n", b"00\r\n\r\n"]


def _mk_whole(rng, i, cex, nr):
    if rng.random() < 0.5:
        whole = rng.choice(LAST_CHUNKS) + L.rand_bytes(rng, 0, 6, alphabet=b"ab\r\n")
    else:
        msg = L.rand_bytes(rng, 1, 9, alphabet=b"ab\r\n;")
        whole = nr.mod.packChunk(msg) + L.rand_bytes(rng, 0, 6, alphabet=b"ab\r\n")
    raw = bytearray(whole)
    env = {"raw": raw, "_gen": nr.mod.parseChunk(raw), "eols": CRLF1, "raw0": bytes(whole), "n0": len(whole)}
    env.update(n_chunk_positions(whole))
    return env


for _c in REG.contracts[(F, "parseChunk")]:
    if "n0" in _c.params:
        _c.replay = dict(make=_mk_whole, call=_call_chunk, view=_view_chunk, check=_split_check, count=300)


for _c in REG.contracts[(F, "parseChunk")]:
    _c.extra_posts = list(_c.extra_posts) + [_not_dep]
