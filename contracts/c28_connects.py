"""C28 (second half): who closes a server-side connection for idleness, and when.

Valet.serviceConnects / Porter.serviceConnects (ioflo/aio/http/serving.py): closeConnection(ca) is called for an
entry of the server's table exactly when the connection was cut off by the peer (Valet only) or
`ix.timeout > 0 and store stamp >= ix.timer.stop` (StoreTimer.expired through its C42 contract) - for every table
size, in table order.  Requestant.checkPersisted: a persisted connection (HTTP/1.1 without `close`, or HTTP/1.0 with
keep-alive) gets incomer.timeout = 0, hence is never closed by the rule above; a non-persisted one keeps its timeout.

Together with the first half (contracts/c24_streams.py: every send/receive that moves at least one byte restarts the
timer at the store stamp, Incomer and IncomerTls alike) the lemma at the end gives the statement: a connection is
closed for idleness only if no byte moved for at least `timeout`.
"""
from pyvc.api import *
from pyvc import builtins_ as B
from contracts import c24_streams as T      # Incomer declarations (timer, timeout, cutoff, refreshable) + StoreTimer
import z3

F = "ioflo/aio/http/serving.py"
HA = Opaque("ha")

classdecl("IxTable", fields=dict(n=INT, keys=List(HA), vals=List(Ref("Incomer"))))
classdecl("ServantLike", fields=dict(ixes=Ref("IxTable")))
classdecl("ReqLike", fields={})
classdecl("ValetLike", file=F, fields=dict(servant=Ref("ServantLike"), reqs=Dict(HA, Ref("ReqLike")),
                                           stewards=Dict(HA, Ref("ReqLike")), dictable=BOOL))
REG.classes["ValetLike"].source = "Valet"
classdecl("PorterLike", file=F, bases=("ValetLike",))
REG.classes["PorterLike"].source = "Porter"


@hook("IxTable", "getattr", "items")
def _ix_items(E, tab):
    """odict.items(): a list of (address, connection) pairs in table order, taken BEFORE the loop mutates the table
    (closeConnection removes entries of the live table, not of this list)"""
    def items(E2):
        n = zint(E2.rd_field(tab, "n"))
        E2.assume(n >= 0)
        ks, vs = E2.rd_field(tab, "keys"), E2.rd_field(tab, "vals")
        E2.assume(E2.llen(ks) == n)
        E2.assume(E2.llen(vs) == n)
        return B.AbstractIter(n, lambda E3, i: (E3.lget(ks, i), E3.lget(vs, i)))
    items._specfunc = True
    return items


REG.classes["ServantLike"].hooks[("getattr", "serviceConnects")] = opaque_method("Server.serviceConnects")
for _c in ("ValetLike",):
    REG.classes[_c].hooks[("getattr", "closeConnection")] = opaque_method("closeConnection")


def _new_req(E, cv, args, kwargs):
    return RefV(E.new_ref(), "ReqLike", nn=True)


classdecl("Requestant", fields={})
classdecl("Steward", fields={})
REG.classes["Requestant"].hooks[("ctor", None)] = _new_req
REG.classes["Steward"].hooks[("ctor", None)] = _new_req

REG.assume_note("C28 serviceConnects: servant.serviceConnects() (accepting new connections) and closeConnection(ca) "
                "are opaque traced calls assumed not to change timeout / cutoff / timer fields of the OTHER connections "
                "already listed by ixes.items(); Requestant(...) / Steward(...) construction is opaque; ixes.items() "
                "is a list of the table's (address, connection) pairs in table order")


# ghost: g_closed[i] := True right after a closeConnection(ca) statement executed in iteration i
def _setup_closed(E):
    lv = E.new_list(BOOL, E.fresh("nclosed", z3.IntSort()), [z3.K(z3.IntSort(), z3.BoolVal(False))])
    E.frame.env["g_closed"] = lv


def _mark_closed(E):
    env = E.frame.env
    lv = env["g_closed"]
    i = zint(env["_i"])
    E.set_larrs(lv, [z3.Store(E.larrs(lv)[0], i, z3.BoolVal(True))])


@specfunc
def closed_at(E, g, j):
    return Sym(z3.Select(E.larrs(g)[0], zint(j)), "bool")


@specfunc
def ix_at(E, self_, j):
    tab = E.rd_field(E.rd_field(self_, "servant"), "ixes")
    return E.lget(E.rd_field(tab, "vals"), zint(j))


@specfunc
def table_len(E, self_):
    tab = E.rd_field(E.rd_field(self_, "servant"), "ixes")
    return Sym(zint(E.rd_field(tab, "n")), "int")


def _idle(j):
    return ("(ix_at(self, %s).timeout > 0 and ix_at(self, %s).timer.store.stamp >= ix_at(self, %s).timer.stop)"
            % (j, j, j))


# class invariant of every connection in the table (TIMER_WF of contracts/c24_streams.py: established by
# Incomer.__init__, preserved by send / receive / refresh - proved there)
WF = ["forall(lambda j: implies(0 <= j and j < table_len(self), ix_at(self, j).timer.store.stamp is not None and "
      "ix_at(self, j).timer.store.stamp >= 0 and ix_at(self, j).timer.start >= 0 and ix_at(self, j).timer.duration >= 0 "
      "and ix_at(self, j).timer.stop == ix_at(self, j).timer.start + ix_at(self, j).timer.duration))"]


def _rule(with_cutoff):
    cond = ("(ix_at(self, j).cutoff or %s)" % _idle("j")) if with_cutoff else _idle("j")
    return cond


for _cls, _qual, _cut in (("ValetLike", "Valet.serviceConnects", True), ("PorterLike", "Porter.serviceConnects", False)):
    contract(F, _qual, "C28", params=dict(self=Ref(_cls)), requires=WF, setup=_setup_closed,
             ghost={"after": {"self.closeConnection(ca)": _mark_closed}},
             modifies=["self.reqs{*}", "self.stewards{*}"], frame=False,
             loops={0: dict(inv=["forall(lambda j: implies(0 <= j and j < _i, closed_at(g_closed, j) == %s))" % _rule(_cut),
                                 "forall(lambda j: implies(_i <= j, not closed_at(g_closed, j)))"] + WF,
                            locals={})},
             ensures=[
                 # closed exactly when cut off by the peer (Valet) or idle for the whole timeout with a positive timeout
                 "forall(lambda j: implies(0 <= j and j < table_len(self), closed_at(L_g_closed, j) == %s))" % _rule(_cut),
                 # a zero timeout (persisted connection) is never closed by the idle rule
                 "forall(lambda j: implies(0 <= j and j < table_len(self) and ix_at(self, j).timeout == 0"
                 + (" and not ix_at(self, j).cutoff" if _cut else "") + ", not closed_at(L_g_closed, j)))",
             ],
             note="the table entries' timeout / cutoff / timer fields are read, never written, by this function")


# ---- HTTP persistence switches the idle timer off ------------------------------------------------------------------
classdecl("Hdrs", fields=dict(conn=Opt(STR)))


@hook("Hdrs", "getattr", "get")
def _hdr_get(E, h):
    def get(E2, key, default=None):
        if key != "connection":
            raise Unsupported("headers.get(%r)" % (key,))
        return E2.rd_field(h, "conn")
    get._specfunc = True
    return get


classdecl("RequestantP", file=F, fields=dict(headers=Ref("Hdrs"), version=Tup(INT, INT), persisted=BOOL, chunked=BOOL,
                                             length=Opt(INT), incomer=Ref("Incomer")))
REG.classes["RequestantP"].source = "Requestant"
_LOWER = z3.Function("str_lower", z3.StringSort(), z3.StringSort())


@external("str.lower")
def _str_lower(E, args, kwargs):
    s = args[0]
    if isinstance(s, str):
        return s.lower()
    return Sym(_LOWER(zstr(s)), "str")


@specfunc
def has_token(E, conn, tok):
    """`tok in conn.lower()` for an optional header value (None / empty => False)"""
    if conn is None:
        return False
    if isinstance(conn, OptV):
        return Sym(z3.And(z3.Not(conn.isnone), z3.Length(zstr(conn.val)) > 0,
                          z3.Contains(_LOWER(zstr(conn.val)), zstr(tok))), "bool")
    return Sym(z3.And(z3.Length(zstr(conn)) > 0, z3.Contains(_LOWER(zstr(conn)), zstr(tok))), "bool")


has_token.native = lambda conn, tok: bool(conn) and tok in conn.lower()
REG.assume_note("checkPersisted: str.lower() is an uninterpreted function of the header value; `tok in s` is substring "
                "containment; headers.get('connection') reads the (optional) connection header")

V11 = "(self.version[0] == 1 and self.version[1] == 1)"
V10 = "(self.version[0] == 1 and self.version[1] == 0)"
PERSIST = ("((%s and not has_token(self.headers.conn, 'close') and (self.chunked or self.length is not None)) or "
           "(%s and has_token(self.headers.conn, 'keep-alive')))" % (V11, V10))


def _mk_req(rng, i, cex, nr):
    class _Ix(object):
        pass
    r = object.__new__(nr.mod.Requestant)
    ix = _Ix()
    ix.timeout = rng.choice([0.0, 0.5, 5.0])
    r.incomer = ix

    class _H(dict):
        @property
        def conn(self):
            return self.get("connection")
    h = _H()
    c = rng.choice([None, "", "close", "Close", "keep-alive", "Keep-Alive, x", "upgrade"])
    if c is not None:
        h["connection"] = c
    r.headers = h
    r.version = rng.choice([(1, 1), (1, 0), (0, 9), (2, 0)])
    r.persisted = rng.choice([True, False])
    r.chunked = rng.choice([True, False])
    r.length = rng.choice([None, 0, 10])
    return {"self": r}


contract(F, "Requestant.checkPersisted", "C28", params=dict(self=Ref("RequestantP")),
         modifies=["self.persisted", "self.incomer.timeout"],
         ensures=[
             # HTTP/1.1: persistent unless `close` (or neither chunked nor a content length); HTTP/1.0: only with keep-alive
             "implies(%s or %s, self.persisted == %s)" % (V11, V10, PERSIST),
             "implies(not (%s or %s), self.persisted == old(self.persisted))" % (V11, V10),
             # a persisted connection is exempt from the idle timer; any other keeps its configured timeout
             "implies(self.persisted, self.incomer.timeout == 0)",
             "implies(not self.persisted, self.incomer.timeout == old(self.incomer.timeout))",
         ],
         replay=dict(make=_mk_req, count=300))


# ---- the statement, from the two halves ------------------------------------------------------------------------------
def _idle_lemma():
    stamp, start, stop, dur, timeout, last = z3.Reals("stamp start stop dur timeout lastActive")
    pc = [
        dur == timeout,                     # Incomer.__init__: StoreTimer(duration=timeout)  (read, see note)
        stop == start + dur,                # StoreTimer invariant (C42)
        start >= last,                      # first half: every byte-moving send/receive restarted the timer at the stamp
        timeout > 0, stamp >= stop,         # the closing rule proved above
    ]
    return pc, stamp - last >= timeout


_pc, _goal = _idle_lemma()
REG.lemmas.append(("C28", "idle-close only after no byte moved for at least `timeout` "
                          "(timer.start >= last activity, stop == start + timeout, closed only if timeout > 0 and stamp >= stop)",
                   _pc, _goal))
REG.assume_note("C28 lemma premise read from the code, not verified: Incomer.__init__ creates its StoreTimer with "
                "duration == timeout and nothing else changes timer.duration (send/receive/refresh keep it: proved)")
