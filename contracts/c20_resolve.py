"""C20, builder side: WHERE the markers are placed.  NeedMarker._resolve (ioflo/base/needing.py), with the two small
helpers it relies on under contract as well: Need.addTract, Frame.insertEnact (ioflo/base/framing.py).

Statement: "the mark is set on entry to the named frame and whenever a transition guarded by that mark is taken".
For one `if <share> is updated|changed [in frame F] [by m]` condition, resolved on need actor `self`:
  key   = framer.name + '<' + (m or resolved_frame.name)
  (1) afterwards a Mark exists in share.marks under `key` (an existing Mark object is kept, else a new blank one);
  (2) exactly one marker act (kind, share, key) was appended to self._tracts in the transit sub-context
      (Transiter / Suspender move a need's tracts into their own list and run them when the transition is taken);
  (3) if a frame was named: the resolved frame's enacts contain a marker act of that kind for that share (by name,
      as the code compares) and the SAME key - the one already there (then the list is unchanged: no duplicate), or
      a new one inserted at the front in the enter context; if no frame was named the enacts are unchanged;
  (4) the returned parms carry the resolved share and the composed key.

Inlined real code: Actor._resolve (super), framing.resolveFrameOfFramer, storing.Mark.__init__.
Outside (assumed, listed in the evidence): self._resolvePath, acting.Act(...) construction, Act.resolve(),
dict(...), odict(), Actor.Registry membership; '<'.join of a two-element list is computed exactly.
"""
from pyvc.api import *
from pyvc import builtins_ as B
from contracts.lib import *
from contracts.c20_marks import FN, FA, FS, FG, transit_ctx    # Share / Mark declarations and the transit constant
import z3

FF = "ioflo/base/framing.py"

classdecl("Act", fields=dict(a_is=BOOL, a_name=STR, p_share=Ref("Share"), p_marker=STR, frame=STR, context=STR))
# an act: `.actor` is an Actor instance (a_is, its .name = a_name) or the not-yet-resolved kind name (a_name = that
# string); `.parms` of a marker act is the record {share: p_share, marker: p_marker}.  `.actor` / `.parms` are VIEWS
# with the act's own reference (no separate heap objects: keeps the path conditions small)
classdecl("ActorView", fields={})
classdecl("ParmsView", fields={})
classdecl("OdictObj", fields=dict(share=Ref("Share"), marker=STR))     # the odict() returned by Actor._resolve
classdecl("RegistryObj", fields={})                                    # Actor.Registry (opaque membership)
classdecl("Framer", fields=dict(name=STR, frameNames=Dict(STR, Ref("Frame"))))
classdecl("Frame", file=FF, fields=dict(name=STR, framer=Ref("Framer"), enacts=List(Ref("Act"))))
classdecl("NeedAct", fields=dict(frame=Ref("Frame"), human=STR, count=INT))
classdecl("NeedMarker", file=FN, fields=dict(_act=Ref("NeedAct"), name=STR, _tracts=List(Ref("Act"))))
if "odict" not in REG.classes:
    classdecl("odict", fields={})

REG.assume_note("C20 builder (assumed): self._resolvePath(ipath, warn=True) returns a Share (opaque; ghost `rshare`); "
                "acting.Act(actor=kind, parms=p, ...) builds a new act with .actor = kind (unresolved name) and "
                ".parms = p; Act.resolve() replaces .actor by an Actor instance whose .name is that kind name and "
                "keeps .parms and .context (Act.resolve: inits['name'] = self.actor); dict(share=s, marker=m) / odict() "
                "build new mappings; membership in Actor.Registry is an uninterpreted predicate of the kind name")
REG.assume_note("C20 builder (assumed structure): an act whose actor is an Actor instance named like a marker kind "
                "carries parms['share'] (a Share) and parms['marker'] (only NeedMarker._resolve creates such acts); "
                "self._tracts and the enacts list of the resolved frame are different list objects; heap typing of "
                "the pre-state under quantifiers: the elements of the resolved frame's enacts and the shares in "
                "their parms are pre-state objects")

_REGD = z3.Function("c20_actor_registered", z3.StringSort(), z3.BoolSort())


def _new_obj(E, cls):
    return RefV(E.new_ref(), cls, nn=True)


def _act_of(v):
    return RefV(v.t, "Act", nn=True)


@hook("odict", "ctor")
def _odict_ctor(E, cv, args, kwargs):
    if args or kwargs:
        raise Unsupported("odict(...) with arguments (line %d)" % E.cur_line)
    if E.frame.qual == "<class>":          # class-level `Registry = odict()`: one object per class, nothing stored
        return RefV(z3.Int("c20_registry_object"), "RegistryObj", nn=True)
    return _new_obj(E, "OdictObj")


def _ext_dict(E, args, kwargs):
    if args or set(kwargs) != {"share", "marker"}:
        raise Unsupported("dict(...) other than dict(share=, marker=) (line %d)" % E.cur_line)
    return dict(kwargs)                    # carried as a python-level record until acting.Act(parms=...) stores it


@hook("OdictObj", "getitem")
def _od_get(E, o, idx):
    if idx in ("share", "marker"):
        return E.rd_field(o, idx)
    raise Unsupported("parms[%r]" % (idx,))


@hook("OdictObj", "setitem")
def _od_set(E, o, idx, v):
    if idx in ("share", "marker"):
        return E.wr_field(o, idx, v)
    raise Unsupported("parms[%r] = ..." % (idx,))


@hook("RegistryObj", "contains")
def _reg_contains(E, o, x):
    return _REGD(zstr(x))


@hook("Act", "getattr", "actor")
def _act_actor(E, act):
    return RefV(act.t, "ActorView", nn=True)


@hook("ActorView", "getattr", "name")
def _actor_name(E, v):
    return E.rd_field(_act_of(v), "a_name")


@hook("Act", "getattr", "parms")
def _act_parms(E, act):
    return RefV(act.t, "ParmsView", nn=True)


@hook("ParmsView", "getitem")
def _pv_get(E, v, idx):
    if idx in ("share", "marker"):
        return E.rd_field(_act_of(v), "p_" + idx)
    raise Unsupported("act.parms[%r]" % (idx,))


@hook("Act", "ctor")
def _act_ctor(E, cv, args, kwargs):
    p = kwargs.get("parms")
    if args or "actor" not in kwargs or not isinstance(p, dict) or set(p) != {"share", "marker"}:
        raise Unsupported("acting.Act(...) without actor= / parms=dict(share=, marker=) (line %d)" % E.cur_line)
    act = _new_obj(E, "Act")
    E.wr_field(act, "a_is", False)
    E.wr_field(act, "a_name", kwargs["actor"])
    E.wr_field(act, "p_share", p["share"])
    E.wr_field(act, "p_marker", p["marker"])
    return act


def _resolve_effect(E, act, args, kwargs):
    E.wr_field(act, "a_is", True)          # .actor is now an Actor instance of that kind, .name = the kind name


REG.classes["Act"].hooks[("getattr", "resolve")] = opaque_method("Act.resolve", None, _resolve_effect)


@hook("NeedMarker", "getattr", "_resolvePath")
def _resolve_path(E, obj):
    def rp(E2, *a, **k):
        return E2.ghost["rshare"]
    rp._specfunc = True
    return rp


def _setup_rshare(E):
    """the share self._resolvePath will return (opaque): created up front so that specifications can name it"""
    E.ghost["rshare"] = E.fresh_val("rshare", Ref("Share"))


@hook("Mark", "super", "__init__")
def _mark_super_init(E, selfv, args, kwargs):
    return None          # object.__init__()


def _ext_isinstance(E, args, kwargs):
    v, c = args
    if isinstance(v, RefV) and v.cls == "ActorView" and isinstance(c, ClassV) and c.name == "Actor":
        return Sym(E.rd_field(_act_of(v), "a_is").t, "bool")
    if isinstance(c, ClassV) and (isinstance(v, (str, int, float)) or (isinstance(v, Sym) and not isinstance(v.k, tuple))):
        return False     # a str / number is never an instance of a repository class
    return B.py_isinstance(E, v, c)


def _ext_join(E, args, kwargs):
    sep, lst = args
    seq = B.iter_values(E, lst)
    if seq is None or not seq:
        raise Unsupported("str.join of a list of symbolic length (line %d)" % E.cur_line)
    out = zstr(seq[0])
    for x in seq[1:]:
        out = z3.Concat(out, zstr(sep), zstr(x))
    return Sym(out, "str")


# ---------------------------------------------------------------- specification functions
@specfunc
def rframe(E, self_, frame):
    """the frame the condition names: '' or 'me' -> the frame of the need's own act, else the framer's frame of
    that name"""
    own = E.rd_field(E.rd_field(self_, "_act"), "frame")
    framer = E.rd_field(own, "framer")
    named = E.dget(E.rd_field(framer, "frameNames"), frame)
    f = zstr(frame)
    return E.ite(z3.Or(f == z3.StringVal(""), f == z3.StringVal("me")), own, named)


@specfunc
def mkey(E, self_, frame, marker):
    """framer.name + '<' + (marker or resolved frame name)"""
    own = E.rd_field(E.rd_field(self_, "_act"), "frame")
    framer = E.rd_field(own, "framer")
    rf = rframe(E, self_, frame)
    m = zstr(marker)
    tail = z3.If(z3.Length(m) > 0, m, zstr(E.rd_field(rf, "name")))
    return Sym(z3.Concat(zstr(E.rd_field(framer, "name")), z3.StringVal("<"), tail), "str")


@specfunc
def registered(E, kind):
    return Sym(_REGD(zstr(kind)), "bool")


@specfunc
def frame_known(E, self_, frame):
    own = E.rd_field(E.rd_field(self_, "_act"), "frame")
    framer = E.rd_field(own, "framer")
    f = zstr(frame)
    return Sym(z3.Or(f == z3.StringVal(""), f == z3.StringVal("me"),
                     E.dhas(E.rd_field(framer, "frameNames"), frame)), "bool")


def _match(E, act, kind, share, key):
    """the test of the enact loop: Actor instance named `kind`, same share NAME, same marker key"""
    return z3.And(E.rd_field(act, "a_is").t, E.rd_field(act, "a_name").t == zstr(kind),
                  E.rd_field(E.rd_field(act, "p_share"), "name").t == E.rd_field(share, "name").t,
                  E.rd_field(act, "p_marker").t == zstr(key))


@specfunc
def is_marker_act(E, act, kind, share, key):
    """a resolved marker act of that kind for exactly this share object and key"""
    return Sym(z3.And(E.rd_field(act, "a_is").t, E.rd_field(act, "a_name").t == zstr(kind),
                      E.rd_field(act, "p_share").t == share.t, E.rd_field(act, "p_marker").t == zstr(key)), "bool")


@specfunc
def wf_enacts(E, frame):
    """heap typing of the pre-state, stated under quantifiers (the engine assumes it pointwise on each read): the
    enacts of the frame are pre-state objects and so are the shares in the parms of pre-state acts"""
    en = E.rd_field(frame, "enacts")
    arr = E.larrs(en)[0]
    j = z3.Int("j!wf%d" % next(E.counter))
    r = z3.Int("r!wf%d" % next(E.counter))
    key, _ty = E.fkey("Act", "p_share")
    ps = E.harr(("f", key, 0), [z3.IntSort()], z3.IntSort())
    return Sym(z3.And(z3.ForAll([j], z3.Implies(z3.And(j >= 0, j < E.llen(en)), z3.Select(arr, j) > 0)),
                      z3.ForAll([r], z3.Implies(r > 0, z3.Select(ps, r) > 0))), "bool")


@specfunc
def has_enact(E, frame, kind, share, key):
    en = E.rd_field(frame, "enacts")
    j = z3.Int("j!he%d" % next(E.counter))
    return Sym(z3.Exists([j], z3.And(j >= 0, j < E.llen(en), _match(E, E.lget(en, j), kind, share, key))), "bool")


@specfunc
def no_enact_before(E, frame, kind, share, key, upto):
    en = E.rd_field(frame, "enacts")
    j = z3.Int("j!ne%d" % next(E.counter))
    return Sym(z3.ForAll([j], z3.Implies(z3.And(j >= 0, j < zint(upto)),
                                         z3.Not(_match(E, E.lget(en, j), kind, share, key)))), "bool")


@specfunc
def inserted_at(E, cur, old, p, x):
    """cur == old with x inserted at index p (Python's list.insert clamping of p)"""
    n0 = E.llen(old)
    p = zint(p)
    p = z3.If(p < 0, z3.If(n0 + p < 0, z3.IntVal(0), n0 + p), z3.If(p > n0, n0, p))
    i = z3.Int("i!ia%d" % next(E.counter))
    e1 = z3.ForAll([i], z3.Implies(z3.And(i >= 0, i < p), E.tobool(E.equal(E.lget(cur, i), E.lget(old, i)))))
    e2 = z3.ForAll([i], z3.Implies(z3.And(i > p, i <= n0), E.tobool(E.equal(E.lget(cur, i), E.lget(old, i - 1)))))
    return Sym(z3.And(E.llen(cur) == n0 + 1, e1, e2, E.tobool(E.equal(E.lget(cur, p), x))), "bool")


@specfunc
def enter_ctx(E):
    g = E.repo.module_globals(FG)
    return E.global_value(g["ActionContextNames"], FG)[E.global_value(g["ENTER"], FG)]


@specfunc
def blank_new_mark(E, mark):
    return Sym(z3.And(mark.t < 0, E.rd_field(mark, "stamp").isnone, E.rd_field(mark, "used").isnone,
                      E.rd_field(mark, "data").t == 0), "bool")


def _n_inserted_at(cur, old, p, x):
    o = list(old)
    o.insert(p, x)
    return len(cur) == len(o) and all(a is b for a, b in zip(cur, o))


def _n_enter_ctx():
    from ioflo.base import globaling
    return globaling.ActionContextNames[globaling.ENTER]


def _n_rframe(self_, frame):
    own = self_._act.frame
    return own if frame in ("", "me") else own.framer.frameNames.get(frame)


def _n_mkey(self_, frame, marker):
    rf = _n_rframe(self_, frame)
    return None if rf is None else self_._act.frame.framer.name + "<" + (marker or rf.name)


def _n_registered(kind):
    from ioflo.base import acting
    return kind in acting.Actor.Registry


def _n_match(e, kind, share, key, by_name):
    from ioflo.base import acting
    if not (isinstance(e.actor, acting.Actor) and e.actor.name == kind):
        return False
    sh = e.parms.get("share")
    if sh is None or e.parms.get("marker") != key:
        return False
    return sh.name == share.name if by_name else sh is share


def _n_blank(mark):
    return mark.stamp is None and mark.used is None and mark.data is None


inserted_at.native = _n_inserted_at
enter_ctx.native = _n_enter_ctx
rframe.native = _n_rframe
mkey.native = _n_mkey
registered.native = _n_registered
frame_known.native = lambda self_, frame: _n_rframe(self_, frame) is not None
has_enact.native = lambda frame, kind, share, key: frame is not None and any(_n_match(e, kind, share, key, True)
                                                                               for e in frame.enacts)
is_marker_act.native = lambda act, kind, share, key: _n_match(act, kind, share, key, False)
blank_new_mark.native = _n_blank

_FLO = """house c20r

  init c.x with 0
  init c.y with 0

  framer f be active first A

    frame A
      go B if c.x is updated in frame A by m1

    frame B
      go A if c.y is changed in frame
"""
_HOUSE = {}


def _house():
    """a real house built once per process by the real Builder (two frames, two shares, two marker conditions)"""
    if not _HOUSE:
        import os
        import shutil
        import tempfile
        from ioflo.base import skedding
        d = tempfile.mkdtemp(prefix="c20r-")
        try:
            path = os.path.join(d, "c20r.flo")
            with open(path, "w") as f:
                f.write(_FLO)
            sk = skedding.Skedder(name="c20r", period=1.0, real=False, filepath=path)
            try:
                built = sk.build()
            except Exception:
                built = False
            if not built:
                # a tree on which the Builder itself cannot resolve a marker condition (e.g. a mutant that drops
                # addTract): no native inputs for _resolve, the prover's verdict stands alone (inputs are skipped,
                # visible as 0 evaluations for this function in the evidence)
                _HOUSE["failed"] = True
                return _HOUSE
        finally:
            shutil.rmtree(d, ignore_errors=True)
        house = sk.houses[0]
        framer = list(house.taskables)[0]
        _HOUSE.update(store=house.store, framer=framer, frames=[framer.frameNames["A"], framer.frameNames["B"]])
    return _HOUSE


def _mk_resolve(rng, i, cex, nr):
    import importlib
    acting = importlib.import_module("ioflo.base.acting")
    _shallow_old(acting)
    h = _house()
    if h.get("failed"):
        return None
    store = h["store"]
    need = nr.mod.NeedUpdate(name="NeedUpdate", store=store)
    need._act = acting.Act(actor=need, frame=rng.choice(h["frames"]), context="precur", human="h", count=i)
    path = rng.choice(["c.x", "c.y"])
    share = store.fetchShare(path)
    for fr in h["frames"]:                       # the graph persists between runs: thin it out again at random
        fr.enacts[:] = [e for e in fr.enacts if rng.random() < 0.6]
    for k in list(share.marks.keys()):
        if rng.random() < 0.4:
            del share.marks[k]
    return {"self": need, "share": path, "frame": rng.choice(["", "me", "A", "B", "A", "nope"]),
            "kind": rng.choice(["MarkerUpdate", "MarkerChange", "MarkerUpdate", "Bogus"]),
            "marker": rng.choice(["", "m1", "m2", "m3"]), "__store": store}


def _view_resolve(env, nr):
    return {"rshare": env["__store"].fetchShare(env["share"])}


# ---------------------------------------------------------------- native doubles for the two helpers
class _Obj:
    pass


def _shallow_old(acting):
    """the native runner snapshots old(...) values with copy.deepcopy; acts are compared by IDENTITY in the list
    clauses (and a real act drags its whole house, runner generators included), so in the cross-check process a
    deep copy of an act is the act itself"""
    acting.Act.__deepcopy__ = lambda self, memo: self


def _mk_helper(which):
    def make(rng, i, cex, nr):
        import importlib
        acting = importlib.import_module("ioflo.base.acting")
        _shallow_old(acting)
        act = acting.Act(actor="MarkerUpdate", parms={})
        olds = [acting.Act(actor="x%d" % k) for k in range(rng.randint(0, 3))]
        if which == "frame":
            fr = object.__new__(nr.mod.Frame)
            fr.name = rng.choice(["A", "watch"])
            fr.enacts = list(olds)
            env = {"self": fr, "act": act}
            if rng.random() < 0.6:
                env["index"] = rng.choice([0, 0, 1, -1, 5, -7])
            return env
        need = object.__new__(nr.mod.NeedUpdate)
        need.name = "need"
        need._tracts = list(olds)
        need._act = _Obj()
        need._act.frame = _Obj()
        need._act.frame.name = rng.choice(["A", "watch"])
        return {"self": need, "act": act}
    return make


# ---------------------------------------------------------------- helpers under contract
contract(FN, "Need.addTract", "C20", params=dict(self=Ref("NeedMarker"), act=Ref("Act")),
         modifies=["self._tracts[*]", "act.frame", "act.context"],
         ensures=["is_concat(self._tracts, oldlist(self._tracts), [act])",
                  "act.frame == self._act.frame.name", "act.context == transit_ctx()"],
         replay=dict(make=_mk_helper("need")))

contract(FF, "Frame.insertEnact", "C20", params=dict(self=Ref("Frame"), act=Ref("Act"), index=INT),
         modifies=["self.enacts[*]", "act.frame", "act.context"],
         ensures=["inserted_at(self.enacts, oldlist(self.enacts), index, act)",
                  "act.frame == self.name", "act.context == enter_ctx()"],
         replay=dict(make=_mk_helper("frame")))

# ---------------------------------------------------------------- NeedMarker._resolve
RF = "rframe(self, frame)"
KEY = "mkey(self, frame, marker)"
LAST = "self._tracts[len(self._tracts) - 1]"
HAD = "old(has_enact(%s, kind, rshare, %s))" % (RF, KEY)

contract(FN, "NeedMarker._resolve", "C20",
         params=dict(self=Ref("NeedMarker"), share=STR, frame=STR, kind=STR, marker=STR),
         inline={"Actor._resolve", "resolveFrameOfFramer", "Mark.__init__"},
         externals={dict: _ext_dict, isinstance: _ext_isinstance, "str.join": _ext_join},
         assumes=["self._tracts is not %s.enacts" % RF, "wf_enacts(%s)" % RF],
         setup=_setup_rshare,
         loops={0: dict(inv=["not found", "no_enact_before(frame, kind, share, marker, _i)"])},
         modifies=["rshare.marks{*}", "self._tracts[*]", "%s.enacts[*]" % RF],
         returns=Ref("OdictObj"), replay=dict(make=_mk_resolve, view=_view_resolve),
         raises={"ResolveError": ["not registered(kind) or not frame_known(self, frame)",
                                  "seq_eq(self._tracts, oldlist(self._tracts))",
                                  "seq_eq(%s.enacts, oldlist(%s.enacts))" % ("self._act.frame", "self._act.frame")]},
         ensures=[
             "registered(kind) and frame_known(self, frame)",
             # (4) returned parms
             "result['share'] is rshare", "result['marker'] == " + KEY,
             # (1) the Mark
             KEY + " in rshare.marks",
             "implies(old(%s in rshare.marks), id(rshare.marks[%s]) == old(id(rshare.marks[%s])))" % (KEY, KEY, KEY),
             "implies(not old(%s in rshare.marks), blank_new_mark(rshare.marks[%s]))" % (KEY, KEY),
             "forall(STR, lambda k: implies(k != %s, (k in rshare.marks) == old(k in rshare.marks) and "
             "rshare.marks[k] is old(rshare.marks[k])))" % KEY,
             # (2) exactly one transit marker act
             "is_concat(self._tracts, oldlist(self._tracts), [%s])" % LAST,
             "is_marker_act(%s, kind, rshare, %s)" % (LAST, KEY),
             "%s.context == transit_ctx()" % LAST, "fresh(%s)" % LAST,
             # (3) the entry marker
             "implies(frame != '', has_enact(%s, kind, rshare, %s))" % (RF, KEY),
             "implies(frame != '' and %s, seq_eq(%s.enacts, oldlist(%s.enacts)))" % (HAD, RF, RF),
             "implies(frame != '' and not %s, inserted_at(%s.enacts, oldlist(%s.enacts), 0, %s.enacts[0]))"
             % (HAD, RF, RF, RF),
             "implies(frame != '' and not %s, is_marker_act(%s.enacts[0], kind, rshare, %s) and "
             "%s.enacts[0].context == enter_ctx() and %s.enacts[0] is not %s)" % (HAD, RF, KEY, RF, RF, LAST),
             "implies(frame != '' and not %s, fresh(%s.enacts[0]))" % (HAD, RF),
             "implies(frame == '', seq_eq(%s.enacts, oldlist(%s.enacts)))" % (RF, RF),
         ])
