"""C46 PID controller: ControllerPid.action/restart, DoerLapse.updateLapse/action, blend0
(ioflo/trim/interior/plain/controlling.py, ioflo/base/doing.py, ioflo/aid/blending.py); wrap2 through its C43 contract.

Shares are modelled by their `.value` field (the stamping side effect of the setter is C19's subject).
Pre-condition taken from the construction code (_prepio): the nine shares are distinct objects and the
limits are ordered (statement: 'limits ordered').
"""
from pyvc.api import *
from contracts import c43_wrap, c42_timers
import z3

FC = "ioflo/trim/interior/plain/controlling.py"
FD = "ioflo/base/doing.py"
FB = "ioflo/aid/blending.py"

classdecl("ShareV", fields=dict(value=REAL))
classdecl("ParmData", fields=dict(wrap=REAL, drsp=REAL, calcRate=BOOL, ger=REAL, gff=REAL, gpe=REAL, gde=REAL,
                                  gie=REAL, esmax=REAL, esmin=REAL, ovmax=REAL, ovmin=REAL))
classdecl("ShareParm", fields=dict(data=Ref("ParmData")))
classdecl("DoerLapse", file=FD, fields=dict(stamp=Opt(REAL), lapse=REAL, store=Ref("StoreLike"), name=STR))
SH = ["elapsed", "prsp", "e", "er", "es", "output", "input", "rate", "rsp"]
classdecl("ControllerPid", file=FC, bases=("DoerLapse",),
          fields=dict(parm=Ref("ShareParm"), **{k: Ref("ShareV") for k in SH}))

_blend = z3.Function("blend0_spec", z3.RealSort(), z3.RealSort(), z3.RealSort(), z3.RealSort())


@specfunc
def blend0_spec(E, d, u, s):
    """trapezoid: 1 inside the uncertainty radius, falling linearly to 0 over the scale"""
    zd, zu, zs = zreal(d), zreal(u), zreal(s)
    b = _blend(zd, zu, zs)
    ad = z3.If(zd >= 0, zd, -zd)
    au = z3.If(zu >= 0, zu, -zu)
    as_ = z3.If(zs >= 0, zs, -zs)
    v = ad - au
    E.assume(z3.And(b >= 0, b <= 1))
    E.assume(b == z3.If(v >= as_, z3.RealVal(0), z3.If(v <= 0, z3.RealVal(1), 1 - v / as_)))
    return Sym(b, "real")


def _blend_native(d, u, s):
    d, u, s = abs(d), abs(u), abs(s)
    v = d - u
    if v >= s:
        return 0.0
    if v <= 0:
        return 1.0
    return 1.0 - v / s


blend0_spec.native = _blend_native

contract(FB, "blend0", "C46", params=dict(d=REAL, u=REAL, s=REAL),
         ensures=["0 <= result and result <= 1", "result == blend0_spec(d, u, s)"], returns=REAL, replay="pure")

# ---------------------------------------------------------------- lapse
contract(FD, "DoerLapse.updateLapse", "C46", params=dict(self=Ref("DoerLapse")),
         modifies=["self.stamp", "self.lapse"],
         ensures=["self.lapse >= 0",
                  "self.stamp == self.store.stamp",
                  "implies(old(self.stamp) is not None and self.store.stamp is not None, "
                  "self.lapse == max(0, self.store.stamp - old(self.stamp)))",
                  "implies(old(self.stamp) is None or self.store.stamp is None, self.lapse == 0)"])
contract(FD, "DoerLapse.action", "C46", params=dict(self=Ref("DoerLapse")),
         modifies=["self.stamp", "self.lapse"],
         ensures=["self.lapse >= 0", "self.stamp == self.store.stamp",
                  "implies(old(self.stamp) is not None and self.store.stamp is not None, "
                  "self.lapse == max(0, self.store.stamp - old(self.stamp)))",
                  "implies(old(self.stamp) is None or self.store.stamp is None, self.lapse == 0)"])

# ---------------------------------------------------------------- controller
DISTINCT = " and ".join("self.%s is not self.%s" % (a, b) for i, a in enumerate(SH) for b in SH[i + 1:])
P = "self.parm.data."
ORDERED = P + "esmin <= " + P + "esmax and " + P + "ovmin <= " + P + "ovmax"
CHANGED = "(abs(old(self.rsp.value) - old(self.prsp.value)) > " + P + "drsp)"
RSP_USED = "(old(self.rsp.value) if " + CHANGED + " else old(self.prsp.value))"
RUN = "(self.lapse > 0)"


@specfunc
def clamp(E, lo, hi, x):
    return Sym(z3.If(zreal(x) < zreal(lo), zreal(lo), z3.If(zreal(x) > zreal(hi), zreal(hi), zreal(x))), "real")


clamp.native = lambda lo, hi, x: lo if x < lo else (hi if x > hi else x)

AE = "(self.lapse * (self.e.value + old(self.e.value)) / 2)"
ES0 = "(0 if " + CHANGED + " else old(self.es.value))"


class _Obj:
    pass


def _mk_pid(rng, i, cex, nr):
    pid = object.__new__(nr.mod.ControllerPid)
    pid.name = "pid"
    st = _Obj()
    pid.store = st
    d = lambda lo=-64, hi=64: rng.randint(lo * 8, hi * 8) / 8.0
    last = d(0, 50)
    pid.stamp = rng.choice([None, last])
    st.stamp = rng.choice([None, last, last + 0.125, last + 1.0, last - 1.0])
    pid.lapse = 0.0
    for k in SH:
        s = _Obj()
        s.value = d()
        setattr(pid, k, s)
    if rng.random() < 0.5:
        pid.prsp.value = pid.rsp.value + rng.choice([0.0, 0.0078125, -0.0078125])
    parm = _Obj()
    parm.data = _Obj()
    lo, hi = sorted([d(), d()])
    lo2, hi2 = sorted([d(), d()])
    parm.data.__dict__.update(wrap=rng.choice([0.0, 180.0, -180.0, 90.0]), drsp=rng.choice([0.0, 0.01, 0.5]),
                              calcRate=bool(rng.randint(0, 1)), ger=d(-2, 2), gff=d(-4, 4), gpe=d(-4, 4),
                              gde=d(-4, 4), gie=d(-4, 4), esmax=hi, esmin=lo, ovmax=hi2, ovmin=lo2)
    pid.parm = parm
    return {"self": pid}


contract(FC, "ControllerPid.restart", "C46", params=dict(self=Ref("ControllerPid")),
         modifies=["self.es.value"], ensures=["self.es.value == 0"], replay=dict(make=_mk_pid))

contract(FC, "ControllerPid.action", "C46", params=dict(self=Ref("ControllerPid")),
         requires=[DISTINCT, ORDERED], nl_abstract=True,
         modifies=["self.stamp", "self.lapse", "self.elapsed.value", "self.prsp.value", "self.e.value",
                   "self.er.value", "self.es.value", "self.output.value"],
         ensures=[
             "self.lapse >= 0 and self.elapsed.value == self.lapse",
             # lapse not positive: nothing but the lapse bookkeeping is written
             "implies(not %s, self.es.value == old(self.es.value) and self.output.value == old(self.output.value) "
             "and self.e.value == old(self.e.value) and self.prsp.value == old(self.prsp.value) "
             "and self.er.value == old(self.er.value))" % RUN,
             # limits
             "implies(%s, %sesmin <= self.es.value and self.es.value <= %sesmax)" % (RUN, P, P),
             "implies(%s, %sovmin <= self.output.value and self.output.value <= %sovmax)" % (RUN, P, P),
             # shortest wrapped error against the set point in use
             "implies(%s and %swrap == 0, self.e.value == old(self.input.value) - %s)" % (RUN, P, RSP_USED),
             "implies(%s and %swrap != 0, -abs(%swrap) <= self.e.value and self.e.value <= abs(%swrap))" % (RUN, P, P, P),
             "implies(%s and %swrap != 0, whole_turns(self.e.value, old(self.input.value) - %s, 2 * %swrap))"
             % (RUN, P, RSP_USED, P),
             # set point change beyond the threshold: remembered and the integrator restarts from zero
             "implies(%s and %s, self.prsp.value == old(self.rsp.value))" % (RUN, CHANGED),
             "implies(%s and not %s, self.prsp.value == old(self.prsp.value))" % (RUN, CHANGED),
             "implies(%s, self.es.value == clamp(%sesmin, %sesmax, %s + %s * blend0_spec(%s, 0, 3) * "
             "blend0_spec(self.er.value, 0, 0.1)))" % (RUN, P, P, ES0, AE, AE),
             "implies(%s and %scalcRate, self.er.value == (self.e.value - old(self.e.value)) / self.lapse)" % (RUN, P),
             "implies(%s and not %scalcRate, self.er.value == %sger * old(self.rate.value))" % (RUN, P, P),
             "implies(%s, self.output.value == clamp(%sovmin, %sovmax, %sgff * %s + %sgpe * self.e.value + "
             "%sgde * self.er.value + %sgie * self.es.value))" % (RUN, P, P, P, RSP_USED, P, P, P),
         ], replay=dict(make=_mk_pid))
REG.assume_note("C46: non-finite floats (NaN, +-inf) are outside the real-number encoding and are NOT decided; "
                "Share.value is modelled as a plain field (its stamping side effect is the subject of C19)")
