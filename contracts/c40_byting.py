"""C40 bit, byte and hex codecs round-trip  (ioflo/aid/byting.py)

Structure (see levels.d/C40.json for what is bounded and what is not):

 (1) FUNCTION CONTRACTS, proved on the real source for ALL sizes.  Each post-condition mirrors a SPECIFICATION
     written here from the property statement (positions = cumulative widths, masks = widths), not the code's
     operators:
       bytify / unbytify   Horner certificates (no exponentiation): a ghost quotient / prefix-value sequence
                           that ties the byte list to the integer digit by digit, base 256
       packify(Into)       n == PK(nf): the fold PK(k+1) = bor(PK(k), shl(m_k, 8*size - S(k+1)))
       unpackify           fields[j] == shr(band(n, shl(pow2(w_j) - 1, p_j)), p_j), p_j = 8*size - S(j+1)
       signExtend          two's complement; integer mode, the three operator facts it assumes are lemmas G1/G2
                           on 64-bit vectors (hence 1 <= n <= 63)
       binize / unbinize   digit k = bit of weight 2^(size-1-k); left fold base 2 (texts = lists of characters)
       hexify / hexize     fold of the two hex digits of each byte (per-byte table checked on all 256 bytes)
       unhexify / unhexize BOUNDED stand-ins only (native enumeration, verify=False, never counted as proved)
 (2) LEMMAS about those specification functions (REG.lemmas), each an explicit induction: base + step with the
     induction hypothesis as the path condition.  The induction principle over the naturals is the only
     meta-step and is listed as an assumption.
       F1-F7 byte certificates (unbounded)      S prefix sums (unbounded)      G1/G2 xor with one bit (64-bit)
       E  pack/unpack round trip, REAL operators on 64-bit vectors, 8*size <= 63
       E' the same round trip over the integers, unbounded, relative to five cross-checked operator identities
          (with N1-N4 generic div/mod facts and P2 pow2 additivity)
       B1/B2 binize/unbinize inverses (64-bit vectors, <= 63 bits)

Integer mode with a bit-operation theory (REG.bitop_hook, active only for non-bitvec contracts of this file):
 * second operand a CONCRETE constant: exact linear semantics over the mathematical integers
       x & (2^k - 1) = x mod 2^k      Python ints are infinite two's complement: the low k bits of x, read as
                                      an unsigned number, are x mod 2^k (floor mod) for negative x as well
       x >> k        = x div 2^k      arithmetic shift = floor division (also for negative x)
       x << k        = x * 2^k
       x | 0 = x ;  x | 1 = x - (x mod 2) + 1     sets bit 0: clears it (x - x mod 2) and adds 1
   The identities are cross-checked against CPython at import time (`_selftest_identities`).
 * symbolic shift / mask: applications of UNINTERPRETED integer functions shl shr band bor bxor, 2**k = pow2(k).
   A proof that goes through with the functions uninterpreted holds for every interpretation, in particular
   for Python's operators (generalisation).
"""
from pyvc.api import *
from pyvc import builtins_ as B
from pyvc.engine import PyRaise
from contracts.lib import *
import ast
import random as _random
import z3

F = "ioflo/aid/byting.py"
P = "C40"
I = z3.IntSort()
AII = z3.ArraySort(I, I)
BYTEARR = List(INT)          # a bytearray is modelled as a mutable list of ints (each 0..255 where required)

shl = z3.Function("shl", I, I, I)
shr = z3.Function("shr", I, I, I)
band = z3.Function("band", I, I, I)
bor = z3.Function("bor", I, I, I)
bxor = z3.Function("bxor", I, I, I)


def pow2(k):
    return REG.pow2(None, k)


def _assume(E, fact):
    """E.assume for the definitional facts of this module (unfoldings of recursive specification functions,
    instances of the pow2 definition, the range of `&`): they hold for every value of their free symbols, so they
    are added to the path condition directly - same effect as E.assume, without its printing of the term (the
    engine's test for quantifier-bound names costs seconds on terms with nested lambda arrays)"""
    key = fact.get_id()
    if key in E.assumed:
        return
    E.assumed.add(key)
    E.pc.append(fact)


# =============================================================================== bit-operation theory
def _div(x, m):
    return x / m if z3.is_expr(x) else x // m


# (name, applies(op, const), formula(x, const), python reference(x, const))   -- ONE table, used both for the
# z3 encoding and for the CPython cross-check below
def _is_mask(c):
    return c >= 0 and (c & (c + 1)) == 0


_CONST_RULES = [
    ("and-mask", ast.BitAnd, _is_mask, lambda x, c: x % (c + 1), lambda x, c: x & c),
    ("shr", ast.RShift, lambda c: c >= 0, lambda x, c: _div(x, 1 << c), lambda x, c: x >> c),
    ("shl", ast.LShift, lambda c: c >= 0, lambda x, c: x * (1 << c), lambda x, c: x << c),
    ("or-0", ast.BitOr, lambda c: c == 0, lambda x, c: x, lambda x, c: x | c),
    ("or-1", ast.BitOr, lambda c: c == 1, lambda x, c: x - x % 2 + 1, lambda x, c: x | c),
]


def _selftest_identities():
    """the constant-operand identities against CPython: exhaustive |x| <= 512 for every constant the rules can
    meet in byting.py and more (masks 2^k-1 and shifts k for k <= 10, plus 0xFF/8/1), and 400 random signed
    200-bit values with a fixed seed"""
    rng = _random.Random(40)
    xs = list(range(-512, 513)) + [rng.getrandbits(200) * rng.choice((1, -1)) for _ in range(400)]
    n = 0
    for name, _op, ok, f, ref in _CONST_RULES:
        consts = [c for c in list(range(0, 11)) + [(1 << k) - 1 for k in range(0, 11)] + [0xFF, 0xFFFF, 64, 200]
                  if ok(c)]
        for c in consts:
            for x in xs:
                n += 1
                if f(x, c) != ref(x, c):
                    raise AssertionError("bit identity %s fails on CPython: x=%d c=%d" % (name, x, c))
    # facts used about the symbolic operators (range of `&`), same inputs, masks m >= 0 of every shape
    for m in list(range(0, 40)) + [255, 256, 1023, rng.getrandbits(200)]:
        for x in xs:
            n += 1
            if not (0 <= (x & m) <= m):
                raise AssertionError("range of x & m fails on CPython: x=%d m=%d" % (x, m))
    # symbolic-operand identities quoted in the lemma notes: x<<k = x*2^k, x>>k = x div 2^k, x&(2^k-1) = x mod 2^k
    for k in list(range(0, 12)) + [63, 64, 65, 200]:
        for x in xs:
            n += 1
            if (x << k) != x * 2 ** k or (x >> k) != x // 2 ** k or (x & (2 ** k - 1)) != x % 2 ** k:
                raise AssertionError("shift/mask identity fails on CPython: x=%d k=%d" % (x, k))
    return n


_N_IDENT = _selftest_identities()

_UF = {ast.BitAnd: band, ast.BitOr: bor, ast.BitXor: bxor, ast.LShift: shl, ast.RShift: shr}
_prev_bitop_hook = REG.bitop_hook


def _bitop(E, op, a, b):
    c = E.reg.active
    if c is None or c.rel != F or E.bvw:
        # not a C40 integer-mode contract: behave exactly as the engine does without this hook
        if _prev_bitop_hook is not None:
            return _prev_bitop_hook(E, op, a, b)
        if E.bvw:
            return E.bvarith(op, a, b)
        raise Unsupported("bit operation without a bit-operation theory selected (line %d)" % E.cur_line)
    if not isinstance(b, Sym) and isinstance(a, Sym) or \
            (not isinstance(a, Sym) and isinstance(op, (ast.BitAnd, ast.BitOr)) and isinstance(b, Sym)):
        x, k = (a, b) if isinstance(a, Sym) else (b, a)      # & and | commute
        k = int(k)
        for _name, rop, ok, f, _ref in _CONST_RULES:
            if isinstance(op, rop) and ok(k):
                return Sym(f(zint(x), k), "int")
    za, zb = zint(a), zint(b)
    if isinstance(op, (ast.LShift, ast.RShift)) and not E.spec:
        # Python raises ValueError("negative shift count"): proved absent
        E.oblige("safe", zb >= 0, "shift count is not negative")
    t = _UF[type(op)](za, zb)
    if isinstance(op, ast.BitAnd):
        # the only facts used about a symbolic `&`: with a non-negative operand m the result lies in [0, m]
        # (bits of the result are a subset of the bits of m; true for negative other operand as well)
        _assume(E, z3.Implies(zb >= 0, z3.And(t >= 0, t <= zb)))
        _assume(E, z3.Implies(za >= 0, z3.And(t >= 0, t <= za)))
    return Sym(t, "int")


REG.bitop_hook = _bitop

REG.assume_note("C40 bit operations in integer mode: with a constant second operand x&(2^k-1) = x mod 2^k, "
                "x>>k = x div 2^k (floor, also for negative x), x<<k = x*2^k, x|0 = x, x|1 = x - x mod 2 + 1 "
                "(identities of Python's unbounded two's-complement ints, cross-checked against CPython at import: "
                "%d evaluations, exhaustive |x| <= 512 and 400 seeded random 200-bit values); with a symbolic "
                "operand they are the UNINTERPRETED functions shl/shr/band/bor/bxor and 2**k = pow2(k), constrained only "
                "by: m >= 0 => 0 <= band(x, m) <= m (either operand; also cross-checked), and a proved-absent "
                "`negative shift count` obligation: whatever is proved for such functions holds for Python's "
                "operators (generalisation). pow2 is used with its definition pow2(0) = 1, pow2(k+1) = 2*pow2(k) and "
                "the consequence pow2(k) >= 1 (k >= 0), instantiated where needed" % _N_IDENT)
REG.assume_note("C40 induction principle over the naturals (meta-step, not an obligation): every lemma of "
                "REG.lemmas named '<lemma>/base' + '<lemma>/step' is concluded for all indices by induction; the "
                "'<lemma>/use' obligations start from that quantified conclusion")


# =============================================================================== list / bytearray externals
def _arr(E, lv):
    return E.larrs(lv)[0]


def _llen(E, lv):
    """E.llen without the engine's printing of the (possibly huge) length term, see _assume"""
    n = z3.simplify(z3.Select(E.harr(("len",), [z3.IntSort()], z3.IntSort()), lv.t))
    _assume(E, n >= 0)
    return n


def _ext_bytearray(E, args, kwargs):
    """bytearray() -> new empty; bytearray(list of ints) -> NEW list with the same content (ValueError unless every
    element is in range(256): obligation); bytes -> same content"""
    if not args:
        return E.new_list(INT, 0)
    a = args[0]
    if isinstance(a, ListV):
        n = _llen(E, a)
        if a.et is None:
            return E.new_list(INT, 0)
        k = z3.Int("k!ba%d" % next(E.counter))
        arr = _arr(E, a)
        E.oblige("safe", z3.ForAll([k], z3.Implies(z3.And(k >= 0, k < n),
                                                   z3.And(z3.Select(arr, k) >= 0, z3.Select(arr, k) <= 255))),
                 "bytearray(x): every element is in range(256)")
        return E.new_list(INT, n, [arr])
    if kind_of(a) == "bytes":
        return a
    raise Unsupported("bytearray(%r)" % (args,))


EXT = {"bytearray": _ext_bytearray}
REG.assume_note("C40: a bytearray is modelled as a mutable list of ints; bytearray(x) of a list is a NEW list with "
                "the content of x (its ValueError for an element outside range(256) is a proved-absent obligation); "
                "insert/pop/reverse/extend/+/slicing have list semantics")


@specfunc
def is_bytes(E, b):
    n = _llen(E, b)
    if b.et is None:
        return True
    k = z3.Int("k!ib%d" % next(E.counter))
    arr = _arr(E, b)
    return Sym(z3.ForAll([k], z3.Implies(z3.And(k >= 0, k < n),
                                         z3.And(z3.Select(arr, k) >= 0, z3.Select(arr, k) <= 255))), "bool")


is_bytes.native = lambda b: all(isinstance(x, int) and 0 <= x <= 255 for x in b)


# =============================================================================== bytify: quotient certificate
@specfunc
def bytify_n0(E, n, size, strict):
    """the integer bytify represents: n, or n masked to 8*size bits when n < 0 or strict"""
    zn, zs = zint(n), zint(size.val if isinstance(size, OptV) else size)   # a caller may hold `size` as Opt(int)
    st = E.tobool(E.truth(strict))
    return Sym(z3.If(z3.Or(zn < 0, st), band(zn, pow2(8 * zs) - 1), zn), "int")


bytify_n0.native = lambda n, size, strict: (n & (2 ** (8 * size) - 1)) if (n < 0 or strict) else n


@specfunc
def bytes_cert(E, result, n0, reverse):
    return _bytes_cert(E, result, 0, _llen(E, result), n0, reverse)


@specfunc
def bytes_cert_at(E, lst, off, length, n0, reverse):
    """the same certificate for the slice lst[off:off+length]"""
    return _bytes_cert(E, lst, off, zint(length), n0, reverse)


def _bytes_cert(E, result, off, L, n0, reverse):
    """exists q:  q[0] == n0,  q[k] == 256*q[k+1] + digit(k) and 0 <= digit(k) <= 255 for k < len,  q[len] == 0
    where digit(k) is the byte of weight 256^k: result[len-1-k] (big endian), result[k] when reversed.
    Proof side: the witness is the ghost sequence built in the `while n:` loop (q[count] = n), continued with 0.
    Call side: a skolem sequence."""
    arr = _arr(E, result)
    rv = E.tobool(E.truth(reverse))
    z0 = zint(n0)
    k = z3.Int("k!bc%d" % next(E.counter))
    if E.assuming:
        q = E.fresh("bq", AII)
        E.c40_last_q = q
        w = lambda t: z3.Select(q, t)
    elif E.ghost.get("bq") is not None and E.frame.env.get("L_count") is not None:
        q = E.ghost.get("bq")
        cnt = zint(E.frame.env.get("L_count"))
        w = lambda t: z3.If(t < cnt, z3.Select(q, t), z3.IntVal(0))
    else:
        # a caller of bytify re-exporting its certificate (packify): the witness is the sequence the callee's
        # post-condition introduced on this path
        q = getattr(E, "c40_last_q", None)
        if q is None:
            raise Unsupported("bytes_cert without a witness")
        w = lambda t: z3.Select(q, t)
    digit = z3.Select(arr, zint(off) + z3.If(rv, k, L - 1 - k))
    body = z3.And(w(k) == 256 * w(k + 1) + digit, digit >= 0, digit <= 255)
    return Sym(z3.And(w(z3.IntVal(0)) == z0, w(L) == 0,
                      z3.ForAll([k], z3.Implies(z3.And(k >= 0, k < L), body))), "bool")


def _bytes_cert_native(result, n0, reverse):
    be = list(result)[::-1] if reverse else list(result)
    if not all(isinstance(x, int) and 0 <= x <= 255 for x in be):
        return False
    q = n0
    for d in reversed(be):           # lowest weight first
        if q != 256 * (q // 256) + d or q % 256 != d:
            return False
        q = q // 256
    return q == 0 and int.from_bytes(bytes(be), "big") == n0


bytes_cert.native = _bytes_cert_native
bytes_cert_at.native = lambda lst, off, length, n0, reverse: \
    len(lst) >= off + length and _bytes_cert_native(list(lst)[off:off + length], n0, reverse)


@specfunc
def bq_inv(E, b, count, n):
    """loop invariant of bytify: q[0..count) are the successive values of n (all non-zero: the loop ran), b holds
    their low bytes most-significant first, the current n continues the sequence"""
    q = E.ghost["bq"]
    n0 = zint(E.ghost["n0"])
    c, zn = zint(count), zint(n)
    arr = _arr(E, b)
    k = z3.Int("k!bi%d" % next(E.counter))
    nxt = z3.If(k + 1 < c, z3.Select(q, k + 1), zn)
    digit = z3.Select(arr, c - 1 - k)
    body = z3.And(z3.Select(q, k) == 256 * nxt + digit, digit >= 0, digit <= 255, z3.Select(q, k) != 0)
    first = z3.If(c > 0, z3.Select(q, z3.IntVal(0)), zn)
    return Sym(z3.And(first == n0, z3.ForAll([k], z3.Implies(z3.And(k >= 0, k < c), body))), "bool")


def _pow2_defs(t, lo, hi):
    """instances of the definition of pow2 around the exponent t: pow2(0) = 1, pow2(j+1) = 2*pow2(j) and pow2(j) >= 1
    for the exponents j = t+lo .. t+hi-1 that are >= 0"""
    out = [pow2(z3.IntVal(0)) == 1]
    for d in range(lo, hi):
        j = t + d
        out.append(z3.Implies(j >= 0, z3.And(pow2(j + 1) == 2 * pow2(j), pow2(j) >= 1)))
    return out


@specfunc
def bq_bound(E, size, strict, count, n):
    """loop invariant of bytify, masked case (n < 0 or strict at entry): the value still to be converted fits the
    bytes that are left, 0 <= n < 2^(8*(size-count)); hence at most `size` iterations"""
    n_in = zint(E.env_old["n"])
    masked = z3.Or(n_in < 0, E.tobool(E.truth(strict)))
    c, zn, zs = zint(count), zint(n), zint(size)
    t = 8 * (zs - c)
    for f in _pow2_defs(t, -8, 8):
        _assume(E, f)
    return Sym(z3.Implies(masked, z3.And(c <= zs, zn >= 0, zn < pow2(t))), "bool")


def _g_bytify_init(E):
    E.ghost["n0"] = E.frame.env["n"]
    E.ghost["bq"] = E.fresh("bq0", AII)


def _g_bytify_step(E):
    # before `count += 1`: the value of n this iteration started with is q[count]
    E.ghost["bq"] = z3.Store(E.ghost["bq"], zint(E.frame.env["count"]), zint(E.frame.env["n"]))


def _g_bytify_havoc(E):
    E.ghost["bq"] = E.fresh("hv_bq", AII)


def _mk_bytify(rng, i, cex, nr):
    pool = [(0, 1), (1, 1), (255, 1), (256, 1), (0, 0), (5, 0), (-1, 1), (-1, 2), (-256, 1), (0x1234, 4),
            (0x123456, 2), (-0x123456, 2), (1 << 64, 3), (0, 3)]
    if i < len(pool) * 4:
        n, size = pool[i // 4]
        return dict(n=n, size=size, reverse=bool(i & 1), strict=bool(i & 2))
    size = rng.choice([0, 1, 2, 3, 4, 8, 9])
    n = rng.getrandbits(rng.choice([1, 7, 8, 9, 16, 31, 64, 70])) * rng.choice([1, 1, -1])
    return dict(n=n, size=size, reverse=bool(rng.getrandbits(1)), strict=bool(rng.getrandbits(1)))


contract(F, "bytify", P, params=dict(n=INT, size=INT, reverse=BOOL, strict=BOOL), returns=BYTEARR,
         requires=["size >= 0"], modifies=[], externals=EXT, local_types={"b": BYTEARR},
         ghost={"after": {"count = 0": _g_bytify_init}, "before": {"count += 1": _g_bytify_step}},
         loops={0: dict(inv=["count >= 0", "len(b) == count", "bq_inv(b, count, n)",
                             "bq_bound(size, strict, count, n)"], havoc=_g_bytify_havoc)},
         ensures=["bytes_cert(result, bytify_n0(n, size, strict), reverse)",
                  "len(result) >= size",
                  # no more bytes than needed: beyond `size` there is no leading zero byte
                  "implies(len(result) > size, result[len(result) - 1 if reverse else 0] != 0)",
                  # truncated to exactly `size` bytes when strict or negative
                  "implies(n < 0 or strict, len(result) == size)",
                  "fresh(result)"],
         note="size < 0 is out of domain (2 ** (size * 8) is then a float)",
         replay=dict(make=_mk_bytify, count=400))


# =============================================================================== unbytify: Horner fold
_U = z3.Function("U256", AII, z3.BoolSort(), I, I, I)      # U(bytes, reversed?, len, j): value of the first j digits


def _view(arr, rv, L, k):
    """k-th byte in big-endian order of the sequence (arr, L), reversed first when rv"""
    return z3.Select(arr, z3.If(rv, L - 1 - k, k))


def _U_unfold(E, arr, rv, L, j):
    """U(.., 0) = 0 ; U(.., j+1) = 256*U(.., j) + view(j)  -- the definition, unfolded one level at each use"""
    j = z3.simplify(j)
    _assume(E, z3.Implies(j <= 0, _U(arr, rv, L, j) == 0))
    _assume(E, z3.Implies(j > 0, _U(arr, rv, L, j) == 256 * _U(arr, rv, L, j - 1) + _view(arr, rv, L, j - 1)))
    return _U(arr, rv, L, j)


@specfunc
def Ufold(E, b, reverse, j):
    """big-endian base-256 value of the first j bytes of b (b reversed first when `reverse`)"""
    return Sym(_U_unfold(E, _arr(E, b), E.tobool(E.truth(reverse)), _llen(E, b), zint(j)), "int")


def _ufold_native(b, reverse, j):
    seq = list(b)[::-1] if reverse else list(b)
    v = 0
    for x in seq[:j]:
        v = 256 * v + x
    return v


Ufold.native = _ufold_native


@specfunc
def horner_cert(E, result, b, reverse):
    """exists h: h[0] == 0, h[k+1] == 256*h[k] + view(k) for k < len(b), result == h[len(b)]   (pointwise form of
    the fold; composes with pointwise-equal sequences without a congruence lemma)"""
    L = _llen(E, b)
    arr = _arr(E, b)
    rv = E.tobool(E.truth(reverse))
    k = z3.Int("k!hc%d" % next(E.counter))
    if E.assuming:
        h = E.fresh("hz", AII)
        E.c40_last_h = h
    else:
        h = E.ghost.get("hz")
        if h is None:
            raise Unsupported("horner_cert outside unbytify without a witness")
    body = z3.Select(h, k + 1) == 256 * z3.Select(h, k) + _view(arr, rv, L, k)
    return Sym(z3.And(z3.Select(h, z3.IntVal(0)) == 0, zint(result) == z3.Select(h, L),
                      z3.ForAll([k], z3.Implies(z3.And(k >= 0, k < L), body))), "bool")


horner_cert.native = lambda result, b, reverse: result == int.from_bytes(bytes(b), "little" if reverse else "big")


@specfunc
def hz_inv(E, b_in, reverse, b, n):
    """loop invariant of unbytify: j = len(b_in) - len(b) bytes consumed; b is the not yet consumed part, stored
    least-significant LAST... i.e. b[k] == view(L-1-k); h[0..j] are the prefix values; n == h[j] == U(j)"""
    L = _llen(E, b_in)
    src = _arr(E, b_in)
    rv = E.tobool(E.truth(reverse))
    cur = _arr(E, b)
    m = _llen(E, b)
    j = L - m
    h = E.ghost["hz"]
    zn = zint(n)
    k = z3.Int("k!hi%d" % next(E.counter))
    return Sym(z3.And(
        m <= L, z3.Select(h, z3.IntVal(0)) == 0, z3.Select(h, j) == zn, zn >= 0,
        zn == _U_unfold(E, src, rv, L, j),
        z3.ForAll([k], z3.Implies(z3.And(k >= 0, k < j),
                                  z3.Select(h, k + 1) == 256 * z3.Select(h, k) + _view(src, rv, L, k))),
        z3.ForAll([k], z3.Implies(z3.And(k >= 0, k < m), z3.Select(cur, k) == _view(src, rv, L, L - 1 - k)))),
        "bool")


def _g_unb_in(E):
    E.ghost["b_in"] = E.frame.env["b"]


def _g_unb_init(E):
    E.ghost["hz"] = z3.Store(E.fresh("hz0", AII), z3.IntVal(0), z3.IntVal(0))


def _g_unb_step(E):
    j = _llen(E, E.ghost["b_in"]) - _llen(E, E.frame.env["b"])
    E.ghost["hz"] = z3.Store(E.ghost["hz"], j, zint(E.frame.env["n"]))


def _g_unb_havoc(E):
    E.ghost["hz"] = E.fresh("hv_hz", AII)


def _mk_unbytify(rng, i, cex, nr):
    pool = [[], [0], [1], [255], [0, 1], [1, 0], [0, 0, 7], [1, 2, 3], [255, 255], [0x12, 0x34, 0x56, 0x78]]
    if i < 2 * len(pool):
        return dict(b=bytearray(pool[i // 2]), reverse=bool(i & 1))
    return dict(b=bytearray(rng.randrange(256) for _ in range(rng.choice([1, 2, 3, 4, 8, 9, 17]))),
                reverse=bool(rng.getrandbits(1)))


contract(F, "unbytify", P, params=dict(b=BYTEARR, reverse=BOOL), returns=INT,
         requires=["is_bytes(b)"], modifies=[], externals=EXT,
         ghost={"before": {"b = bytearray(b)": _g_unb_in}, "after": {"n = 0": _g_unb_init, "n += b.pop()": _g_unb_step}},
         loops={0: dict(inv=["hz_inv(b_in, reverse, b, n)"], havoc=_g_unb_havoc)},
         ensures=["result == Ufold(b, reverse, len(b))", "horner_cert(result, b, reverse)", "result >= 0"],
         replay=dict(make=_mk_unbytify, count=300))


# =============================================================================== lemmas about the certificates
def _lemma(name, pc, goal):
    REG.lemmas.append((P, name, list(pc), goal))


def _cert(q, b, rv, L, n0, k):
    """bytify's certificate as a formula (k: bound variable)"""
    digit = z3.Select(b, z3.If(rv, k, L - 1 - k))
    return z3.And(z3.Select(q, 0) == n0, z3.Select(q, L) == 0, L >= 0,
                  z3.ForAll([k], z3.Implies(z3.And(k >= 0, k < L),
                                            z3.And(z3.Select(q, k) == 256 * z3.Select(q, k + 1) + digit,
                                                   digit >= 0, digit <= 255))))


def _horner(h, b, rv, L, k):
    """unbytify's certificate as a formula"""
    return z3.And(z3.Select(h, 0) == 0, L >= 0,
                  z3.ForAll([k], z3.Implies(z3.And(k >= 0, k < L),
                                            z3.Select(h, k + 1) == 256 * z3.Select(h, k) + _view(b, rv, L, k))))


def _byte_lemmas():
    q, q2, h = z3.Array("q", I, I), z3.Array("q2", I, I), z3.Array("h", I, I)
    b, b2 = z3.Array("b", I, I), z3.Array("b2", I, I)
    L, L2, n0, j, k, i = z3.Ints("L L2 n0 j k i")
    rv = z3.Bool("rv")
    Udef = lambda t: z3.And(z3.Implies(t <= 0, _U(b, rv, L, t) == 0),
                            z3.Implies(t > 0, _U(b, rv, L, t) == 256 * _U(b, rv, L, t - 1) + _view(b, rv, L, t - 1)))
    cert = _cert(q, b, rv, L, n0, k)
    # F1  certificate => value:  U(b, j) == q[L-j] for 0 <= j <= L  (induction on j), hence U(b, L) == n0, i.e.
    #     unbytify(bytify(n, size, reverse, strict), reverse) == n (n >= 0, not strict) / band(n, 2^(8 size) - 1)
    _lemma("F1 cert=>value/base", [cert, Udef(z3.IntVal(0))], _U(b, rv, L, 0) == z3.Select(q, L))
    _lemma("F1 cert=>value/step", [cert, j >= 0, j < L, _U(b, rv, L, j) == z3.Select(q, L - j), Udef(j + 1)],
           _U(b, rv, L, j + 1) == z3.Select(q, L - (j + 1)))
    _lemma("F1 cert=>value/use", [cert, z3.ForAll([j], z3.Implies(z3.And(j >= 0, j <= L),
                                                                  _U(b, rv, L, j) == z3.Select(q, L - j)))],
           _U(b, rv, L, L) == n0)
    # F2  unbytify's prefix values read backwards are a bytify certificate of the same bytes (direct, no induction)
    hor = _horner(h, b, rv, L, k)
    isb = z3.ForAll([k], z3.Implies(z3.And(k >= 0, k < L), z3.And(z3.Select(b, k) >= 0, z3.Select(b, k) <= 255)))
    qh = lambda t: z3.Select(h, L - t)
    dg = z3.Select(b, z3.If(rv, i, L - 1 - i))
    _lemma("F2 horner is a certificate", [hor, isb, i >= 0, i < L],
           z3.And(qh(z3.IntVal(0)) == z3.Select(h, L), qh(L) == 0, qh(i) == 256 * qh(i + 1) + dg, dg >= 0, dg <= 255))
    # F3  size of the value:  0 <= h[j] < 2^(8j)  (induction on j), so unbytify(b) < 2^(8 len(b))
    _lemma("F3 value bound/base", [hor] + _pow2_defs(z3.IntVal(0), 0, 1),
           z3.And(z3.Select(h, 0) >= 0, z3.Select(h, 0) < pow2(8 * z3.IntVal(0))))
    _lemma("F3 value bound/step", [hor, isb, j >= 0, j < L, z3.Select(h, j) >= 0, z3.Select(h, j) < pow2(8 * j)]
           + _pow2_defs(8 * j, 0, 8),
           z3.And(z3.Select(h, j + 1) >= 0, z3.Select(h, j + 1) < pow2(8 * (j + 1))))
    # F4  certificates are unique: two certificates of the same integer, of lengths L <= L2, agree digit by digit
    #     on the first L digits and in their quotients (induction on k) ...
    #     (the two may differ in byte order: flags rv / rv2)
    rv2 = z3.Bool("rv2")
    cert2 = _cert(q2, b2, rv2, L2, n0, k)
    d1 = lambda t: z3.Select(b, z3.If(rv, t, L - 1 - t))
    d2 = lambda t: z3.Select(b2, z3.If(rv2, t, L2 - 1 - t))
    _lemma("F4 uniqueness/base", [cert, cert2, L <= L2], z3.Select(q, 0) == z3.Select(q2, 0))
    _lemma("F4 uniqueness/step", [cert, cert2, L <= L2, j >= 0, j < L, z3.Select(q, j) == z3.Select(q2, j)],
           z3.And(d1(j) == d2(j), z3.Select(q, j + 1) == z3.Select(q2, j + 1)))
    # ... F5 beyond a zero quotient every further digit of a certificate is zero (induction on k from L upwards)
    _lemma("F5 zero tail/step", [cert2, j >= 0, j < L2, z3.Select(q2, j) == 0],
           z3.And(d2(j) == 0, z3.Select(q2, j + 1) == 0))
    # ... F6 use: bytify(unbytify(b), len(b), strict=True) == b.  Premises: b is a byte list of length L with
    #     Horner sequence h (unbytify's post), n = h[L]; b2 is what bytify's post describes for
    #     n0 = band(n, 2^(8L) - 1) = n [F3 + the mask identity], size L: a certificate (q2, b2) of length L2 >= L
    #     without a leading zero beyond L.  Conclusions of the inductions F4 (with q[t] = h[L-t], F2) and F5 are
    #     the quantified premises.  Goal: same length and same bytes.
    lead2 = z3.Select(b2, z3.If(rv2, L2 - 1, z3.IntVal(0)))
    u4 = z3.ForAll([j], z3.Implies(z3.And(j >= 0, j < L), z3.And(d1(j) == d2(j),
                                                               z3.Select(h, L - (j + 1)) == z3.Select(q2, j + 1))))
    u5 = z3.ForAll([j], z3.Implies(z3.And(j >= L, j < L2), d2(j) == 0))
    _lemma("F6 bytify(unbytify(b)) == b/use",
           [hor, isb, cert2, rv2 == rv, n0 == z3.Select(h, L), L2 >= L, z3.Implies(L2 > L, lead2 != 0), u4, u5,
            i >= 0, i < L],
           z3.And(L2 == L, z3.Select(b2, i) == z3.Select(b, i)))
    # F4 use: the byte-order variants are mirror images - certificates of the same integer and length, one
    #     reversed and one not, hold the same bytes in opposite order
    u4m = z3.ForAll([j], z3.Implies(z3.And(j >= 0, j < L), d1(j) == d2(j)))
    _lemma("F4 reverse = mirror image/use", [cert, cert2, L == L2, rv, z3.Not(rv2), u4m, i >= 0, i < L],
           z3.Select(b, i) == z3.Select(b2, L - 1 - i))
    # F7  unbytify's prefix values are the fold: h[j] == U(b, j) (induction on j); with F1: the integer unpackify
    #     takes apart (its Horner certificate) is the integer packify packed (bytify's certificate of the same bytes)
    _lemma("F7 horner=>value/base", [hor, Udef(z3.IntVal(0))], z3.Select(h, 0) == _U(b, rv, L, 0))
    _lemma("F7 horner=>value/step", [hor, j >= 0, j < L, z3.Select(h, j) == _U(b, rv, L, j), Udef(j + 1)],
           z3.Select(h, j + 1) == _U(b, rv, L, j + 1))


_byte_lemmas()
REG.assume_note("C40 lemma F6 reads bytify's mask through the identity x & (2^k - 1) = x mod 2^k (= x for "
                "0 <= x < 2^k, F3); the identity itself is cross-checked against CPython at import, not proved")


# =============================================================================== signExtend: two's complement
# Integer mode: m = shl(1, n-1), r = bxor(x, m) - m.  The three facts the proof uses about these operators are
# assumed at entry (`assumes`, listed) and are discharged separately for the REAL operators on 64-bit
# bit-vectors (lemma G, REG.lemmas) - hence the width bound n <= 63 in `requires` (the bound of lemma G).
@specfunc
def sx_facts(E, x, n):
    zx, k = zint(x), zint(n) - 1
    return Sym(z3.And(shl(z3.IntVal(1), k) == pow2(k),                 # 1 << k = 2^k
                      pow2(k + 1) == 2 * pow2(k), pow2(k) >= 1,        # definition of pow2
                      z3.Implies(z3.And(zx >= 0, zx < pow2(k + 1)),    # xor with a single bit: lemma G
                                 bxor(zx, pow2(k)) == z3.If(zx < pow2(k), zx + pow2(k), zx - pow2(k)))), "bool")


sx_facts.native = lambda x, n: (1 << (n - 1)) == 2 ** (n - 1) and \
    (x ^ 2 ** (n - 1)) == (x + 2 ** (n - 1) if x < 2 ** (n - 1) else x - 2 ** (n - 1))


def _sx_lemmas():
    W = 64
    x, k = z3.BitVecs("x k", W)
    one = z3.BitVecVal(1, W)
    m = one << k
    pre = [z3.ULE(k, 62), z3.ULT(x, one << (k + 1))]
    # G1: for 0 <= k <= 62 and 0 <= x < 2^(k+1) (all values below 2^63: the 64-bit operators coincide with
    # Python's on them, nothing wraps):  x ^ 2^k == x + 2^k if x < 2^k else x - 2^k
    _lemma("G1 xor with one bit (64-bit vectors, k <= 62)", pre,
           z3.And(m != 0, z3.LShR(m, k) == one,                           # 1 << k does not lose the bit
                  z3.ULT(x, z3.BitVecVal(1 << 63, W)), z3.ULE(m, z3.BitVecVal(1 << 62, W)),
                  (x ^ m) == z3.If(z3.ULT(x, m), x + m, x - m)))
    # G2: end to end, signed reading of the 64-bit result: (x ^ m) - m == x (x < 2^k) / x - 2^(k+1) (negative)
    r = (x ^ m) - m
    _lemma("G2 signExtend end to end (64-bit vectors, n = k+1 <= 63)", pre,
           z3.If(z3.ULT(x, m), r == x, z3.And(r == x - (m << 1), r < 0, z3.BVSubNoUnderflow(x, m << 1, True))))


_sx_lemmas()
REG.assume_note("C40 signExtend: the facts assumed at entry about `1 << (n-1)` and `x ^ m` (sx_facts) are proved "
                "for the real operators on 64-bit vectors (lemmas G1, G2): the contract is therefore stated for "
                "1 <= n <= 63 only; larger widths are not covered")


def _mk_sx(rng, i, cex, nr):
    if i < 40:
        n = 1 + i % 8
        x = [0, 1, (1 << n) - 1, 1 << (n - 1), (1 << (n - 1)) - 1][i // 8] % (1 << n)
        return dict(x=x, n=n)
    n = rng.randint(1, 63)
    return dict(x=rng.getrandbits(n), n=n)


contract(F, "signExtend", P, params=dict(x=INT, n=INT), returns=INT, modifies=[],
         requires=["n >= 1", "n <= 63", "x >= 0", "x < 2 ** n"], assumes=["sx_facts(x, n)"],
         ensures=["result == (x if x < 2 ** (n - 1) else x - 2 ** n)",
                  "-(2 ** (n - 1)) <= result and result < 2 ** (n - 1)",
                  # congruent to x modulo 2^n (same low n bits)
                  "result == x or result == x - 2 ** n"],
         note="two's complement of an n-bit field, 1 <= n <= 63 (bound of lemma G)",
         replay=dict(make=_mk_sx, count=300))


# =============================================================================== bit-field formats (abstract)
# `fmt.split()` is an abstract token list: nf(fmt) >= 0 tokens, token j = tok(fmt, j), int(token) = its value.
# width(fmt, j) = int(tok(fmt, j)).  Each call of split() returns a NEW list with these tokens.
# Domain (stated, not proved): every token is an integer literal (otherwise int() raises ValueError) with value
# >= 0 (a negative width makes `2**bfl` a float and `&` a TypeError).
TOK = Opaque("c40tok")
_TS = opaque_sort("c40tok")
_SS = z3.StringSort()
_nf = z3.Function("fmt_nf", _SS, I)
_tok = z3.Function("fmt_tok", _SS, I, _TS)
_tokint = z3.Function("tok_int", _TS, I)
_S = z3.Function("fmt_S", _SS, I, I)             # S(fmt, k) = width(0) + ... + width(k-1)


def _width(f, j):
    return _tokint(_tok(f, j))


def _S_unfold(E, f, k):
    """S(fmt, 0) = 0 ; S(fmt, k+1) = S(fmt, k) + width(fmt, k)  -- definition, unfolded one level at each use"""
    k = z3.simplify(k)
    _assume(E, z3.Implies(k <= 0, _S(f, k) == 0))
    _assume(E, z3.Implies(k > 0, _S(f, k) == _S(f, k - 1) + _width(f, k - 1)))
    return _S(f, k)


def _ext_split(E, args, kwargs):
    f = args[0]
    if len(args) != 1 or kwargs or not (isinstance(f, Sym) and f.k == "str"):
        raise Unsupported("str.split%r outside the C40 format abstraction" % (args[1:],))
    E.assume(_nf(f.t) >= 0)
    return E.new_list(TOK, _nf(f.t), [z3.Lambda([B.KLAM], _tok(f.t, B.KLAM))])


def _ext_int_of_token(E, args, kwargs):
    v = args[0]
    if len(args) == 1 and isinstance(v, Sym) and v.k == ("opaque", "c40tok"):
        return Sym(_tokint(v.t), "int")
    raise Unsupported("int(%r) outside the C40 format abstraction" % (args,))


EXT["str.split"] = _ext_split
EXT["int(str)"] = _ext_int_of_token

_prev_sum_hook = getattr(REG, "sum_hook", None)


def _sum_hook(E, node):
    """sum(int(x) for x in <fmt>.split())  ==  S(fmt, nf(fmt))   (sum = left fold of + from 0 over the tokens)"""
    c = E.reg.active
    g = node.args[0]
    gen = g.generators[0] if len(g.generators) == 1 else None
    elt, it = g.elt, (gen.iter if gen is not None else None)
    if c is not None and c.rel == F and gen is not None and not gen.ifs and isinstance(gen.target, ast.Name) \
            and "int" not in E.frame.env \
            and isinstance(elt, ast.Call) and isinstance(elt.func, ast.Name) and elt.func.id == "int" \
            and len(elt.args) == 1 and not elt.keywords and isinstance(elt.args[0], ast.Name) \
            and elt.args[0].id == gen.target.id \
            and isinstance(it, ast.Call) and isinstance(it.func, ast.Attribute) and it.func.attr == "split" \
            and not it.args and not it.keywords:
        fv = E.eval(it.func.value)
        if isinstance(fv, Sym) and fv.k == "str":
            E.assume(_nf(fv.t) >= 0)
            return Sym(_S_unfold(E, fv.t, _nf(fv.t)), "int")
    return _prev_sum_hook(E, node) if _prev_sum_hook is not None else None


REG.sum_hook = _sum_hook
REG.assume_note("C40 format strings are abstract: fmt.split() is a NEW list of nf(fmt) >= 0 tokens tok(fmt, j) on "
                "each call, int(token) is its integer value width(fmt, j) (domain: every token is an integer "
                "literal, else int() raises ValueError - not covered), and sum(int(x) for x in fmt.split()) is the "
                "prefix sum S(fmt, nf(fmt)) with S(0) = 0, S(k+1) = S(k) + width(k) (Python's sum = left fold of +)")

# ---- field values: an immutable integer sequence (tuple, or a list that is neither mutated during the call nor
# aliased with the output buffer)
classdecl("C40Seq", fields={})
_seq_at = z3.Function("seq_at", I, I, I)
_seq_len = z3.Function("seq_len", I, I)


@hook("C40Seq", "getitem")
def _seq_getitem(E, o, idx):
    n = _seq_len(o.t)
    E.assume(n >= 0)
    return Sym(_seq_at(o.t, B.norm_index(E, idx, n, "fields index")), "int")


@hook("C40Seq", "len")
def _seq_lenhook(E, o):
    E.assume(_seq_len(o.t) >= 0)
    return Sym(_seq_len(o.t), "int")


REG.assume_note("C40: `fields` is an immutable sequence of ints/bools (a tuple, or a list that is not the output "
                "buffer and is not mutated during the call); an IndexError for too few fields is excluded by "
                "`requires len(fields) >= nf(fmt)`")

_PK = z3.Function("PK", _SS, I, I, I, I)         # PK(fmt, fields, 8*size, k): the first k fields packed


def _m(f, fl, j):
    """what field j contributes: its truth value for a one-bit field, else the value masked to the width"""
    v = _seq_at(fl, j)
    w = _width(f, j)
    return z3.If(w == 1, z3.If(v != 0, z3.IntVal(1), z3.IntVal(0)), band(v, pow2(w) - 1))


def _PK_unfold(E, f, fl, s8, k):
    """PK(0) = 0 ; PK(k+1) = bor(PK(k), shl(m_k, 8*size - S(k+1)))  -- written from the statement: field k sits
    directly below the k fields before it, S(k+1) bits from the top of the 8*size-bit word"""
    k = z3.simplify(k)
    _assume(E, z3.Implies(k <= 0, _PK(f, fl, s8, k) == 0))
    _assume(E, z3.Implies(k > 0, _PK(f, fl, s8, k) ==
                        bor(_PK(f, fl, s8, k - 1), shl(_m(f, fl, k - 1), s8 - _S_unfold(E, f, k)))))
    return _PK(f, fl, s8, k)


@specfunc
def nfields(E, fmt):
    E.assume(_nf(zstr(fmt)) >= 0)
    return Sym(_nf(zstr(fmt)), "int")


@specfunc
def fwidth(E, fmt, j):
    return Sym(_width(zstr(fmt), zint(j)), "int")


@specfunc
def Ssum(E, fmt, k):
    return Sym(_S_unfold(E, zstr(fmt), zint(k)), "int")


@specfunc
def valid_fmt(E, fmt):
    f = zstr(fmt)
    j = z3.Int("j!vf%d" % next(E.counter))
    return Sym(z3.And(_nf(f) >= 0, z3.ForAll([j], z3.Implies(z3.And(j >= 0, j < _nf(f)), _width(f, j) >= 0))), "bool")


@specfunc
def S_mono(E, fmt):
    """conclusion of lemma S (REG.lemmas, induction): prefix sums of non-negative widths are monotone"""
    f = zstr(fmt)
    j = z3.Int("j!sm%d" % next(E.counter))
    return Sym(z3.ForAll([j], z3.Implies(z3.And(j >= 0, j <= _nf(f)),
                                         z3.And(_S(f, j) >= 0, _S(f, j) <= _S(f, _nf(f))))), "bool")


@specfunc
def esize(E, size, fmt):
    """number of bytes: `size`, or the least number of bytes that hold all the fields when size is None"""
    f = zstr(fmt)
    tot = _S_unfold(E, f, _nf(f))
    least = (tot + 7) / 8
    if size is None:
        return Sym(least, "int")
    if isinstance(size, OptV):
        return Sym(z3.If(size.isnone, least, zint(size.val)), "int")
    return Sym(zint(size), "int")


@specfunc
def PKv(E, fmt, fields, size8, k):
    return Sym(_PK_unfold(E, zstr(fmt), fields.t, zint(size8), zint(k)), "int")


def _toks(fmt):
    return [int(x) for x in fmt.split()]


def _pk_native(fmt, fields, size8, k):
    """independent reference: arithmetic (sum of masked values times powers of two), no bit operators"""
    ws = _toks(fmt)
    total, used = 0, 0
    for j in range(k):
        used += ws[j]
        v = (1 if fields[j] else 0) if ws[j] == 1 else int(fields[j]) % (2 ** ws[j])
        total += v * 2 ** (size8 - used)
    return total


nfields.native = lambda fmt: len(fmt.split())
fwidth.native = lambda fmt, j: _toks(fmt)[j]
Ssum.native = lambda fmt, k: sum(_toks(fmt)[:k])
valid_fmt.native = lambda fmt: all(w >= 0 for w in _toks(fmt))
S_mono.native = lambda fmt: True
esize.native = lambda size, fmt: size if size is not None else -(-sum(_toks(fmt)) // 8)
PKv.native = _pk_native

FITS = "0 <= Ssum(fmt, nfields(fmt)) and Ssum(fmt, nfields(fmt)) <= 8 * esize(size, fmt)"
PKN = "bytify_n0(PKv(fmt, fields, 8 * esize(size, fmt), nfields(fmt)), esize(size, fmt), True)"
PACK_LOOP = dict(inv=["n == PKv(fmt, fields, 8 * size, _i)", "bfp == 8 * size - Ssum(fmt, _i)",
                      "bu == Ssum(fmt, _i)",
                      # the next field still fits (lemma S): its shift count 8*size - S(_i+1) is not negative
                      "implies(_i < nfields(fmt), Ssum(fmt, _i + 1) <= Ssum(fmt, nfields(fmt)))"])
PACK_PARAMS = dict(fmt=STR, fields=Ref("C40Seq"), size=Opt(INT), reverse=BOOL)
PACK_REQ = ["valid_fmt(fmt)", "len(fields) >= nfields(fmt)"]

_FMT_POOL = ["8", "1 3 2 2", "1 1 1 1 1 1 1 1", "4 4", "3 5 8", "16", "1 7 8 16", "0 8", "", "12 4", "2 2 2 2 2 2 2 2",
             "7", "9", "1 1 6 8 8", "64", "5 0 3", "24 8", "1", "3"]


def _mk_fmt(rng, i):
    if i < len(_FMT_POOL):
        return _FMT_POOL[i]
    return " ".join(str(rng.choice([0, 1, 1, 2, 3, 4, 5, 7, 8, 9, 12, 16])) for _ in range(rng.randint(0, 6)))


def _mk_fields(rng, fmt, i):
    ws = _toks(fmt)
    extra = rng.randint(0, 2)
    vals = []
    for w in ws + [3] * extra:
        r = rng.random()
        if r < 0.15:
            vals.append(bool(rng.getrandbits(1)))
        elif r < 0.3:
            vals.append(-rng.getrandbits(10))
        elif r < 0.5:
            vals.append(rng.getrandbits(max(w, 1) + 3))
        else:
            vals.append(rng.getrandbits(max(w, 1)))
    return tuple(vals) if i % 2 else list(vals)


def _mk_size(rng, fmt, i):
    tot = sum(_toks(fmt))
    least = -(-tot // 8)
    return rng.choice([None, None, least, least + 1, least + 3, max(least - 1, 0)])


def _mk_packify(rng, i, cex, nr):
    fmt = _mk_fmt(rng, i)
    return dict(fmt=fmt, fields=_mk_fields(rng, fmt, i), size=_mk_size(rng, fmt, i), reverse=bool(rng.getrandbits(1)))


contract(F, "packify", P, params=PACK_PARAMS, returns=BYTEARR, requires=PACK_REQ, assumes=["S_mono(fmt)"],
         modifies=[], externals=EXT, loops={0: PACK_LOOP},
         ensures=[FITS,
                  # the bytes are bytify(n = PK(all fields), size, reverse, strict=True)
                  "bytes_cert(result, %s, reverse)" % PKN,
                  "len(result) == esize(size, fmt)", "fresh(result)"],
         raises={"ValueError": ["not (%s)" % FITS]},
         note="negative field widths and non-numeric tokens are out of domain",
         replay=dict(make=_mk_packify, count=500))


def _S_lemmas():
    f = z3.String("f")
    k, j = z3.Ints("k j")
    nfv = _nf(f)
    valid = z3.And(nfv >= 0, z3.ForAll([j], z3.Implies(z3.And(j >= 0, j < nfv), _width(f, j) >= 0)))
    Sdef = lambda t: z3.And(z3.Implies(t <= 0, _S(f, t) == 0),
                            z3.Implies(t > 0, _S(f, t) == _S(f, t - 1) + _width(f, t - 1)))
    # lemma S (the quantified fact `S_mono` assumed by packify / packifyInto / unpackify):
    #   0 <= S(k) (upward induction)  and  S(k) <= S(nf) (induction on nf - k), for 0 <= k <= nf
    _lemma("S prefix sums >= 0/base", [valid, Sdef(z3.IntVal(0))], _S(f, 0) >= 0)
    _lemma("S prefix sums >= 0/step", [valid, k >= 0, k < nfv, _S(f, k) >= 0, Sdef(k + 1)], _S(f, k + 1) >= 0)
    _lemma("S prefix sums <= total/base", [valid], _S(f, nfv) <= _S(f, nfv))
    _lemma("S prefix sums <= total/step", [valid, k >= 0, k < nfv, _S(f, k + 1) <= _S(f, nfv), Sdef(k + 1)],
           _S(f, k) <= _S(f, nfv))


_S_lemmas()


# =============================================================================== packifyInto
def _into_terms(E, b, b0, offset, esz):
    return _llen(E, b), _llen(E, b0), _arr(E, b), _arr(E, b0), zint(offset), zint(esz)


# b0 = the buffer at entry (ghost snapshot).  Three clauses: length, other bytes undisturbed, zero extension.
@specfunc
def into_len(E, b, b0, offset, esz):
    """the buffer keeps its length, or grows to offset+size when it was shorter"""
    n, n0, a, a0, off, sz = _into_terms(E, b, b0, offset, esz)
    return Sym(n == z3.If(n0 >= off + sz, n0, off + sz), "bool")


@specfunc
def into_keep(E, b, b0, offset, esz):
    """bytes outside [offset, offset+size) keep their old value"""
    n, n0, a, a0, off, sz = _into_terms(E, b, b0, offset, esz)
    k = z3.Int("k!ik%d" % next(E.counter))
    return Sym(z3.ForAll([k], z3.Implies(z3.And(k >= 0, k < n0, z3.Or(k < off, k >= off + sz)),
                                         z3.Select(a, k) == z3.Select(a0, k))), "bool")


@specfunc
def into_zero(E, b, b0, offset, esz):
    """positions the buffer did not have before and that lie below the slice (old length <= k < offset) are zero"""
    n, n0, a, a0, off, sz = _into_terms(E, b, b0, offset, esz)
    k = z3.Int("k!iz%d" % next(E.counter))
    return Sym(z3.ForAll([k], z3.Implies(z3.And(k >= n0, k < off), z3.Select(a, k) == 0)), "bool")


into_len.native = lambda b, b0, offset, esz: len(b) == max(len(b0), offset + esz)
into_keep.native = lambda b, b0, offset, esz: all(b[k] == b0[k] for k in range(min(len(b0), len(b)))
                                                  if k < offset or k >= offset + esz) and len(b) >= len(b0)
into_zero.native = lambda b, b0, offset, esz: all(b[k] == 0 for k in range(len(b0), min(offset, len(b))))


def _mk_packify_into(rng, i, cex, nr):
    env = _mk_packify(rng, i, cex, nr)
    env["offset"] = rng.choice([0, 0, 1, 2, 5])
    env["b"] = bytearray(rng.randrange(256) for _ in range(rng.choice([0, 1, 2, 4, 8, 12])))
    env["b0"] = list(env["b"])            # ghost: the buffer at entry (never passed to the function)
    return env


def _call_without_ghosts(env, nr):
    return nr.fn(**{k: v for k, v in env.items() if k != "b0" and not k.startswith("_")})


def _setup_b0(E):
    """ghost `b0`: a snapshot (separate list object) of the buffer's content at entry"""
    b = E.frame.env["b"]
    E.ghost["b0"] = E.new_list(INT, _llen(E, b), [_arr(E, b)])


contract(F, "packifyInto", P, params=dict(PACK_PARAMS, b=BYTEARR, offset=INT), returns=INT,
         requires=PACK_REQ + ["offset >= 0"], assumes=["S_mono(fmt)"],
         modifies=["b[*]"], externals=EXT, loops={0: PACK_LOOP},
         ensures=[FITS, "result == esize(size, fmt)",
                  # other bytes undisturbed, buffer extended with zeros when shorter
                  "into_len(b, b0, offset, esize(size, fmt))", "into_keep(b, b0, offset, esize(size, fmt))",
                  "into_zero(b, b0, offset, esize(size, fmt))",
                  # the slice holds exactly the bytes packify returns
                  "bytes_cert_at(b, offset, esize(size, fmt), %s, reverse)" % PKN],
         raises={"ValueError": ["not (%s)" % FITS, "seq_eq(b, b0)"]},
         note="offset < 0 is out of domain",
         setup=_setup_b0, replay=dict(make=_mk_packify_into, call=_call_without_ghosts, count=500))


# =============================================================================== unpackify
def _ufield(f, zn, s8, j, bl):
    """field j read back from the word zn: the bits at position p_j = 8*size - S(j+1), w_j wide, moved down;
    as a truth value for a one-bit field when `boolean`"""
    w = _width(f, j)
    p = s8 - _S(f, j + 1)
    ext = shr(band(zn, shl(pow2(w) - 1, p)), p)
    return z3.If(z3.And(w == 1, bl), z3.If(ext != 0, z3.IntVal(1), z3.IntVal(0)), ext)


@specfunc
def fields_ok(E, lst, fmt, n, size8, boolean, upto):
    """lst[j] is field j of the word n, for every j < upto (True/False are the ints 1/0 in the model; the native
    twin also checks that a requested boolean IS a bool)"""
    f, zn, s8 = zstr(fmt), zint(n), zint(size8)
    bl = E.tobool(E.truth(boolean))
    if lst.et is None:
        return Sym(zint(upto) <= 0, "bool")
    arr = _arr(E, lst)
    j = z3.Int("j!fo%d" % next(E.counter))
    return Sym(z3.ForAll([j], z3.Implies(z3.And(j >= 0, j < zint(upto)),
                                         z3.Select(arr, j) == _ufield(f, zn, s8, j, bl))), "bool")


@specfunc
def pad_field(E, n, bfp, boolean):
    """the padding field: the bfp low bits of n left over after the last field"""
    v = band(zint(n), pow2(zint(bfp)) - 1)
    return Sym(z3.If(z3.And(zint(bfp) == 1, E.tobool(E.truth(boolean))),
                     z3.If(v != 0, z3.IntVal(1), z3.IntVal(0)), v), "int")


@specfunc
def unp_n(E, b, reverse, nbytes):
    """THE unsigned integer of the first `nbytes` bytes of b (b reversed first when `reverse`): the value that
    `horner_view` ties to the bytes.  Proof side: the local n of unpackify (= the result of unbytify)."""
    if E.assuming:
        raise Unsupported("unpackify's contract is not meant to be used at call sites")
    return E.frame.env["L_n"]


@specfunc
def horner_view(E, n, b, reverse, nbytes):
    """exists h: h[0] == 0, h[k+1] == 256*h[k] + s[k] (k < m), n == h[m]   with m = min(nbytes, len(b)) and
    s = b, or b reversed.  Witness: the sequence of the unbytify call on this path."""
    L = _llen(E, b)
    arr = _arr(E, b)
    rv = E.tobool(E.truth(reverse))
    nb = zint(nbytes)
    m = z3.If(nb < L, z3.If(nb < 0, z3.IntVal(0), nb), L)
    h = getattr(E, "c40_last_h", None)
    if E.assuming or h is None:
        raise Unsupported("horner_view without a witness")
    k = z3.Int("k!hv%d" % next(E.counter))
    body = z3.Select(h, k + 1) == 256 * z3.Select(h, k) + _view(arr, rv, L, k)
    return Sym(z3.And(z3.Select(h, z3.IntVal(0)) == 0, zint(n) == z3.Select(h, m),
                      z3.ForAll([k], z3.Implies(z3.And(k >= 0, k < m), body))), "bool")


def _unp_n_native(b, reverse, nbytes):
    seq = list(b)[::-1] if reverse else list(b)
    return int.from_bytes(bytes(seq[:max(nbytes, 0)]), "big")


def _ufield_native(fmt, n, size8, j, boolean):
    ws = _toks(fmt)
    p = size8 - sum(ws[:j + 1])
    v = (n // 2 ** p) % (2 ** ws[j])           # arithmetic reference, no bit operators
    return bool(v) if (ws[j] == 1 and boolean) else v


def _fields_ok_native(lst, fmt, n, size8, boolean, upto):
    for j in range(upto):
        want = _ufield_native(fmt, n, size8, j, boolean)
        if lst[j] != want or type(lst[j]) is not type(want):
            return False
    return True


def _pad_native(n, bfp, boolean):
    v = n % (2 ** bfp)
    return bool(v) if (bfp == 1 and boolean) else v


fields_ok.native = _fields_ok_native
pad_field.native = _pad_native
unp_n.native = _unp_n_native
horner_view.native = lambda n, b, reverse, nbytes: n == _unp_n_native(b, reverse, nbytes)


def _ext_tuple(E, args, kwargs):
    """tuple(list): an immutable sequence with the same elements - modelled as a NEW list (the model has no
    symbolic-length tuples)"""
    if len(args) == 1 and isinstance(args[0], ListV):
        a = args[0]
        return E.new_list(a.et, _llen(E, a), E.larrs(a) if a.et is not None else None)
    raise Unsupported("tuple(%r) outside the C40 model" % (args,))


REG.assume_note("C40 unpackify: the returned tuple is modelled as a new list with the same elements, and "
                "True/False stored in it as the ints 1/0 (True == 1 in Python); that a requested boolean is of "
                "type bool is checked by the native cross-check only")

_EXT_UNP = dict(EXT)
_EXT_UNP[tuple] = _ext_tuple
UNP_N = "unp_n(b, reverse, esize(size, fmt))"
PADBITS = "8 * esize(size, fmt) - Ssum(fmt, nfields(fmt))"


def _mk_unpackify(rng, i, cex, nr):
    fmt = _mk_fmt(rng, i)
    size = _mk_size(rng, fmt, i)
    nb = (size if size is not None else -(-sum(_toks(fmt)) // 8)) + rng.choice([0, 0, 0, 1, 2, -1])
    return dict(fmt=fmt, b=bytearray(rng.randrange(256) for _ in range(max(nb, 0))),
                boolean=bool(rng.getrandbits(1)), size=size, reverse=bool(rng.getrandbits(1)))


contract(F, "unpackify", P, params=dict(fmt=STR, b=BYTEARR, boolean=BOOL, size=Opt(INT), reverse=BOOL),
         returns=List(INT), requires=["valid_fmt(fmt)", "is_bytes(b)"], assumes=["S_mono(fmt)"],
         modifies=[], externals=_EXT_UNP, local_types={"fields": List(INT)},
         loops={0: dict(inv=["len(fields) == _i", "bfp == 8 * size - Ssum(fmt, _i)", "bu == Ssum(fmt, _i)",
                             "implies(_i < nfields(fmt), Ssum(fmt, _i + 1) <= Ssum(fmt, nfields(fmt)))",
                             "fields_ok(fields, fmt, n, 8 * size, boolean, _i)"])},
         ensures=[FITS,
                  # the word that is taken apart is the big-endian value of the first `size` bytes
                  "horner_view(%s, b, reverse, esize(size, fmt))" % UNP_N,
                  "len(result) == nfields(fmt) + (0 if %s == 0 else 1)" % PADBITS,
                  "fields_ok(result, fmt, %s, 8 * esize(size, fmt), boolean, nfields(fmt))" % UNP_N,
                  "implies(%s != 0, result[nfields(fmt)] == pad_field(%s, %s, boolean))" % (PADBITS, UNP_N, PADBITS),
                  "fresh(result)"],
         raises={"ValueError": ["not (%s)" % FITS]},
         note="the result tuple is modelled as a list",
         replay=dict(make=_mk_unpackify, count=500))


# =============================================================================== lemma E: pack / unpack round trip
def _E_lemmas():
    """REAL semantics of << >> & | on 64-bit vectors, total width T = 8*size <= 63 bits (THE BOUND of this lemma:
    below 2^63 nothing wraps, so the 64-bit operators coincide with Python's).  Everything else is symbolic:
    number of fields, widths, positions, field values.  Induction on the number k of packed fields; state
      P = PK(k), sk = S(k)      I(k):  (a) P < 2^T   (b) the T - sk low bits of P are zero
                                       (c) every earlier field j < k reads back as m_j
    A field value enters only through m = its masked value, any number in [0, 2^w)  (for a one-bit field 0/1)."""
    W = 64
    T, sk, w, m, Pk, p, wj = z3.BitVecs("T sk w m P p wj", W)
    one = z3.BitVecVal(1, W)
    ones = lambda width: (one << width) - 1                       # 2^width - 1
    ext = lambda word, pos, width: z3.LShR(word & (ones(width) << pos), pos)   # unpackify's expression
    lowzero = lambda word, nbits: (word & ones(nbits)) == 0
    _lemma("E round trip/base (64-bit vectors, 8*size <= 63)", [z3.ULE(T, 63)],
           z3.And(z3.LShR(z3.BitVecVal(0, W), T) == 0, lowzero(z3.BitVecVal(0, W), T)))
    pn = T - sk - w                                                # position of the new field: T - S(k+1)
    P1 = Pk | (m << pn)                                            # PK(k+1)
    pre = [z3.ULE(T, 63), z3.ULE(sk, T), z3.ULE(w, T - sk),        # S(k) + w_k <= T   (lemma S, FITS)
           z3.ULE(m, ones(w)),                                     # masked value
           z3.LShR(Pk, T) == 0, lowzero(Pk, T - sk)]               # I(k) (a), (b)
    _lemma("E round trip/step: new field reads back, bounds kept (64-bit vectors, 8*size <= 63)", pre,
           z3.And(z3.LShR(m << pn, pn) == m,                       # the shift loses no bit
                  z3.LShR(P1, T) == 0, lowzero(P1, pn),            # I(k+1) (a), (b)
                  ext(P1, pn, w) == m))                            # (c) for j = k
    _lemma("E round trip/step: earlier fields undisturbed (64-bit vectors, 8*size <= 63)",
           pre + [z3.ULE(wj, T), z3.ULE(p, T - wj), z3.UGE(p, T - sk)],   # field j < k: T - S(k) <= p_j, p_j + w_j <= T
           z3.And(z3.LShR(ones(wj) << p, p) == ones(wj),           # its mask is not shifted out
                  ext(P1, p, wj) == ext(Pk, p, wj)))               # (c) for j < k carried over
    # consequences used by the round trip: the strict mask of bytify is the identity on PK, the padding field is 0
    _lemma("E round trip/use: mask and padding (64-bit vectors, 8*size <= 63)",
           [z3.ULE(T, 63), z3.ULE(sk, T), z3.LShR(Pk, T) == 0, lowzero(Pk, T - sk)],
           z3.And((Pk & ones(T)) == Pk, (Pk & ones(T - sk)) == 0))


_E_lemmas()
REG.assume_note("C40 lemma E (unpackify(packify(v)) returns each masked value, padding 0, PK < 2^(8 size)) is proved "
                "with the real semantics of the operators on 64-bit vectors for total width 8*size <= 63 bits only "
                "(any field count, widths, values); positions p_j >= 8*size - S(k) for j < k come from lemma S; the "
                "bridge between the uninterpreted shl/shr/band/bor of the function contracts and the 64-bit "
                "operators is the standard reading (values below 2^63, no wrap: obligations of the lemma)")


# =============================================================================== binary strings
# A text is modelled as a list of characters; a character is its code point (an opaque value whose carrier sort
# is Int: equality of characters = equality of code points; no arithmetic is available on it in the engine).
from pyvc import values as _V
_V._opaque_sorts.setdefault("c40ch", z3.IntSort())
CH = Opaque("c40ch")
TEXT = List(CH)
_BV2 = z3.Function("BINVAL", AII, I, I)          # value of the first k characters of a binary string


def _mkch(code):
    return Sym(code if z3.is_expr(code) else z3.IntVal(code), ("opaque", "c40ch"))


def _ext_int_any(E, args, kwargs):
    """int(token) of the format abstraction, or int(c) of a character: defined in the model for '0' and '1' only
    (anything else is outside the domain of unbinize: ValueError for a non-digit)"""
    v = args[0]
    if len(args) == 1 and isinstance(v, Sym) and v.k == ("opaque", "c40ch"):
        E.oblige("safe", z3.Or(v.t == 48, v.t == 49), "int(c): c is '0' or '1'")
        return Sym(v.t - 48, "int")
    return _ext_int_of_token(E, args, kwargs)


def _ext_str_of_digit(E, args, kwargs):
    """str(d) for an int 0 <= d <= 9: the one-character text chr(48 + d)"""
    if len(args) == 1 and isinstance(args[0], Sym) and args[0].k == "int":
        E.oblige("safe", z3.And(args[0].t >= 0, args[0].t <= 9), "str(d): d is a single decimal digit (model)")
        return _mkch(48 + args[0].t)
    raise Unsupported("str(%r) outside the C40 model" % (args,))


def _ext_join(E, args, kwargs):
    """"".join(list of one-character texts) = the text with these characters"""
    if len(args) == 2 and args[0] == "" and isinstance(args[1], ListV) and args[1].et is not None \
            and args[1].et.key() == CH.key():
        return args[1]
    raise Unsupported("str.join outside the C40 model")


EXT_BIN = dict(EXT)
EXT_BIN["int(str)"] = _ext_int_any
EXT_BIN[str] = _ext_str_of_digit
EXT_BIN["str.join"] = _ext_join
REG.assume_note("C40 binize/unbinize: a text is a list of characters (code points); int(c) is modelled for '0'/'1' "
                "(obligation), str(d) for a digit 0..9 is chr(48+d), ''.join of one-character texts is the text of "
                "these characters; iterating a str yields its characters in order")


def _binval_unfold(E, arr, k):
    """BINVAL(0) = 0 ; BINVAL(k+1) = 2*BINVAL(k) + (1 if u[k] == '1' else 0)"""
    k = z3.simplify(k)
    _assume(E, z3.Implies(k <= 0, _BV2(arr, k) == 0))
    _assume(E, z3.Implies(k > 0, _BV2(arr, k) == 2 * _BV2(arr, k - 1) + z3.If(z3.Select(arr, k - 1) == 49, 1, 0)))
    return _BV2(arr, k)


@specfunc
def binval(E, u, k):
    return Sym(_binval_unfold(E, _arr(E, u), zint(k)), "int")


@specfunc
def is_binstr(E, u):
    if u.et is None:
        return True
    n, arr = _llen(E, u), _arr(E, u)
    k = z3.Int("k!bs%d" % next(E.counter))
    return Sym(z3.ForAll([k], z3.Implies(z3.And(k >= 0, k < n), z3.Or(z3.Select(arr, k) == 48, z3.Select(arr, k) == 49))),
               "bool")


@specfunc
def bin_digits(E, result, n, size):
    """character k of binize(n, size) is the binary digit of weight 2^(size-1-k) of n:  (n >> (size-1-k)) mod 2"""
    L, arr = _llen(E, result), _arr(E, result)
    zn, zs = zint(n), zint(size)
    k = z3.Int("k!bd%d" % next(E.counter))
    return Sym(z3.And(L == z3.If(zs > 0, zs, 0),
                      z3.ForAll([k], z3.Implies(z3.And(k >= 0, k < L),
                                                z3.Select(arr, k) == 48 + shr(zn, zs - 1 - k) % 2))), "bool")


binval.native = lambda u, k: sum((1 if c == "1" else 0) * 2 ** (k - 1 - j) for j, c in enumerate(u[:k]))
is_binstr.native = lambda u: all(c in "01" for c in u)
bin_digits.native = lambda result, n, size: isinstance(result, str) and len(result) == max(size, 0) and \
    all(result[k] == "01"[(n // 2 ** (size - 1 - k)) % 2] for k in range(len(result)))


def _mk_binize(rng, i, cex, nr):
    pool = [(0, 8), (11, 4), (255, 8), (256, 8), (-1, 4), (-6, 5), (5, 0), (1, 1), (0, 1), (1 << 70, 72)]
    if i < len(pool):
        return dict(n=pool[i][0], size=pool[i][1])
    return dict(n=rng.getrandbits(rng.choice([1, 4, 8, 9, 33, 70])) * rng.choice([1, 1, -1]), size=rng.randint(0, 75))


def _mk_unbinize(rng, i, cex, nr):
    pool = ["", "0", "1", "1011", "0000", "1111", "0001", "1000"]
    if i < len(pool):
        return dict(u=pool[i])
    return dict(u="".join(rng.choice("01") for _ in range(rng.randint(0, 80))))


contract(F, "binize", P, params=dict(n=INT, size=INT), returns=TEXT, modifies=[], externals=EXT_BIN,
         ensures=["bin_digits(result, n, size)"],
         note="the result text is modelled as a list of characters", replay=dict(make=_mk_binize, count=300))

contract(F, "unbinize", P, params=dict(u=TEXT), returns=INT, requires=["is_binstr(u)"], modifies=[],
         externals=EXT_BIN, loops={0: dict(inv=["n == binval(u, _i)"])},
         ensures=["result == binval(u, len(u))"],
         note="domain: texts over '0'/'1'", replay=dict(make=_mk_unbinize, count=300))


def _bin_lemmas():
    """binize / unbinize are mutual inverses - REAL operators on 64-bit vectors, size <= 63 bits (bound of these
    lemmas; the two function contracts above are unbounded).  V(k) = value of the first k characters."""
    W = 64
    n, s, k, V, j, bit = z3.BitVecs("n s k V j bit", W)
    one = z3.BitVecVal(1, W)
    ones = lambda width: (one << width) - 1
    # B1  unbinize(binize(n, size)) == n mod 2^size (two's complement for negative n; >> is the arithmetic shift):
    #     V(k) == (n >> (size-k)) & (2^k - 1)  by induction on k; digit k of binize is (n >> (size-1-k)) & 1
    _lemma("B1 unbinize(binize(n)) == n mod 2^size/base (64-bit vectors, size <= 63)", [z3.ULE(s, 63)],
           z3.BitVecVal(0, W) == ((n >> s) & ones(z3.BitVecVal(0, W))))
    _lemma("B1 unbinize(binize(n)) == n mod 2^size/step (64-bit vectors, size <= 63)",
           [z3.ULE(s, 63), z3.ULT(k, s), V == ((n >> (s - k)) & ones(k))],
           z3.And(z3.ULE(V, ones(k)),
                  2 * V + ((n >> (s - 1 - k)) & 1) == ((n >> (s - (k + 1))) & ones(k + 1))))
    _lemma("B1 unbinize(binize(n)) == n mod 2^size/use (64-bit vectors, size <= 63)",
           [z3.ULE(s, 63), V == ((n >> (s - s)) & ones(s))], V == (n & ones(s)))
    # B2  binize(unbinize(u), len(u)) == u:  digit j of V(k) (weight 2^(k-1-j)) is the j-th character, V(k) < 2^k
    _lemma("B2 binize(unbinize(u)) == u/step: new digit (64-bit vectors, len <= 63)",
           [z3.ULT(k, 63), z3.ULE(V, ones(k)), z3.ULE(bit, 1)],
           z3.And(z3.ULE(2 * V + bit, ones(k + 1)), ((2 * V + bit) & 1) == bit))
    _lemma("B2 binize(unbinize(u)) == u/step: earlier digits (64-bit vectors, len <= 63)",
           [z3.ULT(k, 63), z3.ULE(V, ones(k)), z3.ULE(bit, 1), z3.ULT(j, k)],
           (((2 * V + bit) >> (k - j)) & 1) == ((V >> (k - 1 - j)) & 1))


_bin_lemmas()


# =============================================================================== hex text of bytes
_HEXCH = "0123456789abcdef"


def _hex_table_check():
    """per-byte facts, FINITE and COMPLETE: the real library evaluated on all 256 bytes at check time -
    '{0:02x}'.format(v) is the two lowercase hex digits (v div 16, v mod 16) and int(.., 16) inverts it"""
    for v in range(256):
        t = "{0:02x}".format(v)
        if t != _HEXCH[v // 16] + _HEXCH[v % 16] or len(t) != 2 or int(t, 16) != v or int(t.upper(), 16) != v:
            raise AssertionError("hex table: byte %d formats as %r" % (v, t))
    return 256


_N_HEX = _hex_table_check()


def _hexd(d):
    t = z3.StringVal(_HEXCH[15])
    for v in range(14, -1, -1):
        t = z3.If(d == v, z3.StringVal(_HEXCH[v]), t)
    return t


def _hex2(v):
    return z3.Concat(_hexd(v / 16), _hexd(v % 16))


_HXA = z3.Function("HEXA", AII, I, z3.StringSort())            # hex text of the first k elements of a byte list
_HXS = z3.Function("HEXS", SeqInt, I, z3.StringSort())         # ... of a bytes string


def _hex_unfold(E, fn, src, at, k):
    """HEX(0) = '' ; HEX(k+1) = HEX(k) ++ hex2(byte k)"""
    k = z3.simplify(k)
    _assume(E, z3.Implies(k <= 0, fn(src, k) == z3.StringVal("")))
    _assume(E, z3.Implies(k > 0, fn(src, k) == z3.Concat(fn(src, k - 1), _hex2(at(k - 1)))))
    return fn(src, k)


@specfunc
def hexfold(E, b, k):
    """concatenation of the two-digit lowercase hex of the first k bytes of b (bytearray model or bytes)"""
    if isinstance(b, ListV):
        arr = _arr(E, b)
        return Sym(_hex_unfold(E, _HXA, arr, lambda t: z3.Select(arr, t), zint(k)), "str")
    s = zbytes(b)
    return Sym(_hex_unfold(E, _HXS, s, lambda t: s[t], zint(k)), "str")


hexfold.native = lambda b, k: "".join(_HEXCH[x // 16] + _HEXCH[x % 16] for x in bytes(b)[:k])


def _ext_format(E, args, kwargs):
    """'{0:02x}'.format(v) for a byte v: its two hex digits (table checked on all 256 bytes at import);
    every other literal keeps the engine's default (message text, ignored)"""
    if args[0] == "{0:02x}" and len(args) == 2:
        v = args[1]
        if isinstance(v, int) and not isinstance(v, bool):
            return args[0].format(v)
        if isinstance(v, Sym) and v.k == "int":
            E.oblige("safe", z3.And(v.t >= 0, v.t <= 255), "'{0:02x}'.format(v): v is a byte (model)")
            return Sym(_hex2(v.t), "str")
        raise Unsupported("'{0:02x}'.format(%r)" % (v,))
    return None


def _ext_ord(E, args, kwargs):
    v = args[0]
    if isinstance(v, (str, bytes)) and len(v) == 1:
        return ord(v)
    if isinstance(v, Sym) and v.k == "bytes":
        n = z3.Length(v.t)
        if "TypeError" in E.raises_decl:
            if not E.branch(n == 1):
                raise PyRaise(ExcV(TypeError, ("ord() expected a character",)))
        else:
            E.oblige("safe", n == 1, "ord(x): x has length 1")
        r = Sym(v.t[0], "int")
        _assume(E, z3.And(r.t >= 0, r.t <= 255))         # element of a bytes string
        return r
    raise Unsupported("ord(%r) outside the C40 model" % (v,))


EXT_HEX = dict(EXT)
EXT_HEX["literal.format"] = _ext_format
EXT_HEX[ord] = _ext_ord
REG.assume_note("C40 hex codecs: '{0:02x}'.format(v) of a byte is modelled as the two lowercase hex digits of v div 16 "
                "and v mod 16, ord(x) of a one-byte bytes string as that byte (0..255); the per-byte facts (format, "
                "length 2, int(text, 16) == v, also for the upper-case text) are FINITE and were discharged by "
                "evaluating the real library on all %d bytes at check time (complete)" % _N_HEX)


def _g_hexify_in(E):
    E.ghost["b_in"] = E.frame.env["b"]


def _mk_hexify(rng, i, cex, nr):
    pool = [b"", b"\x00", b"\xff", b"\x0a\xb0", b"0123", bytes(range(16))]
    raw = pool[i] if i < len(pool) else bytes(rng.randrange(256) for _ in range(rng.randint(0, 40)))
    return dict(b=bytearray(raw) if i % 2 else raw)


contract(F, "hexify", P, params=dict(b=BYTEARR), returns=STR, requires=["is_bytes(b)"], modifies=[],
         externals=EXT_HEX, ghost={"before": {"b = bytearray(b)": _g_hexify_in}},
         loops={0: dict(inv=["h == hexfold(b_in, _i)", "len(h) == 2 * _i"])},
         ensures=["result == hexfold(b, len(b))", "len(result) == 2 * len(b)"],
         replay=dict(make=_mk_hexify, count=300))

contract(F, "hexize", P, params=dict(b=BYTES), returns=STR, modifies=[], externals=EXT_HEX,
         loops={0: dict(inv=["h == hexfold(b, _i)", "len(h) == 2 * _i"])},
         ensures=["result == hexfold(b, len(b))", "len(result) == 2 * len(b)"],
         replay=dict(make=lambda rng, i, cex, nr: dict(b=bytes(_mk_hexify(rng, i, cex, nr)["b"])), count=300))


# =============================================================================== BOUNDED stand-ins (NOT proofs)
# unhexify / unhexize filter their input with str.replace inside a loop over the characters and slice the text:
# outside the executor's string support.  They are checked by enumeration on the REAL functions in the native
# harness only (verify=False: no obligation is generated or counted for them).  Scope, per function:
#   * the hex text of EVERY byte string of length <= 2 (65 793 inputs: round trip unhex(hex(b)) == b),
#   * EVERY text of length <= 4 over the 10-character alphabet  0 1 9 a f A F g : <space>  (11 111 inputs; non-hex
#     characters, odd lengths, upper case),
#   * seeded random texts of up to 64 characters over hex digits, upper case and separators.
_UNHEX_ALPHA = "019afAFg: "
_N_B2 = 1 + 256 + 65536
_N_A4 = sum(len(_UNHEX_ALPHA) ** k for k in range(5))
UNHEX_COUNT = _N_B2 + _N_A4 + 3000


def _unhex_ref(h):
    """independent reference: drop every character that is not a hex digit, left-pad to even length with '0',
    read pairs of digits base 16"""
    digs = [c for c in h if c in "0123456789abcdefABCDEF"]
    if len(digs) % 2:
        digs.insert(0, "0")
    vals = ["0123456789abcdef".index(c.lower()) for c in digs]
    return bytes(16 * vals[i] + vals[i + 1] for i in range(0, len(vals), 2))


def _hex_norm(h):
    digs = "".join(c.lower() for c in h if c in "0123456789abcdefABCDEF")
    return ("0" + digs) if len(digs) % 2 else digs


@specfunc
def unhex_ref(E, h):
    raise Unsupported("bounded stand-in: unhex_ref has no symbolic counterpart")


@specfunc
def hex_norm(E, h):
    raise Unsupported("bounded stand-in: hex_norm has no symbolic counterpart")


unhex_ref.native = _unhex_ref
hex_norm.native = _hex_norm


def _mk_unhex(rng, i, cex, nr):
    if i < _N_B2:
        raw = b"" if i == 0 else (bytes([i - 1]) if i <= 256 else bytes(divmod(i - 257, 256)))
        return dict(h="".join("%02x" % x for x in raw))
    i -= _N_B2
    if i < _N_A4:
        n, base = 0, len(_UNHEX_ALPHA)
        while i >= base ** n:
            i -= base ** n
            n += 1
        s = ""
        for _ in range(n):
            s += _UNHEX_ALPHA[i % base]
            i //= base
        return dict(h=s)
    return dict(h="".join(rng.choice("0123456789abcdefABCDEF0123456789abcdef :-xg\n") for _ in range(rng.randint(0, 64))))


_BOUNDED_NOTE = ("BOUNDED stand-in (native enumeration on the real function, not a proof): hex text of all byte strings "
                 "of length <= 2, all texts of length <= 4 over '%s', 3000 seeded random texts of length <= 64"
                 % _UNHEX_ALPHA)

contract(F, "unhexify", P, params=dict(h=STR), returns=BYTEARR, verify=False, note=_BOUNDED_NOTE,
         ensures=["isinstance(result, bytearray) and bytes(result) == unhex_ref(h)",
                  # hexify . unhexify = normalisation (lower case, non-hex characters dropped, even length)
                  "mod.hexify(result) == hex_norm(h)",
                  # unhexify . hexify = identity
                  "mod.unhexify(mod.hexify(result)) == result"],
         replay=dict(make=_mk_unhex, count=UNHEX_COUNT))

contract(F, "unhexize", P, params=dict(h=STR), returns=BYTES, verify=False, note=_BOUNDED_NOTE,
         ensures=["isinstance(result, bytes) and result == unhex_ref(h)",
                  "mod.hexize(result) == hex_norm(h)",
                  "mod.unhexize(mod.hexize(result)) == result"],
         replay=dict(make=_mk_unhex, count=UNHEX_COUNT))


# =============================================================================== lemma E': round trip, UNBOUNDED
def _Eint_lemmas():
    """The pack / unpack round trip over the MATHEMATICAL integers (no width bound), relative to the arithmetic
    reading of the operators (identities I1-I5 below, cross-checked against CPython at import, not proved):
        I1 shl(a,k) = a*2^k        I2 shr(a,k) = a div 2^k        I3 band(a, 2^k - 1) = a mod 2^k
        I4 bor(a,b) = a + b  when a mod 2^k = 0 <= b < 2^k         I5 band(a, shl(m,p)) = shl(band(shr(a,p), m), p)
    so that   PK(k+1) = PK(k) + m_k * 2^(pn)   (I4, I1; side conditions are goals below)   and
              field(P, p, w) = shr(band(P, shl(2^w - 1, p)), p) = (P div 2^p) mod 2^w      (I5, I3, I1, I2).
    Invariant, with the witness A = PK(k) / 2^(T - S(k)):   P == A * 2^(T-sk)  and  0 <= A < 2^sk.
    pow2 facts used: positivity and additivity pow2(a+b) = pow2(a)*pow2(b) (lemma P2, induction on b)."""
    a, bb = z3.Ints("a bb")
    p2 = pow2
    _lemma("P2 pow2 additivity/base", [a >= 0, p2(z3.IntVal(0)) == 1], p2(a + 0) == p2(a) * p2(z3.IntVal(0)))
    _lemma("P2 pow2 additivity/step", [a >= 0, bb >= 0, p2(a + bb) == p2(a) * p2(bb),
                                       p2(a + bb + 1) == 2 * p2(a + bb), p2(bb + 1) == 2 * p2(bb)],
           p2(a + (bb + 1)) == p2(a) * p2(bb + 1))
    _lemma("P2 pow2 positive/step", [a >= 0, p2(a) >= 1, p2(a + 1) == 2 * p2(a)], p2(a + 1) >= 1)
    # generic facts about div / mod with a SYMBOLIC positive divisor (plain integer variables, no pow2): proved once,
    # then used below through instances (instantiation of a universally valid formula is pure logic)
    X, Y, Dv, Cv, rr = z3.Ints("X Y Dv Cv rr")
    N1 = lambda x, d: (x * d) / d == x                                        # d >= 1
    N2 = lambda x, d, r: (x * d + r) % d == r                                 # d >= 1, 0 <= r < d
    N3 = lambda x, d, c, r: (x * d + r) / (c * d) == x / c                    # d, c >= 1, 0 <= r < d
    N4 = lambda x, d: x % d == x                                              # 0 <= x < d
    _lemma("N1 (x*d) div d == x", [Dv >= 1], N1(X, Dv))
    _lemma("N2 (x*d + r) mod d == r", [Dv >= 1, rr >= 0, rr < Dv], N2(X, Dv, rr))
    _lemma("N3 (x*d + r) div (c*d) == x div c", [Dv >= 1, Cv >= 1, rr >= 0, rr < Dv], N3(X, Dv, Cv, rr))
    _lemma("N4 x mod d == x for 0 <= x < d", [X >= 0, X < Dv], N4(X, Dv))
    T, sk, w, m, A, Pk, e, wj = z3.Ints("T sk w m A P e wj")
    pn = T - sk - w
    D = p2(T - sk)
    Q, Pn = p2(w), p2(pn)
    pre = [T >= 0, sk >= 0, w >= 0, sk + w <= T, m >= 0, m < Q,
           Pk == A * D, A >= 0, A < p2(sk),                                   # invariant I(k)
           D == Q * Pn, p2(sk + w) == p2(sk) * Q,                             # instances of P2
           Q >= 1, Pn >= 1, p2(sk) >= 1, D >= 1]
    P1 = Pk + m * Pn
    A1 = A * Q + m
    _lemma("E' round trip unbounded/base", [p2(z3.IntVal(0)) == 1], z3.And(0 == 0 * p2(T - 0), 0 < p2(z3.IntVal(0))))
    _lemma("E' round trip unbounded/step: side conditions of I4 (or = plus)", pre + [N2(A, D, z3.IntVal(0))],
           z3.And(Pk % D == 0, m * Pn >= 0, m * Pn < D))
    _lemma("E' round trip unbounded/step: invariant kept", pre,
           z3.And(P1 == A1 * Pn, A1 >= 0, A1 < p2(sk + w)))
    # field(P1, pn, w) = (P1 div 2^pn) mod 2^w
    _lemma("E' round trip unbounded/step: new field reads back",
           pre + [P1 == A1 * Pn, N1(A1, Pn), N2(A, Q, m)], (P1 / Pn) % Q == m)
    # an earlier field j < k lies at p = (T - sk) + e, e >= 0 (lemma S): pow2(p) = pow2(e) * D; the word divided by
    # 2^p is the same before and after the step (hence so is the field (word div 2^p) mod 2^wj)
    p = (T - sk) + e
    r = m * Pn
    _lemma("E' round trip unbounded/step: earlier fields undisturbed",
           pre + [e >= 0, p2(p) == p2(e) * D, p2(e) >= 1, r >= 0, r < D,
                  N3(A, D, p2(e), r), N3(A, D, p2(e), z3.IntVal(0))],
           (P1 / p2(p)) == (Pk / p2(p)))
    R = p2(sk)
    _lemma("E' round trip unbounded/use: bound", [Pk == A * D, A >= 0, A <= R - 1, p2(T) == R * D, D >= 1, R >= 1],
           z3.And(Pk >= 0, Pk < p2(T)))
    _lemma("E' round trip unbounded/use: mask and padding",
           [Pk == A * D, Pk >= 0, Pk < p2(T), D >= 1, N4(Pk, p2(T)), N2(A, D, z3.IntVal(0))],
           z3.And(Pk % p2(T) == Pk, Pk % D == 0))


_Eint_lemmas()


def _selftest_bridge():
    """identities I4 and I5 of lemma E' against CPython (I1-I3 are part of _selftest_identities)"""
    rng = _random.Random(41)
    n = 0
    for _ in range(4000):
        k = rng.randint(0, 70)
        hi = rng.getrandbits(rng.choice([1, 8, 70, 130])) * rng.choice([1, 1, -1])
        a = hi * 2 ** k
        b = rng.getrandbits(k) if k else 0
        p = rng.randint(0, 70)
        mm = rng.getrandbits(rng.choice([1, 3, 8, 64]))
        x = rng.getrandbits(rng.choice([8, 64, 200])) * rng.choice([1, 1, -1])
        n += 1
        wdt = rng.randint(0, 40)
        if ((x & ((2 ** wdt - 1) << p)) >> p) != (x // 2 ** p) % 2 ** wdt:          # the field expression as a whole
            raise AssertionError("field expression differs from (x div 2^p) mod 2^w: x=%d p=%d w=%d" % (x, p, wdt))
        if (a | b) != a + b or (x & (mm << p)) != (((x >> p) & mm) << p):
            raise AssertionError("bridge identity fails on CPython: a=%d b=%d x=%d m=%d p=%d" % (a, b, x, mm, p))
    for a in range(-64, 65):
        for k in range(0, 7):
            for b in range(0, 2 ** k):
                n += 1
                if ((a * 2 ** k) | b) != a * 2 ** k + b:
                    raise AssertionError("bridge identity I4 fails: a=%d k=%d b=%d" % (a, k, b))
    return n


_N_BRIDGE = _selftest_bridge()
REG.assume_note("C40 lemma E' (unbounded round trip over the integers) is relative to the arithmetic reading of the "
                "operators: shl(a,k) = a*2^k, shr(a,k) = a div 2^k, band(a, 2^k-1) = a mod 2^k, bor(a,b) = a+b when "
                "a mod 2^k = 0 <= b < 2^k, band(a, shl(m,p)) = shl(band(shr(a,p), m), p) - identities of Python's ints "
                "cross-checked at import (%d evaluations for the last two), not proved; lemma E proves the same facts "
                "with the real operators for 8*size <= 63" % _N_BRIDGE)
