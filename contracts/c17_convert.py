"""C17 direct data literals: the ten Convert2* functions and StripQuotes of ioflo/base/building.py

PART 1 (deductive, ALL texts): DISPATCH ORDER relative to uninterpreted recognisers.
  The library recognisers are uninterpreted symbols of the text:
      int_ok(t, base) / int_val(t, base)     int(t, base) succeeds / its value   (base 10 and 16 are different arguments)
      float_ok / float_val, complex_ok / complex_re, complex_im
      re_match[REO_x](t)                      REO_x.match(t) is not None
      re_findall[REO_x](t), re_group[REO_x,i](t)   REO_x.findall(t) is non-empty / group i of its first element
      lower(t), strip(t, chars)               str.lower / str.strip
  `int`, `float`, `complex`, `re.compile(..).match/.findall`, `str.lower/.strip`, `collections.namedtuple` are
  externals: int(t, b) returns int_val(t, b) when int_ok(t, b) and raises ValueError otherwise (float, complex
  likewise); a non-string first argument with an explicit base raises TypeError.
  The post-condition of every Convert2X is written from the STATEMENT's order
      quoted string, none / true|yes / false|no, path text, lat/lon (N|E then S|W), typed points (XY, NE, FS, XYZ,
      NED, FSB: the order of Convert2PointNum's docstring), decimal int, hex int, float, complex
  restricted to the kinds X's name lists (Str Bool Path Coord Point Num) - NOT from the control flow: one clause per
  kind `first applicable kind of X is K  ==>  result is K's conversion`, `some kind applies` on a normal return, and
  ValueError exactly when no kind applies or the first applicable regex kind has a component float() rejects.
  The chain is verified MODULARLY: each function sees only the contract of the function it calls.
  Results are values of one tagged union (z3 datatype C17Val: none | bool | int | float | str | complex | six point
  types | err) so that the TYPE of the result is part of every clause.
  A second contract of Convert2Num takes a non-text operand: the TypeError of int(x, 10) escapes (nothing swallowed).

PART 2 (BOUNDED stand-in, native enumeration on the real functions, never counted as proved): what the recognisers
  accept and the ROUND TRIP, against an INDEPENDENT reference converter written from the documentation (own
  character-level parsers, digits accumulated by hand, floats through exact Fractions) - see the second half of
  this file; it runs in the native harness only (replay `check` hook of the same contracts, on every literal of the
  grammar), is reported as native evaluations and is never an obligation; scope counts are computed at import and
  must equal the `scope` stated in levels.d/C17.json.
NOT covered: parseDirect / parseNeedGoal and the verb contexts that choose which Convert2X is applied.
"""
import collections as _collections
import re as _re
import zlib as _zlib

import z3

from pyvc.api import *
from pyvc import values as _V
from pyvc.engine import PyRaise

F = "ioflo/base/building.py"
FG = "ioflo/base/globaling.py"
P = "C17"

# ------------------------------------------------------------------ the tagged union of results
_PT = {"Pxy": 2, "Pne": 2, "Pfs": 2, "Pxyz": 3, "Pned": 3, "Pfsb": 3}
_dt = z3.Datatype("C17Val")
_dt.declare("none")
_dt.declare("err")                       # "raises ValueError" (specification side only)
_dt.declare("boolv", ("b", z3.BoolSort()))
_dt.declare("intv", ("i", z3.IntSort()))
_dt.declare("floatv", ("r", z3.RealSort()))
_dt.declare("strv", ("s", z3.StringSort()))
_dt.declare("cplx", ("re", z3.RealSort()), ("im", z3.RealSort()))
for _n, _k in _PT.items():
    _dt.declare(_n.lower(), *[("%s%d" % (_n.lower(), _j), z3.RealSort()) for _j in range(_k)])
PV = _dt.create()
_V._opaque_sorts["c17val"] = PV          # Opaque("c17val") denotes this datatype (a sort with constructors)
OPQ = ("opaque", "c17val")
VAL = Opaque("c17val")

_S, _I, _R, _Bo = z3.StringSort(), z3.IntSort(), z3.RealSort(), z3.BoolSort()
INT_OK = z3.Function("int_ok", _S, _I, _Bo)
INT_VAL = z3.Function("int_val", _S, _I, _I)
FLOAT_OK = z3.Function("float_ok", _S, _Bo)
FLOAT_VAL = z3.Function("float_val", _S, _R)
CPLX_OK = z3.Function("complex_ok", _S, _Bo)
CPLX_RE = z3.Function("complex_re", _S, _R)
CPLX_IM = z3.Function("complex_im", _S, _R)
LOWER = z3.Function("lower", _S, _S)
STRIP = {k: z3.Function(k, _S, _S, _S) for k in ("strip", "lstrip", "rstrip")}

# compiled patterns are handles: index -> (pattern text, flags); symbols are keyed by the pattern text
_RX = []


def _rx_index(pat, flags):
    key = (pat, flags)
    if key not in _RX:
        _RX.append(key)
    return _RX.index(key) + 1


def _rx_label(E, idx):
    pat, flags = _RX[idx - 1]
    import ast as _ast
    for name, ent in E.repo.module_globals(FG).items():
        if name.startswith("REO_") and ent[0] == "expr" and isinstance(ent[2], _ast.Call) and ent[2].args \
                and isinstance(ent[2].args[0], _ast.Constant) and ent[2].args[0].value == pat and not flags:
            return name
    return "%08x" % (_zlib.crc32(repr((pat, flags)).encode()) & 0xFFFFFFFF)


def RX_MATCH(E, idx):
    return z3.Function("re_match[%s]" % _rx_label(E, idx), _S, _Bo)


def RX_FIND(E, idx):
    return z3.Function("re_findall[%s]" % _rx_label(E, idx), _S, _Bo)


def RX_GROUP(E, idx, i):
    return z3.Function("re_group[%s,%d]" % (_rx_label(E, idx), i), _S, _S)


def _is_text(v):
    return kind_of(v) == "str"


# ------------------------------------------------------------------ externals (assumed library contracts)
def _ext_int(E, args, kwargs):
    if not args:
        return 0
    v = args[0]
    base = args[1] if len(args) > 1 else kwargs.get("base")
    if _is_text(v):
        b = 10 if base is None else base
        if not isinstance(b, int) or isinstance(b, bool):
            raise Unsupported("int(text, <symbolic base>)")
        t = zstr(v)
        if E.branch(INT_OK(t, z3.IntVal(b))):
            return Sym(INT_VAL(t, z3.IntVal(b)), "int")
        raise PyRaise(ExcV(ValueError, ("invalid literal for int() with base %d" % b,)))
    if base is not None or v is None:
        raise PyRaise(ExcV(TypeError, ("int() can't convert non-string with explicit base",)))
    if kind_of(v) in ("int", "bool"):
        return Sym(zint(v), "int") if isinstance(v, Sym) else int(v)
    raise Unsupported("int(%r) in the C17 model" % (v,))


def _ext_float(E, args, kwargs):
    if not args:
        return Fraction(0)
    v = args[0]
    if _is_text(v):
        t = zstr(v)
        if E.branch(FLOAT_OK(t)):
            return Sym(FLOAT_VAL(t), "real")
        raise PyRaise(ExcV(ValueError, ("could not convert string to float",)))
    if kind_of(v) in ("int", "bool", "real"):
        return Sym(zreal(v), "real") if isinstance(v, Sym) else Fraction(conc(v))
    if v is None:
        raise PyRaise(ExcV(TypeError, ("float() argument must be a string or a real number",)))
    raise Unsupported("float(%r) in the C17 model" % (v,))


def _ext_complex(E, args, kwargs):
    v = args[0] if args else 0
    if _is_text(v) and len(args) == 1:
        t = zstr(v)
        if E.branch(CPLX_OK(t)):
            return Sym(PV.cplx(CPLX_RE(t), CPLX_IM(t)), OPQ)
        raise PyRaise(ExcV(ValueError, ("complex() arg is a malformed string",)))
    if kind_of(v) in ("int", "bool", "real") and len(args) == 1:
        return Sym(PV.cplx(zreal(v), z3.RealVal(0)), OPQ)
    if v is None:
        raise PyRaise(ExcV(TypeError, ("complex() first argument must be a string or a number",)))
    raise Unsupported("complex(%r) in the C17 model" % (args,))


def _ext_re_compile(E, args, kwargs):
    pat = args[0]
    flags = args[1] if len(args) > 1 else kwargs.get("flags", 0)
    if not isinstance(pat, str) or not isinstance(flags, int):
        raise Unsupported("re.compile of a non-constant pattern")
    return ExtV(z3.IntVal(_rx_index(pat, int(flags))), "c17regex")


def _rx_of(obj):
    t = z3.simplify(obj.t)
    if not z3.is_int_value(t):
        raise Unsupported("regex handle is not a constant")
    return t.as_long()


def _ext_rx_match(E, args, kwargs):
    idx = _rx_of(args[0])
    if len(args) != 2 or kwargs:
        raise Unsupported("pattern.match with pos/endpos")
    if not _is_text(args[1]):
        raise PyRaise(ExcV(TypeError, ("expected string or bytes-like object",)))
    h = E.fresh("matchobj", _I)
    E.assume(h > 0)
    return ExtV(z3.If(RX_MATCH(E, idx)(zstr(args[1])), h, z3.IntVal(0)), "c17match")     # match object or None


def _ext_rx_findall(E, args, kwargs):
    idx = _rx_of(args[0])
    if len(args) != 2 or kwargs:
        raise Unsupported("pattern.findall with pos/endpos")
    if not _is_text(args[1]):
        raise PyRaise(ExcV(TypeError, ("expected string or bytes-like object",)))
    t = zstr(args[1])
    ng = _re.compile(_RX[idx - 1][0], _RX[idx - 1][1]).groups      # structure of the pattern text (group count)
    n = E.fresh("nfound", _I)
    E.assume(n >= 0)
    E.assume((n > 0) == RX_FIND(E, idx)(t))
    cols = [z3.K(_I, RX_GROUP(E, idx, j)(t)) for j in range(max(ng, 1))]
    et = STR if ng <= 1 else Tup(*([STR] * ng))
    return E.new_list(et, n, cols)          # only element 0 is meaningful: every index reads the first match's groups


def _mk_strip(which):
    def ext(E, args, kwargs):
        if len(args) > 2 or (len(args) == 2 and not isinstance(args[1], str)):
            raise Unsupported("str.%s with symbolic characters" % which)
        chars = args[1] if len(args) == 2 else "<whitespace>"
        return Sym(STRIP[which](zstr(args[0]), z3.StringVal(chars)), "str")
    return ext


def _ext_lower(E, args, kwargs):
    return Sym(LOWER(zstr(args[0])), "str")


class _PointCtor:
    """the namedtuple class Pxy / Pne / ... : construction yields the matching constructor of C17Val"""
    _specfunc = True

    def __init__(self, name, fields):
        self.name, self.fields = name, tuple(fields)
        self.__name__ = name

    def __call__(self, E, *args, **kwargs):
        vals = dict(zip(self.fields, args))
        for k, v in kwargs.items():
            if k not in self.fields or k in vals:
                raise PyRaise(ExcV(TypeError, ("%s() got an unexpected or repeated argument %s" % (self.name, k),)))
            vals[k] = v
        if len(args) > len(self.fields) or set(vals) != set(self.fields):
            raise PyRaise(ExcV(TypeError, ("%s() missing or surplus arguments" % self.name,)))
        if self.name not in _PT or len(self.fields) != _PT[self.name]:
            raise Unsupported("namedtuple %s%r is not a C17 point type" % (self.name, self.fields))
        return Sym(getattr(PV, self.name.lower())(*[zreal(vals[f]) for f in self.fields]), OPQ)


def _ext_namedtuple(E, args, kwargs):
    name, fields = args[0], args[1]
    if not isinstance(name, str) or not isinstance(fields, str):
        raise Unsupported("namedtuple with non-constant fields")
    return _PointCtor(name, fields.replace(",", " ").split())


EXT = {int: _ext_int, float: _ext_float, complex: _ext_complex, _re.compile: _ext_re_compile,
       _collections.namedtuple: _ext_namedtuple,
       "c17regex.match": _ext_rx_match, "c17regex.findall": _ext_rx_findall,
       "str.lower": _ext_lower, "str.strip": _mk_strip("strip"), "str.lstrip": _mk_strip("lstrip"),
       "str.rstrip": _mk_strip("rstrip")}

REG.assume_note("C17 externals: int(t, b) for a text t returns int_val(t, b) when int_ok(t, b) and raises ValueError "
                "otherwise (float(t), complex(t) likewise; these are the only exceptions they raise on a str); "
                "int(x, b) for a non-string x raises TypeError; pattern.match(t) is a match object or None and "
                "pattern.findall(t) a list whose first element carries the groups of the first match - all as "
                "UNINTERPRETED functions of the text (nothing about which texts they accept is used by the proof); "
                "str.lower / str.strip(chars) are uninterpreted functions of their arguments; a namedtuple class "
                "builds a value tagged with its own type name from its fields in declaration order")


# ------------------------------------------------------------------ the documented order (from the statement)
KINDS = ["Q2", "Q1",                               # quoted string (double, single)
         "NONE", "TRUE", "FALSE",                  # none / true|yes / false|no
         "PATH",                                   # path text
         "LLNE", "LLSW",                           # lat/lon
         "PXY", "PNE", "PFS", "PXYZ", "PNED", "PFSB",   # typed points, order of Convert2PointNum's docstring
         "INT10", "INT16", "FLOAT", "COMPLEX"]     # decimal int, hex int, float, complex
_G = {"Str": ["Q2", "Q1"], "Bool": ["NONE", "TRUE", "FALSE"], "Path": ["PATH"], "Coord": ["LLNE", "LLSW"],
      "Point": ["PXY", "PNE", "PFS", "PXYZ", "PNED", "PFSB"], "Num": ["INT10", "INT16", "FLOAT", "COMPLEX"]}
# which kinds a function converts = the kinds its NAME lists
FUNCS = {"Num": ["Num"], "CoordNum": ["Coord", "Num"], "BoolCoordNum": ["Bool", "Coord", "Num"],
         "StrBoolCoordNum": ["Str", "Bool", "Coord", "Num"], "PointNum": ["Point", "Num"],
         "CoordPointNum": ["Coord", "Point", "Num"], "BoolCoordPointNum": ["Bool", "Coord", "Point", "Num"],
         "PathCoordPointNum": ["Path", "Coord", "Point", "Num"],
         "BoolPathCoordPointNum": ["Bool", "Path", "Coord", "Point", "Num"],
         "StrBoolPathCoordPointNum": ["Str", "Bool", "Path", "Coord", "Point", "Num"]}
ORDER = {x: [k for k in KINDS if any(k in _G[g] for g in gs)] for x, gs in FUNCS.items()}
ORDER["StripQuotes"] = ["Q2", "Q1", "ASIS"]         # documented: quotes stripped if any, otherwise as is
_REO = {"Q2": "REO_Quoted", "Q1": "REO_QuotedSingle", "PATH": "REO_PathNode", "LLNE": "REO_LatLonNE",
        "LLSW": "REO_LatLonSW", "PXY": "REO_PointXY", "PNE": "REO_PointNE", "PFS": "REO_PointFS",
        "PXYZ": "REO_PointXYZ", "PNED": "REO_PointNED", "PFSB": "REO_PointFSB"}
_PNAME = {"PXY": "Pxy", "PNE": "Pne", "PFS": "Pfs", "PXYZ": "Pxyz", "PNED": "Pned", "PFSB": "Pfsb"}
_QCH = {"Q2": '"', "Q1": "'"}


def _code(k):
    return z3.IntVal((KINDS + ["ASIS"]).index(k) + 1)


def _rx(E, name):
    """handle index of the compiled pattern the module-level name denotes IN building.py's namespace"""
    g = E.repo.module_globals(F)
    if name not in g:
        raise Unsupported("%s is not a module-level name of %s" % (name, F))
    v = E.global_value(g[name], F)
    if not isinstance(v, ExtV) or v.name != "c17regex":
        raise Unsupported("%s is not a compiled pattern" % name)
    return _rx_of(v)


def _applies(E, k, t):
    if k in ("Q2", "Q1", "PATH"):
        return RX_MATCH(E, _rx(E, _REO[k]))(t)
    if k in _REO:
        return RX_FIND(E, _rx(E, _REO[k]))(t)
    lo = LOWER(t)
    if k == "NONE":
        return lo == z3.StringVal("none")
    if k == "TRUE":
        return z3.Or(lo == z3.StringVal("true"), lo == z3.StringVal("yes"))
    if k == "FALSE":
        return z3.Or(lo == z3.StringVal("false"), lo == z3.StringVal("no"))
    if k == "INT10":
        return INT_OK(t, z3.IntVal(10))
    if k == "INT16":
        return INT_OK(t, z3.IntVal(16))
    if k == "FLOAT":
        return FLOAT_OK(t)
    if k == "COMPLEX":
        return CPLX_OK(t)
    if k == "ASIS":
        return z3.BoolVal(True)
    raise Unsupported("kind %r" % k)


def _value(E, k, t):
    """conversion of kind k (err = ValueError: a component of a matched lat/lon or point text that float() rejects)"""
    if k in _QCH:
        return PV.strv(STRIP["strip"](t, z3.StringVal(_QCH[k])))
    if k == "NONE":
        return PV.none
    if k in ("TRUE", "FALSE"):
        return PV.boolv(z3.BoolVal(k == "TRUE"))
    if k in ("PATH", "ASIS"):
        return PV.strv(t)
    if k in ("LLNE", "LLSW"):
        idx = _rx(E, _REO[k])
        g0, g1 = RX_GROUP(E, idx, 0)(t), RX_GROUP(E, idx, 1)(t)
        mag = FLOAT_VAL(g0) + FLOAT_VAL(g1) / z3.RealVal(60)
        return z3.If(z3.And(FLOAT_OK(g0), FLOAT_OK(g1)), PV.floatv(mag if k == "LLNE" else -mag), PV.err)
    if k in _PNAME:
        idx = _rx(E, _REO[k])
        gs = [RX_GROUP(E, idx, j)(t) for j in range(_PT[_PNAME[k]])]
        return z3.If(z3.And(*[FLOAT_OK(g) for g in gs]),
                     getattr(PV, _PNAME[k].lower())(*[FLOAT_VAL(g) for g in gs]), PV.err)
    if k == "INT10":
        return PV.intv(INT_VAL(t, z3.IntVal(10)))
    if k == "INT16":
        return PV.intv(INT_VAL(t, z3.IntVal(16)))
    if k == "FLOAT":
        return PV.floatv(FLOAT_VAL(t))
    if k == "COMPLEX":
        return PV.cplx(CPLX_RE(t), CPLX_IM(t))
    raise Unsupported("kind %r" % k)


def _first(E, x, t):
    acc = z3.IntVal(0)
    for k in reversed(ORDER[x]):
        acc = z3.If(_applies(E, k, t), _code(k), acc)
    return acc


def _conv(E, x, t):
    acc = PV.err
    for k in reversed(ORDER[x]):
        acc = z3.If(_applies(E, k, t), _value(E, k, t), acc)
    return acc


@specfunc
def c17_is(E, x, k, text):
    """k is the FIRST kind, in the documented order of Convert2<x>, that applies to text"""
    return Sym(_first(E, x, zstr(text)) == _code(k), "bool")


@specfunc
def c17_val(E, k, text):
    return Sym(_value(E, k, zstr(text)), OPQ)


@specfunc
def c17_fails(E, x, text):
    """no kind of Convert2<x> applies, or the first applicable one has a component float() rejects"""
    return Sym(_conv(E, x, zstr(text)) == PV.err, "bool")


@specfunc
def c17_pv(E, v):
    """a Python result as a value of the tagged union (type included)"""
    if isinstance(v, Sym) and v.k == OPQ:
        return v
    if v is None:
        return Sym(PV.none, OPQ)
    k = kind_of(v)
    if k == "bool":
        return Sym(PV.boolv(zbool(v)), OPQ)
    if k == "int":
        return Sym(PV.intv(zint(v)), OPQ)
    if k == "real":
        return Sym(PV.floatv(zreal(v)), OPQ)
    if k == "str":
        return Sym(PV.strv(zstr(v)), OPQ)
    raise Unsupported("result %r is outside the C17 value union" % (v,))


# ------------------------------------------------------------------ native twins (real recognisers of the tree)
def _glob():
    import collections.abc  # noqa  (see C01)
    import importlib
    return importlib.import_module("ioflo.base.building")     # the names as building.py sees them


def _ok(fn, *a):
    try:
        fn(*a)
        return True
    except ValueError:
        return False


def _n_applies(k, text):
    g = _glob()
    if k in ("Q2", "Q1", "PATH"):
        return getattr(g, _REO[k]).match(text) is not None
    if k in _REO:
        return bool(getattr(g, _REO[k]).findall(text))
    lo = text.lower()
    return {"NONE": lo == "none", "TRUE": lo == "true" or lo == "yes", "FALSE": lo == "false" or lo == "no",
            "INT10": _ok(int, text, 10), "INT16": _ok(int, text, 16), "FLOAT": _ok(float, text),
            "COMPLEX": _ok(complex, text), "ASIS": True}[k]


def _n_pv(v):
    if v is None:
        return ("NoneType", None)
    if isinstance(v, (float, complex)):
        return (type(v).__name__, repr(v))          # repr: distinguishes -0.0, equates nan with nan
    if isinstance(v, tuple):
        return (type(v).__name__, tuple(_n_pv(c) for c in v))
    return (type(v).__name__, v)


def _n_value(k, text):
    g = _glob()
    try:
        if k in _QCH:
            return ("str", text.strip(_QCH[k]))
        if k == "NONE":
            return ("NoneType", None)
        if k in ("TRUE", "FALSE"):
            return ("bool", k == "TRUE")
        if k in ("PATH", "ASIS"):
            return ("str", text)
        if k in ("LLNE", "LLSW"):
            g0, g1 = getattr(g, _REO[k]).findall(text)[0]
            mag = float(g0) + float(g1) / 60.0
            return _n_pv(mag if k == "LLNE" else -mag)
        if k in _PNAME:
            gs = getattr(g, _REO[k]).findall(text)[0]
            return (_PNAME[k], tuple(_n_pv(float(x)) for x in gs))
        if k == "INT10":
            return ("int", int(text, 10))
        if k == "INT16":
            return ("int", int(text, 16))
        if k == "FLOAT":
            return _n_pv(float(text))
        if k == "COMPLEX":
            return _n_pv(complex(text))
    except ValueError:
        return "ERR"
    raise KeyError(k)


def _n_first(x, text):
    for k in ORDER[x]:
        if _n_applies(k, text):
            return k
    return None


c17_is.native = lambda x, k, text: _n_first(x, text) == k
c17_val.native = _n_value
c17_pv.native = _n_pv
c17_fails.native = lambda x, text: (_n_first(x, text) is None or _n_value(_n_first(x, text), text) == "ERR")


# ------------------------------------------------------------------ PART 1: the verified contracts
def _clauses(x):
    out = ["implies(c17_is('%s', '%s', text), c17_pv(result) == c17_val('%s', text))" % (x, k, k) for k in ORDER[x]]
    out.append("not c17_fails('%s', text)" % x)
    return out


_JUNK = "0123456789abcdefxXnNeEsSwWyYzZjJ.,+-_\"' ()tTrRuUoO"


def _mk_text(x):
    """native cross-check inputs of the verified contracts: the literals of the bounded grammar below, then seeded
    junk over the characters the recognisers look at"""
    def make(rng, i, cex, nr):
        if cex and isinstance((cex.get("params") or {}).get("text"), str):
            return {"text": cex["params"]["text"]}
        lits = _literals()
        if i < len(lits):
            return {"text": lits[i][0], "_family": lits[i][1], "_rt": lits[i][2], "_lit": True}
        n = rng.choice([1, 2, 2, 3, 3, 4, 5, 6, 8])
        return {"text": "".join(rng.choice(_JUNK) for _ in range(n))}
    return make


def _name(x):
    return x if x == "StripQuotes" else "Convert2" + x


for _x in list(FUNCS) + ["StripQuotes"]:
    contract(F, _name(_x), P, params=dict(text=STR), returns=VAL, modifies=[], externals=EXT,
             ensures=_clauses(_x),
             raises={} if _x == "StripQuotes" else {"ValueError": ["c17_fails('%s', text)" % _x]},
             replay=dict(make=_mk_text(_x), count=None,
                         check=lambda env, nr, outcome, result, exc, _x=_x: _bounded_check(_x, env, outcome, result)),
             note="dispatch order of %s, all texts, recognisers uninterpreted" % _name(_x))

# a non-text operand: int(x, 10) raises TypeError, which no handler of Convert2Num may swallow
contract(F, "Convert2Num", P, params=dict(text=INT), returns=VAL, modifies=[], externals=EXT,
         ensures=["False"], raises={"TypeError": ["True"]},
         replay=dict(make=lambda rng, i, cex, nr: {"text": [5, 0, -3, 255, True][i % 5]}, count=10),
         note="non-text operand: the TypeError of int(x, 10) escapes, no normal return")


# =============================================================================== PART 2: BOUNDED stand-in (NOT a proof)
# An INDEPENDENT reference converter written from the documentation: own character-level recognisers (ASCII), digits
# accumulated by hand, floats through exact Fractions (int / int true division is correctly rounded), no use of
# int(str) / float(str) / complex(str) / the library's regular expressions.  It is defined on the texts of the
# grammar below only (no underscores, no surrounding blanks, no non-ASCII digits, no inf / nan words).
from fractions import Fraction as _Fr

_DIG = "0123456789"
_HEXD = "0123456789abcdef"
_IDENT0 = "abcdefghijklmnopqrstuvwxyzABCDEFGHIJKLMNOPQRSTUVWXYZ_"


def _r_sign(s):
    if s[:1] in ("+", "-"):
        return (-1 if s[0] == "-" else 1), s[1:]
    return 1, s


def _r_nat(s, digits=_DIG):
    if not s or any(c.lower() not in digits for c in s):
        return None
    n = 0
    for c in s:
        n = n * len(digits) + digits.index(c.lower())
    return n


def _r_int10(s):
    sg, body = _r_sign(s)
    n = _r_nat(body)
    return None if n is None else sg * n


def _r_int16(s):
    sg, body = _r_sign(s)
    if body[:2] in ("0x", "0X"):
        body = body[2:]
    n = _r_nat(body, _HEXD)
    return None if n is None else sg * n


def _r_float(s, need_dot_digits=False):
    """[+-] (digits [. digits*] | . digits) [(e|E) [+-] digits]  ->  correctly rounded double"""
    sg, body = _r_sign(s)
    mant, exp = body, 0
    for j, c in enumerate(body):
        if c in "eE":
            mant = body[:j]
            esg, eb = _r_sign(body[j + 1:])
            e = _r_nat(eb)
            if e is None:
                return None
            exp = esg * e
            break
    ip, dot, fp = mant.partition(".")
    if (ip and _r_nat(ip) is None) or (fp and _r_nat(fp) is None) or not (ip or fp):
        return None
    q = _Fr(_r_nat(ip + fp), 10 ** len(fp)) * _Fr(10) ** exp
    try:
        v = q.numerator / q.denominator
    except OverflowError:
        v = float("inf")
    return -v if sg < 0 else v          # keeps the sign of a zero


def _r_fixed(s):
    """component of a point: [+-] digits [. digits*]   (no exponent, digits before the dot)"""
    sg, body = _r_sign(s)
    ip, dot, fp = body.partition(".")
    if _r_nat(ip) is None or (fp and _r_nat(fp) is None):
        return None
    return _r_float(s)


def _r_complex(s):
    if len(s) >= 2 and s[0] == "(" and s[-1] == ")":
        s = s[1:-1]
    if not s or s[-1] not in "jJ":
        return None
    body = s[:-1]
    cut = None
    for j in range(len(body) - 1, 0, -1):
        if body[j] in "+-" and body[j - 1] not in "eE":
            cut = j
            break
    if cut is None:
        im = _r_float(body)
        return None if im is None else complex(0.0, im)
    re_, im = _r_float(body[:cut]), _r_float(body[cut:])
    return None if re_ is None or im is None else complex(re_, im)


def _r_ident(s):
    return bool(s) and s[0] in _IDENT0 and all(c in _IDENT0 + _DIG for c in s)


def _r_path(s):
    body = s[:-1] if len(s) > 1 and s.endswith(".") else s        # one trailing dot is allowed
    parts = (body[1:] if body.startswith(".") else body).split(".")
    return all(_r_ident(p) for p in parts)


def _r_latlon(s, letters):
    for j, c in enumerate(s):
        if c in letters:
            deg, mins = _r_nat(s[:j]), s[j + 1:]
            ip, dot, fp = mins.partition(".")
            if deg is None or not dot or _r_nat(ip) is None or _r_nat(fp) is None:
                return None
            return _r_float(s[:j]) + _r_float(mins) / 60.0
        if c not in _DIG:
            return None
    return None


_PLET = {"PXY": "xy", "PNE": "ne", "PFS": "fs", "PXYZ": "xyz", "PNED": "ned", "PFSB": "fsb"}


def _r_point(s, letters):
    comps, start = [], 0
    for want in letters:
        j = start
        while j < len(s) and s[j] in _DIG + "+-.":
            j += 1
        if j >= len(s) or s[j].lower() != want:
            return None
        v = _r_fixed(s[start:j])
        if v is None:
            return None
        comps.append(v)
        start = j + 1
    return tuple(comps) if start == len(s) else None


def _ref_kind(k, s):
    """(applies, tagged value) of kind k on text s by the reference recognisers"""
    if k in _QCH:
        q = _QCH[k]
        ok = len(s) >= 2 and s[0] == q and s[-1] == q and q not in s[1:-1]
        return ok, ("str", s[1:-1]) if ok else None
    if k in ("NONE", "TRUE", "FALSE"):
        words = {"NONE": ("none",), "TRUE": ("true", "yes"), "FALSE": ("false", "no")}[k]
        return s.lower() in words, {"NONE": ("NoneType", None), "TRUE": ("bool", True), "FALSE": ("bool", False)}[k]
    if k == "PATH":
        return _r_path(s), ("str", s)
    if k == "ASIS":
        return True, ("str", s)
    if k in ("LLNE", "LLSW"):
        v = _r_latlon(s, "NEne" if k == "LLNE" else "SWsw")
        return v is not None, None if v is None else _n_pv(v if k == "LLNE" else -v)
    if k in _PLET:
        v = _r_point(s, _PLET[k])
        return v is not None, None if v is None else (_PNAME[k], tuple(_n_pv(c) for c in v))
    v = {"INT10": _r_int10, "INT16": _r_int16, "FLOAT": _r_float, "COMPLEX": _r_complex}[k](s)
    return v is not None, None if v is None else _n_pv(v)


def _ref(x, s):
    """the documented conversion of text s by Convert2<x>: tagged value, or 'ERR' (ValueError)"""
    for k in ORDER[x]:
        ok, val = _ref_kind(k, s)
        if ok:
            return val
    return "ERR"


# ------------------------------------------------------------------ the literal grammar (finite, enumerated)
def _fixed(v):
    """documented literal form of a point component: digits [. digits], no exponent (exact decimal expansion)"""
    r = repr(v)
    if "e" not in r and "E" not in r:
        return r
    import decimal
    return format(decimal.Decimal(v), "f")


_LITS = None


def _literals():
    """list of (text, family, round_trip) ; round_trip = None or (kind, value): `text` is the repr / documented
    literal form of `value`, which every function whose order contains `kind` must give back"""
    global _LITS
    if _LITS is not None:
        return _LITS
    import random
    import struct
    out, seen = [], set()

    def add(text, fam, rt=None):
        if (text, rt is not None) not in seen:
            seen.add((text, rt is not None))
            out.append((text, fam, rt))

    # ---- integers: decimal and hex, signs, leading zeros, 0x / 0X / no prefix, upper case
    ints = list(range(-20, 21)) + [s * b ** k + d for b, ks in ((10, (2, 3, 6, 9, 18, 30)), (2, (7, 8, 15, 16, 31, 32, 63, 64, 100)))
                                   for k in ks for s in (1, -1) for d in (-1, 0, 1)] + [255, 4096, 48879, 64206, 12345678901234567890]
    for v in ints:
        add(str(v), "int-decimal", ("INT10", v))
        add(hex(v), "int-hex", ("INT16", v))
        a = abs(v)
        sg = "-" if v < 0 else ""
        for t in (sg + "00" + str(a), ("+" + str(a)) if v >= 0 else None):
            if t:
                add(t, "int-decimal")
        for t in (sg + "%x" % a, sg + "%X" % a, sg + "0X%X" % a, sg + "0x00%x" % a, ("+0x%x" % a) if v >= 0 else None):
            if t:
                add(t, "int-hex")
    # ---- floats: repr of corner cases and of seeded finite doubles; hand-written forms
    rnd = random.Random(17)
    fl = [0.0, -0.0, 1e308, 5e-324, 1.0e-5, 1.5, -2.25, 1e16, 1e22, 1e-7, 123456.789, 0.1, 2.0 ** 53, 1e5, 2e3,
          1.7976931348623157e308, 2.2250738585072014e-308, 4.9406564584124654e-324, 1e15, 123456789012345680.0]
    while len(fl) < 320:
        v = struct.unpack("<d", struct.pack("<Q", rnd.getrandbits(64)))[0]
        if v == v and abs(v) != float("inf"):
            fl.append(v)
    for j in range(60):
        fl.append(rnd.choice([-1, 1]) * rnd.randrange(0, 10 ** 6) / rnd.choice([1, 8, 10, 1000]))
    for v in fl:
        add(repr(v), "float-repr", ("FLOAT", v))
    for t in ["1e5", "2e3", "1E5", "1e308", "1e-5", "1.0e-5", "1.", ".5", "-.5", "+1.5", "1.5e+3", "1.5E-3", "00.5",
              "1e+16", "1.e5", "-1e-05", "0e0", "1e05", "12.5e1", "9.999999999999999e22"]:
        add(t, "float-form")
    # ---- booleans / None in the accepted spellings
    for t, v in (("True", True), ("False", False), ("None", None)):
        add(t, "word", ({True: "TRUE", False: "FALSE", None: "NONE"}[v], v))
    for w in ("true", "yes", "false", "no", "none"):
        for t in (w, w.upper(), w.capitalize(), w[0] + w[1:].upper()):
            add(t, "word")
    # ---- quoted strings (round trip: quote-free strings in double and in single quotes)
    for s in ["", "a", "abc", "hello world", "yes", "none", "10", "0x1f", "1.5", "a.b", "1x2y", "12N30.5", " lead",
              "trail ", "#c", "a,b", "face", "(1+2j)", "x" * 40]:
        add('"%s"' % s, "quoted", ("Q2", s))
        add("'%s'" % s, "quoted", ("Q1", s))
    add('"it\'s"', "quoted")
    add("'say \"hi\"'", "quoted")
    add("\"'a'\"", "quoted")
    # ---- path texts (some are also hex words or boolean-like)
    for t in ["a", "abc", "_x", "a1", "a.b", "a.b.c", ".a", ".a.b", "a.", "a.b.", ".a.", "x5y", "face", "ab", "e", "E5",
              "yes1", "truex", "none_", "a_b.c_d", "A.B", "dead.beef", "f", "e5", "x1y", "n1e"]:
        add(t, "path")
    # ---- lat/lon: degrees, hemisphere letter, minutes with a decimal point
    for deg in ("0", "5", "12", "080", "180"):
        for let in "NEneSWsw":
            for mins in ("0.0", "30.5", "25.0345", "59.999", "7.5"):
                add(deg + let + mins, "latlon")
    # ---- typed points: int and float components, both letter cases
    c2 = ["0", "1", "-5", "+7", "10", "1.5", "-2.25", "0.", "3.0", "+0.125"]
    c3 = ["0", "-5", "1.5", "0.", "+0.125"]
    for k, lets in _PLET.items():
        cs = c2 if len(lets) == 2 else c3
        combos = [[]]
        for _ in lets:
            combos = [c + [x] for c in combos for x in cs]
        for comb in combos:
            for up in (False, True):
                add("".join(x + (l.upper() if up else l) for x, l in zip(comb, lets)), "point")
    # round trip of points: components from a pool of finite doubles, written in the documented fixed form
    pool = [0.0, 1.0, -1.0, 2.5, -0.125, 100.0, 1e-05, 1e22, 123456.789, -0.0, 5e-324, 0.1]
    for k, lets in _PLET.items():
        for j in range(40):
            comps = tuple(rnd.choice(pool + fl[20:60]) for _ in lets)
            add("".join(_fixed(c) + l for c, l in zip(comps, lets)), "point-repr", (k, comps))
    # ---- complex
    for v in [1j, -1j, 1 + 2j, -1.5 - 2.5j, 0j, complex(1e16, 1), complex(0.1, -0.2), 3.5j, complex(1e-5, 1e5),
              complex(-0.0, 2.0), complex(2.0, -0.0)]:
        add(repr(v), "complex-repr", ("COMPLEX", v))
    for t in ["1+2j", "1.5J", "-2j", "(1e3-1e-3j)", "1e5j"]:
        add(t, "complex-form")
    # ---- texts that are no literal of any kind, and near misses of each recogniser
    for t in ["", "-", "+", "0x", "-0x", "1e", "--1", "1.2.3", '"abc', "abc'", "'abc\"", "@", "1/2", "$a", "1j2",
              "a..b", ".", "..", "a.1", "1a.b", "a-b", "a.b..", "12N30", "12N.5", "N30.5", "12X30.5", "12N30.5.",
              "-12N30.5", "12N-30.5", "12NE30.5", "1x", "1x2", "1x2z", "1n2s", "1.5.2x3y", "1e5x2y", ".5x1y", "1x2y3",
              "1x2y3d", "1y2x", "1x2y3z4", "0xg", "1g", "1.5f", "+-1", "1e5.5x"]:
        add(t, "no-literal")
    _LITS = out
    return out


def _scope():
    fam = {}
    for t, f, rt in _literals():
        fam[f] = fam.get(f, 0) + 1
    return {"literals": len(_literals()), "round_trip_literals": sum(1 for _t, _f, rt in _literals() if rt),
            "families": fam, "functions": len(ORDER)}


# ------------------------------------------------------------------ the bounded checks (native only)
def _same(result, kind, value):
    """value AND type given back (floats by repr: the sign of a zero counts)"""
    if kind in _PNAME:
        return _n_pv(result) == (_PNAME[kind], tuple(_n_pv(float(c)) for c in value))
    if kind in _QCH:
        return type(result) is str and result == value
    return type(result) is type(value) and _n_pv(result) == _n_pv(value)


def _bounded_check(x, env, outcome, result):
    """BOUNDED stand-in, run by the native harness on every literal of the grammar (never on the junk texts, never
    by the prover): (1) the real function against the independent reference converter, value and type;
    (2) round trip of the literals that are the repr / documented form of a value"""
    if not env.get("_lit"):
        return []
    text, msgs = env["text"], []
    want = _ref(x, text)
    got = _n_pv(result) if outcome == "return" else ("ERR" if outcome == "raise:ValueError" else outcome)
    if got != want:
        msgs.append("bounded: %s(%r) gives %r, the reference converter written from the documentation gives %r"
                    % (_name(x), text, got, want))
    rt = env.get("_rt")
    if rt is not None and rt[0] in ORDER[x] and (outcome != "return" or not _same(result, rt[0], rt[1])):
        msgs.append("bounded round trip: %r is the literal form of %r (%s) but %s gives %s %r"
                    % (text, rt[1], rt[0], _name(x), outcome, result))
    return msgs


_SC = _scope()
_BOUNDED_NOTE = ("C17 BOUNDED stand-in (native enumeration on the real functions, NOT a proof, never counted in "
                 "obligations/discharged): %d literals of the grammar in contracts/c17_convert.py (%s), each converted by "
                 "each of the %d real functions and compared, value AND type, with an independent reference converter "
                 "written from the documentation; %d of them are the repr / documented literal form of a value and must "
                 "convert back to it wherever the function's documented order contains their kind"
                 % (_SC["literals"], ", ".join("%s %d" % kv for kv in sorted(_SC["families"].items())),
                    len(ORDER), _SC["round_trip_literals"]))
REG.assume_note(_BOUNDED_NOTE)

# the verified contracts' native cross-check walks the same literals, then seeded junk
for _cs in REG.contracts.values():
    for _c in _cs:
        if _c.prop == P and _c.verify and isinstance(_c.replay, dict) and _c.replay.get("count") is None:
            _c.replay["count"] = _SC["literals"] + 600

# the scope stated in levels.d/C17.json must be the scope this module enumerates (a stale claim is a checker error)
import json as _json
import os as _os
_lv = _os.path.join(_os.path.dirname(_os.path.dirname(_os.path.abspath(__file__))), "levels.d", "C17.json")
if _os.path.exists(_lv):
    with open(_lv) as _fh:
        _st = _json.load(_fh).get("scope")
    if _st is not None:
        _rtc = sum(1 for _x in ORDER for _t, _f, _rt in _literals() if _rt and _rt[0] in ORDER[_x])
        _now = {"literals": _SC["literals"], "round_trip_literals": _SC["round_trip_literals"], "functions": len(ORDER),
                "reference_conversions": _SC["literals"] * len(ORDER), "round_trip_checks": _rtc,
                "crosscheck_evaluations": (_SC["literals"] + 600) * len(ORDER) + 10}
        if _now != _st:
            raise AssertionError("levels.d/C17.json states scope %r but contracts/c17_convert.py enumerates %r" % (_st, _now))
