"""C18 the data store tree stays well formed under any operation sequence.

Functions under contract (real source, re-parsed every run):
  ioflo/base/storing.py   Store.fetch, Store.fetchShare, Store.fetchNode, Store.add, Store.addNode, Store.change,
                          Store.create, Store.createNode; Node.byName / Node.name (inlined into add / addNode)
  ioflo/aid/odicting.py   odict.setdefault, odict.__setitem__  (the two mutators the store uses on a Node, verified
                          here at the MAP level; their key-order behaviour is C39's subject)

View.  A Node is a map  level name -> child;  a child is a Node or a Share.  The mixing of the two kinds behind
`isinstance(x, Share)` is modelled by a ghost tag `isshare` per object (BOUNDED part: the native harness enumerates
real Node / Share objects against the tag model).  The map of a node lives at the node's own reference (dict base of
odict = the map; `in`, `[]` have dict semantics); the `_keys` list of an odict is representation state owned by the
odict (never handed out: keys() copies) and is outside this view.

Paths.  `levels(name)` = name.strip('.').split('.') is seen through UNINTERPRETED functions
     STRIP : str -> str,   SPLEN : str -> int,   SPAT : str x int -> str,   NODOT : str -> bool
with  NL(name) = SPLEN(STRIP(name)),  LV(name, j) = SPAT(STRIP(name), j),  and exactly the library facts listed in
LIBRARY_FACTS below (each checked at import time against the real str.strip / split / join, exhaustively over the
alphabet {'a','b','.'} up to length 5).

Tree lookup.  `tree[levels]` is DEFINED by the walk from the root:  t[0] = store.shares,  t[j+1] = t[j][levels[j]]
as long as t[j] is a node that has the key.  The walk is carried as a ghost trail (list of the objects visited);
post-conditions exhibit the trail as the witness of the walk, callers receive it as a fresh witness.

Well-formedness WF (requires / ensures of every mutator, quantified over ALL objects of the heap):
  for every node n and key k with child c = n[k]:   c is not None,
       levels(c.name) == path(n) ++ [k]      where path(n) = [] if n.name == '' (a root) else levels(n.name)
       and a child NODE has a canonical non-empty name (name == name.strip('.'), so name == '.'.join(path)).
  `levels(c.name) == path` is the reading of "records its own dotted path as its name" that the statement's
  "with or without leading or trailing dots" requires: Store.add keeps the share's own spelling of its name.

Whole-view post-conditions (heap level, which implies the path level):
  add / addNode:  no entry of any pre-existing node is removed or replaced; pre-existing nodes gain AT MOST ONE new
      entry, namely (t[f-1], levels[f-1]) where t[0..f-1] is the pre-existing prefix of the walk; t[f..] are nodes
      allocated by this call, each named '.'.join(levels[:j]) and holding exactly one key (the next level); the
      walk of all levels ends in the leaf (the share / the returned node); names, tags of pre-existing objects are
      unchanged.  On EVERY ValueError the whole heap view is unchanged.
  change: exactly the one entry (t[n-1], levels[n-1]) is replaced by the share; it was a share before.
  create / createNode: either the tree is unchanged and the result is what the walk finds, or the add / addNode
      post-condition holds for a share / node allocated by this call.
"""
from pyvc.api import *
from pyvc import builtins_ as B
from pyvc.engine import PyRaise, PathEnd
import itertools as _it
import z3

FS = "ioflo/base/storing.py"
FO = "ioflo/aid/odicting.py"
NODE = Ref("Node")
_S, _I, _Bo = z3.StringSort(), z3.IntSort(), z3.BoolSort()

# ------------------------------------------------------------------------------------------------ string view
STRIP = z3.Function("c18_strip", _S, _S)
SPLEN = z3.Function("c18_splen", _S, _I)
SPAT = z3.Function("c18_spat", _S, _I, _S)
NODOT = z3.Function("c18_nodot", _S, _Bo)


def NL(s):
    return SPLEN(STRIP(s))


def LV(s, j):
    return SPAT(STRIP(s), j)


LIBRARY_FACTS = {
    "F1": "len(s.strip('.').split('.')) >= 1 and len(s.split('.')) >= 1",
    "F3": "no piece of s.split('.') contains '.'",
    "F4": "s.strip('.').strip('.') == s.strip('.')",
    "F2": "for pieces p (a non-empty list of dot-free strings whose first and last are non-empty), r = '.'.join(p): "
          "r.strip('.') == r, r.split('.') == p and r != ''",
}


def _check_library_facts():
    """each stated fact against the real str methods: all strings over {'a','b','.'} up to length 5; F2 over all
    lists of up to 3 pieces out of the dot-free strings of length <= 2 over {'a','b'} and over all prefixes of the
    split of every string of the first scope"""
    alpha = "ab."
    strings = [""] + ["".join(t) for n in range(1, 6) for t in _it.product(alpha, repeat=n)]
    n = 0
    for s in strings:
        st = s.strip('.')
        assert len(st.split('.')) >= 1 and len(s.split('.')) >= 1, ("F1", s)
        assert all('.' not in p for p in s.split('.')) and all('.' not in p for p in st.split('.')), ("F3", s)
        assert st.strip('.') == st, ("F4", s)
        lv = st.split('.')
        for d in range(1, len(lv) + 1):
            p = lv[:d]
            if p[0] != '' and p[-1] != '':
                r = '.'.join(p)
                assert r.strip('.') == r and r.split('.') == p and r != '', ("F2", s, d)
                n += 1
    pieces = [""] + ["".join(t) for k in (1, 2) for t in _it.product("ab", repeat=k)]
    for k in (1, 2, 3):
        for p in _it.product(pieces, repeat=k):
            p = list(p)
            if p[0] != '' and p[-1] != '':
                r = '.'.join(p)
                assert r.strip('.') == r and r.split('.') == p and r != '', ("F2", p)
                n += 1
    return len(strings), n


_FACT_SCOPE = _check_library_facts()
REG.assume_note("C18 library facts about str.strip('.') / split('.') / '.'.join (assumed in the proofs, each checked "
                "at import time against the real methods on all %d strings over {'a','b','.'} up to length 5 and %d "
                "piece lists): %s" % (_FACT_SCOPE[0], _FACT_SCOPE[1],
                                      "; ".join("%s: %s" % kv for kv in sorted(LIBRARY_FACTS.items()))))


def _concrete(s):
    """a symbolic string whose term is a literal -> the Python string (scenario contracts)"""
    if isinstance(s, Sym) and s.k == "str":
        v = z3.simplify(s.t)
        if z3.is_string_value(v):
            return v.as_string()
    return s


def _ext_strip(E, args, kwargs):
    s = args[0]
    if len(args) != 2 or args[1] != '.':
        raise Unsupported("str.strip with an argument other than '.' (line %d)" % E.cur_line)
    s = _concrete(s)
    if isinstance(s, str):
        return s.strip('.')
    r = STRIP(zstr(s))
    E.assume(STRIP(r) == r)                                                  # F4
    return Sym(r, "str")


def _ext_split(E, args, kwargs):
    s = args[0]
    if len(args) != 2 or args[1] != '.':
        raise Unsupported("str.split with an argument other than '.' (line %d)" % E.cur_line)
    s = _concrete(s)
    if isinstance(s, str):
        return E.list_from_values(s.split('.'), STR)
    t = zstr(s)
    n = SPLEN(t)
    E.assume(n >= 1)                                                         # F1
    j = z3.Int("j!sp%d" % next(E.counter))
    E.assume(z3.ForAll([j], z3.Implies(z3.And(j >= 0, j < n), NODOT(SPAT(t, j))), patterns=[SPAT(t, j)]))   # F3
    return E.new_list(STR, n, [z3.Lambda([B.KLAM], SPAT(t, B.KLAM))])


def _ext_join(E, args, kwargs):
    sep, lst = args[0], args[1]
    if sep != '.' or not isinstance(lst, ListV) or lst.et is None or lst.et.kind != "str":
        raise Unsupported("str.join other than '.'.join(list of str) (line %d)" % E.cur_line)
    m = E.llen(lst)
    a = E.larrs(lst)[0]
    mc = z3.simplify(m)
    if z3.is_int_value(mc):
        parts = [_concrete(Sym(z3.Select(a, j), "str")) for j in range(mc.as_long())]
        if all(isinstance(x, str) for x in parts):
            return '.'.join(parts)
    r = E.fresh("joined", _S)
    j = z3.Int("j!jn%d" % next(E.counter))
    pre = z3.And(m >= 1, z3.Select(a, 0) != z3.StringVal(""), z3.Select(a, m - 1) != z3.StringVal(""),
                 z3.ForAll([j], z3.Implies(z3.And(j >= 0, j < m), NODOT(z3.Select(a, j)))))
    post = z3.And(STRIP(r) == r, SPLEN(r) == m, r != z3.StringVal(""),
                  z3.ForAll([j], z3.Implies(z3.And(j >= 0, j < m), SPAT(r, j) == z3.Select(a, j))))
    E.assume(z3.Implies(pre, post))                                          # F2
    return Sym(r, "str")


# ------------------------------------------------------------------------------------------------ classes
classdecl("Nos", fields=dict(isshare=BOOL))                    # ghost tag: the object is a Share (else a Node)
classdecl("Node", file=FS, bases=("Nos",), fields=dict(_name=STR, _keys=List(STR)))
classdecl("Share", file=FS, bases=("Nos",), fields=dict(name=STR, store=Opt(Ref("Store"))))
classdecl("Store", file=FS, fields=dict(shares=NODE, name=STR))
for _q in ("Node.name", "Node.byName"):
    REG.inline_ok.add(_q)

REG.assume_note("C18 tag model (bounded part): every object reachable in a store tree is a storing.Node or a "
                "storing.Share; `isinstance(x, Share)` is the ghost tag `isshare`, which no operation changes; "
                "cross-checked by the native harness on real objects")
REG.assume_note("C18 constructor contracts (assumed; Node.__init__ / Share.__init__ use *pa/**kwa and Data/Deck and "
                "are outside the executor, the native harness runs the real constructors): Node() returns a NEW "
                "empty node named ''; Share(name=s) returns a NEW share with .name == s and .store None")
REG.assume_note("C18 dict base of Node (odict): `k in node`, `node[k]` (KeyError when absent), dict.setdefault and "
                "dict.__setitem__ have the map semantics; the `_keys` list of an odict is owned by the odict (never "
                "aliased by a list the Store code holds), its contents are outside C18's view (C39 proves them)")


def _dict(o):
    """the map of a node lives at the node's own reference"""
    return DictV(o.t, STR, NODE)


def _tagarr(E, heap=None):
    return _arr(E, heap, ("f", "Nos.isshare", 0), _Bo)


def _arr(E, heap, key, rng, inner=None):
    h = E.heap if heap is None else heap
    if key in h:
        return h[key]
    sort = z3.ArraySort(_I, rng if inner is None else z3.ArraySort(inner, rng))
    return z3.Const("H_" + "_".join(str(k) for k in key), sort)


class View:
    """the arrays of one heap (current or entry) that make up the store view"""
    def __init__(self, E, heap=None):
        self.tag = _arr(E, heap, ("f", "Nos.isshare", 0), _Bo)
        self.nname = _arr(E, heap, ("f", "Node._name", 0), _S)
        self.sname = _arr(E, heap, ("f", "Share.name", 0), _S)
        self.sstore = _arr(E, heap, ("f", "Share.store", 0), _I)
        self.shares = _arr(E, heap, ("f", "Store.shares", 0), _I)
        self.dom = _arr(E, heap, ("dom", "str"), _Bo, _S)
        self.val = _arr(E, heap, ("dv", "str", "ref:Node", 0), _I, _S)

    def keys_of(self, n):
        return z3.Select(self.dom, n)

    def vals_of(self, n):
        return z3.Select(self.val, n)

    def has(self, n, k):
        return z3.Select(z3.Select(self.dom, n), k)

    def child(self, n, k):
        return z3.Select(z3.Select(self.val, n), k)

    def isshare(self, n):
        return z3.Select(self.tag, n)

    def nm(self, c):
        return z3.If(z3.Select(self.tag, c), z3.Select(self.sname, c), z3.Select(self.nname, c))

    def depth(self, n):
        s = z3.Select(self.nname, n)
        return z3.If(s == z3.StringVal(""), z3.IntVal(0), NL(s))

    def step(self, a, k, b):
        """a is a node that has key k with child b"""
        return z3.And(z3.Not(self.isshare(a)), self.has(a, k), self.child(a, k) == b)


def _old(E):
    return View(E, E.heap_old)


def _bv(name, E, sort=_I):
    """bound variable (the '!b' tag makes the engine skip well-typedness side facts about it)"""
    return z3.Const("%s!b%d" % (name, next(E.counter)), sort)


def _isinstance(E, args, kwargs):
    v, c = args[0], args[1]
    if isinstance(v, RefV) and isinstance(c, ClassV) and c.name in ("Share", "Node") and v.cls in ("Node", "Share"):
        t = z3.Select(_tagarr(E), v.t)
        r = t if c.name == "Share" else z3.Not(t)
        if not v.nn:
            r = z3.And(v.t != 0, r)
        return Sym(r, "bool")
    return B.py_isinstance(E, v, c)


# ---- ghost trail -------------------------------------------------------------------------------------------------
# Ghost state of one function activation, kept as HEAP lists (so loop havoc and modular calls treat it like any
# other heap data) in the per-path table E.ghost["c18"]:
#   trail:<qual>   list of the objects visited by the walk (trail[0] = store.shares)
#   gf:<qual>      one-element int list: index of the first trail object allocated by this call
#                  (== number of trail objects so far when none was allocated)
_HEAP_KEYS = [(("f", "Nos.isshare", 0), [_I], _Bo), (("f", "Node._name", 0), [_I], _S),
              (("f", "Node._keys", 0), [_I], _I), (("f", "Share.name", 0), [_I], _S),
              (("f", "Share.store", 0), [_I], _I), (("f", "Store.shares", 0), [_I], _I),
              (("dom", "str"), [_I, _S], _Bo), (("dv", "str", "ref:Node", 0), [_I, _S], _I),
              (("len",), [_I], _I), (("el", "str", 0), [_I, _I], _S), (("el", "ref:Node", 0), [_I, _I], _I),
              (("el", "int", 0), [_I, _I], _I)]


def _setup(E):
    E.ghost.setdefault("c18", {})
    # every heap array of the view exists from the start (the engine havocs at a loop head only arrays that
    # already exist there)
    for key, doms, rng in _HEAP_KEYS:
        E.harr(key, doms, rng)


def _setup_mut(E):
    _setup(E)
    if len(E.frames) == 1:
        # encoding convention (the engine assumes it pointwise on every read): objects stored in the entry heap
        # have positive references
        n, k = z3.Int("n!bpos"), z3.Const("k!bpos", _S)
        O = View(E, {})
        E.assume(z3.ForAll([n, k], z3.Implies(z3.And(n > 0, O.has(n, k)), O.child(n, k) > 0)))


def _tab(E):
    tab = E.ghost.get("c18")
    if tab is None:
        raise Unsupported("C18 ghost table missing (contract without setup=_setup)")
    return tab


def _ghost_lists(E, frame):
    """(trail list, gf list) of the activation `frame`; created on first use (before its loop is entered)"""
    tab = _tab(E)
    kt, kg = "trail:" + frame.qual, "gf:" + frame.qual
    if kt not in tab:
        root = E.rd_field(frame.env["self"], "shares")
        tab[kt] = E.list_from_values([root], NODE)
        tab[kg] = E.list_from_values([1], INT)
    return tab[kt], tab[kg]


def _trail_push(E, frame, obj):
    t, _g = _ghost_lists(E, frame)
    B.list_method(E, t, "append", [obj], {})


def _witness(E):
    """call site (assuming the callee's post-condition): fresh witnesses for the callee's trail and gf, published
    in the ghost table under the callee's name for the caller's own post-condition"""
    env = E.frame.env
    w = env.get("__c18_witness")
    if w is None:
        n = E.fresh("wit_len", _I)
        E.assume(n >= 1)
        t = E.new_list(NODE, n, [E.fresh("wit_trail", z3.ArraySort(_I, _I))])
        g = E.list_from_values([Sym(E.fresh("wit_gf", _I), "int")], INT)
        w = env["__c18_witness"] = (t, g)
        tab = _tab(E)
        tab["trail:" + E.frame.qual], tab["gf:" + E.frame.qual] = t, g
    return w


def _trail(E, qual=None):
    """(array of the objects visited, number of objects, gf)"""
    if qual is not None:
        tab = _tab(E)
        t, g = tab["trail:" + qual], tab["gf:" + qual]
    elif E.assuming:
        t, g = _witness(E)
    else:
        t, g = _ghost_lists(E, E.frame)
    return E.larrs(t)[0], E.llen(t), z3.Select(E.larrs(g)[0], 0)


# ---- Node hooks ----------------------------------------------------------------------------------------------------
@hook("Node", "ctor")
def _node_ctor(E, cv, args, kwargs):
    if args or kwargs:
        raise Unsupported("Node(...) with arguments (line %d)" % E.cur_line)
    obj = RefV(E.new_ref(), "Node", nn=True)
    E.wr_field(obj, "isshare", False)
    E.wr_field(obj, "_name", "")
    E.wr_field(obj, "_keys", E.new_list(STR, 0))
    E.set_ddom(_dict(obj), z3.K(_S, z3.BoolVal(False)))
    return obj


@hook("Share", "ctor")
def _share_ctor(E, cv, args, kwargs):
    if args or set(kwargs) != {"name"} or kind_of(kwargs["name"]) != "str":
        raise Unsupported("Share(...) other than Share(name=<str>) (line %d)" % E.cur_line)
    obj = RefV(E.new_ref(), "Share", nn=True)
    E.wr_field(obj, "isshare", True)
    E.wr_field(obj, "name", kwargs["name"])
    E.wr_field(obj, "store", None)
    return obj


@hook("Node", "setattr", "name")
def _node_set_name(E, obj, val):
    """`node.name = x`: the real property setter of storing.Node"""
    import ast as _ast
    cd = E.repo.module(FS).classes["Node"]
    for fn in cd.body:
        if isinstance(fn, _ast.FunctionDef) and fn.name == "name" and \
                any(isinstance(d, _ast.Attribute) and d.attr == "setter" for d in fn.decorator_list):
            env = E.bind_args(fn, [val], {}, obj, "Node.name")
            return E.inline(FuncV(FS, "Node.name", fn, obj), env)
    raise Unsupported("storing.Node has no name setter")


@hook("Node", "contains")
def _node_contains(E, o, x):
    return E.dhas(_dict(o), x)


@hook("Node", "getitem")
def _node_getitem(E, o, idx):
    if E.spec:
        return E.dget(_dict(o), idx)
    if E.branch(z3.Select(_tagarr(E), o.t)):
        # the subscripted object is a SHARE: storing.Share.__getitem__(key) looks the level up among the share's
        # data FIELDS: KeyError if there is no such field, else the field's VALUE (an arbitrary Python object that
        # was never placed in the store) is returned
        if E.choose(2) == 0:
            raise PyRaise(ExcV(KeyError, (idx,)))
        E.oblige("safe", z3.BoolVal(False),
                 "lookup never subscripts a Share (Share.__getitem__ would return a data-field VALUE, not a store "
                 "object)", assume_after=False)
        raise PathEnd()
    r = B.getitem(E, _dict(o), idx)
    if E.frame.qual in _PUSH_ON_GET:
        _trail_push(E, E.frame, r)
    return r


_PUSH_ON_GET = ("Store.fetch", "Store.fetchShare", "Store.fetchNode", "Store.change")


EXT = {"str.strip": _ext_strip, "str.split": _ext_split, "str.join": _ext_join, isinstance: _isinstance}


# ------------------------------------------------------------------------------------------------ lookups
def _walk(V, root, name_t, t, m, E):
    j = _bv("j", E)
    return z3.And(z3.Select(t, 0) == root,
                  z3.ForAll([j], z3.Implies(z3.And(j >= 0, j < m),
                                            V.step(z3.Select(t, j), LV(name_t, j), z3.Select(t, j + 1)))))


@specfunc
def trail_inv(E, self_, levels, nos, i):
    """loop invariant of a lookup: the trail holds the walk of levels[:i] and ends in `nos`"""
    V = View(E)
    t, n, _gf = _trail(E)
    i = zint(i)
    root = E.rd_field(self_, "shares").t
    la = E.larrs(levels)[0]
    j = _bv("j", E)
    walk = z3.ForAll([j], z3.Implies(z3.And(j >= 0, j < i),
                                     V.step(z3.Select(t, j), z3.Select(la, j), z3.Select(t, j + 1))))
    return Sym(z3.And(n == i + 1, z3.Select(t, 0) == root, z3.Select(t, i) == nos.t, walk), "bool")


def _found(E, self_, name, result, kind):
    """result == tree[levels(name)] (filtered by kind) or None; witness: the trail"""
    V = View(E)
    t, n, _gf = _trail(E)
    nm = zstr(name)
    root = E.rd_field(self_, "shares").t
    L = NL(nm)
    i = n - 1
    isnone = E.tobool(E.is_none(result))
    res = result.t if result is not None else z3.IntVal(0)
    last = z3.Select(t, L)
    good = {"any": z3.BoolVal(True), "share": V.isshare(last), "node": z3.Not(V.isshare(last))}[kind]
    stuck = z3.Or(V.isshare(z3.Select(t, i)), z3.Not(V.has(z3.Select(t, i), LV(nm, i))))
    hit = z3.And(i == L, _walk(V, root, nm, t, L, E), res == last, good)
    miss = z3.And(i >= 0, i <= L, _walk(V, root, nm, t, i, E),
                  z3.Implies(i < L, stuck), z3.Implies(i == L, z3.Not(good)))
    return Sym(z3.If(isnone, miss, hit), "bool")


@specfunc
def found(E, self_, name, result):
    return _found(E, self_, name, result, "any")


@specfunc
def found_share(E, self_, name, result):
    return _found(E, self_, name, result, "share")


@specfunc
def found_node(E, self_, name, result):
    return _found(E, self_, name, result, "node")


# native twins: the reference lookup on real objects (dict base methods, explicit kind tests)
def _n_levels(name):
    return name.strip('.').split('.')


def _n_walk(store, name):
    """(object reached or None, depth reached)"""
    from ioflo.base import storing
    cur = store.shares
    for lv in _n_levels(name):
        if isinstance(cur, storing.Share) or not dict.__contains__(cur, lv):
            return None
        cur = dict.__getitem__(cur, lv)
    return cur


def _n_found(kind):
    def f(store, name, result):
        from ioflo.base import storing
        want = _n_walk(store, name)
        if kind == "share" and not isinstance(want, storing.Share):
            want = None
        if kind == "node" and (want is None or isinstance(want, storing.Share)):
            want = None
        return result is want
    return f


found.native = _n_found("any")
found_share.native = _n_found("share")
found_node.native = _n_found("node")

P_NAME = dict(self=Ref("Store"), name=STR)
LOOKUP_LOOP = {0: dict(inv=["trail_inv(self, levels, nos, _i)"])}

contract(FS, "Store.fetch", "C18", params=P_NAME, setup=_setup, externals=EXT, loops=LOOKUP_LOOP,
         modifies=[], ensures=["found(self, name, result)"], returns=Opt(NODE))
contract(FS, "Store.fetchShare", "C18", params=P_NAME, setup=_setup, externals=EXT, loops=LOOKUP_LOOP,
         modifies=[], ensures=["found_share(self, name, result)"], returns=Opt(NODE))
contract(FS, "Store.fetchNode", "C18", params=P_NAME, setup=_setup, externals=EXT, loops=LOOKUP_LOOP,
         modifies=[], ensures=["found_node(self, name, result)"], returns=Opt(NODE))


# clause texts that compare with the entry state carry the entry snapshot for their native twins
UNCHANGED = "tree_unchanged(old(tree_snap(self)), tree_snap(self))"
LABELS = "labels_kept(old(tree_snap(self)), tree_snap(self))"


@specfunc
def tree_snap(E, self_):
    """native only: path -> (identity, kind, name) of every object in the store tree (the prover reads the entry
    heap instead)"""
    return None


@specfunc
def map_snap(E, node):
    return None


# ------------------------------------------------------------------------------------------------ Node as a map
# odict.setdefault / odict.__setitem__ on a Node, at the level of the map (see module docstring).
def _ext_dict_setdefault(E, args, kwargs):
    o, key, dflt = args[0], args[1], args[2]
    d = _dict(o)
    if E.branch(E.dhas(d, key)):
        return E.dget(d, key)
    E.dset(d, key, dflt)
    return dflt


def _ext_dict_setitem(E, args, kwargs):
    E.dset(_dict(args[0]), args[1], args[2])


def _mod_map(E):
    """modifies: the map of `self` (call sites havoc exactly that)"""
    d = _dict(E.frame.env["self"])
    E.set_ddom(d, E.fresh("hvdom", z3.ArraySort(_S, _Bo)))
    E.set_dvals(d, [E.fresh("hvdv", z3.ArraySort(_S, _I))])


def _mod_map_frame(E):
    me = E.frame.env["self"]
    keys = E.rd_field(me, "_keys")
    return [(("dom", "str"), me.t), (("dv", "str", "ref:Node", 0), me.t),
            (("len",), keys.t), (("el", "str", 0), keys.t)]       # `_keys`: representation, owned by the odict


_mod_map.frame = _mod_map_frame


@specfunc
def map_same(E, self_, _snap=None):
    V, O, n = View(E), _old(E), self_.t
    return Sym(z3.And(V.keys_of(n) == O.keys_of(n), V.vals_of(n) == O.vals_of(n)), "bool")


@specfunc
def map_put(E, self_, key, val, _snap=None):
    """the map of self afterwards: the entry map with key -> val"""
    V, O, n = View(E), _old(E), self_.t
    kt = zstr(key)
    return Sym(z3.And(V.keys_of(n) == z3.Store(O.keys_of(n), kt, z3.BoolVal(True)),
                      V.vals_of(n) == z3.Store(O.vals_of(n), kt, val.t)), "bool")


def _after_setdefault(E, env):
    """ghost: the walk of the calling add / addNode advances to the returned child"""
    res = env["result"]
    caller = E.frames[-2] if len(E.frames) >= 2 else None
    if caller is not None and caller.qual in ("Store.add", "Store.addNode") and not E.spec:
        t, g = _ghost_lists(E, caller)
        n0 = E.llen(t)
        gf = z3.Select(E.larrs(g)[0], 0)
        B.list_method(E, t, "append", [res], {})
        # the child existed before the call  <=>  it is an object of the entry heap
        E.set_larrs(g, [z3.Store(E.larrs(g)[0], 0, z3.If(z3.And(gf == n0, res.t > 0), n0 + 1, gf))])
    return res


def _after_setitem(E, env):
    caller = E.frames[-2] if len(E.frames) >= 2 else None
    if caller is not None and caller.qual == "Store.add" and not E.spec:
        _trail_push(E, caller, env["val"])
    return None


EXT_MAP = {dict.setdefault: _ext_dict_setdefault, dict.__setitem__: _ext_dict_setitem}

contract(FO, "odict.setdefault", "C18", params=dict(self=NODE, key=STR, default=NODE), externals=EXT_MAP,
         modifies=[_mod_map], returns=NODE, result_fn=_after_setdefault,
         ensures=["implies(old(key in self), map_same(self, old(map_snap(self))) and id(result) == old(id(self[key])))",
                  "implies(not old(key in self), map_put(self, key, default, old(map_snap(self))) and result is default)"],
         note="map level; called by Store.add / addNode on a Node")
contract(FO, "odict.__setitem__", "C18", params=dict(self=NODE, key=STR, val=NODE), externals=EXT_MAP,
         modifies=[_mod_map], result_fn=_after_setitem, ensures=["map_put(self, key, val, old(map_snap(self)))"],
         note="map level; called by Store.add / change on a Node")


# ------------------------------------------------------------------------------------------------ well-formedness
def _wf_terms(V, E):
    n, k, j = _bv("n", E), _bv("k", E, _S), _bv("j", E)
    c = V.child(n, k)
    cn = V.nm(c)
    d = V.depth(n)
    ante = z3.And(n != 0, z3.Not(V.isshare(n)), V.has(n, k))
    cname = z3.Select(V.nname, c)
    wf1 = z3.ForAll([n, k], z3.Implies(ante, z3.And(
        c != 0, NL(cn) == d + 1, LV(cn, d) == k,
        z3.Implies(z3.Not(V.isshare(c)), z3.And(cname != z3.StringVal(""), STRIP(cname) == cname)))))
    wf2 = z3.ForAll([n, k, j], z3.Implies(z3.And(ante, j >= 0, j < d), LV(cn, j) == LV(z3.Select(V.nname, n), j)))
    return [wf1, wf2]


@specfunc
def wf(E, self_):
    """the root is a node named ''; every entry of every node records its path in its name"""
    V = View(E)
    root = E.rd_field(self_, "shares").t
    return Sym(z3.And(z3.Not(V.isshare(root)), z3.Select(V.nname, root) == z3.StringVal(""), *_wf_terms(V, E)), "bool")


@specfunc
def tree_unchanged(E, _snap0=None, _snap1=None):
    """every object of the entry heap has the map, tag and name it had at entry"""
    V, O = View(E), _old(E)
    n = _bv("n", E)
    return Sym(z3.ForAll([n], z3.Implies(n > 0, z3.And(
        V.keys_of(n) == O.keys_of(n), V.vals_of(n) == O.vals_of(n), V.isshare(n) == O.isshare(n),
        z3.Select(V.nname, n) == z3.Select(O.nname, n), z3.Select(V.sname, n) == z3.Select(O.sname, n)))), "bool")


def _grown(V, O, t, gf, limit, lev, E):
    """maps of the objects of the entry heap: all as at entry, except that - if gf <= limit - the node t[gf-1]
    gained the ONE entry lev(gf-1) -> t[gf], a key it did not have"""
    n = _bv("n", E)
    A, kA = z3.Select(t, gf - 1), lev(gf - 1)
    grew = gf <= limit
    others = z3.ForAll([n], z3.Implies(z3.And(n > 0, z3.Or(z3.Not(grew), n != A)),
                                       z3.And(V.keys_of(n) == O.keys_of(n), V.vals_of(n) == O.vals_of(n))))
    one = z3.Implies(grew, z3.And(z3.Not(O.has(A, kA)),
                                  V.keys_of(A) == z3.Store(O.keys_of(A), kA, z3.BoolVal(True)),
                                  V.vals_of(A) == z3.Store(O.vals_of(A), kA, z3.Select(t, gf))))
    return [others, one]


def _fresh_chain(V, t, gf, last, lev, open_last, E):
    """t[gf..last] are nodes allocated by this call: named '.'.join(levels[:j]) (canonical, levels view equal),
    each holding exactly the one key lev(j); if open_last the last one holds no key yet"""
    j, m, k = _bv("j", E), _bv("m", E), _bv("k", E, _S)
    x = z3.Select(t, j)
    nmx = z3.Select(V.nname, x)
    rng = z3.And(j >= gf, j <= last)
    named = z3.ForAll([j], z3.Implies(rng, z3.And(x < 0, z3.Not(V.isshare(x)), nmx != z3.StringVal(""),
                                                  STRIP(nmx) == nmx, NL(nmx) == j)))
    prefix = z3.ForAll([j, m], z3.Implies(z3.And(rng, m >= 0, m < j), LV(nmx, m) == lev(m)))
    holds = z3.And(j < last) if open_last else z3.BoolVal(True)
    onekey = z3.ForAll([j, k], z3.Implies(rng, V.has(x, k) == z3.And(holds, k == lev(j))))
    return [named, prefix, onekey]


def _old_prefix(t, gf, E):
    j = _bv("j", E)
    return z3.ForAll([j], z3.Implies(z3.And(j >= 0, j < gf), z3.Select(t, j) > 0))


@specfunc
def grow_inv(E, part, self_, levels, node, depth, i):
    """loop invariant of add / addNode at the head of iteration i (one named part per obligation)"""
    V, O = View(E), _old(E)
    t, n, gf = _trail(E)
    i = zint(i)
    root = E.rd_field(self_, "shares").t
    la = E.larrs(levels)[0]
    lev = lambda x: z3.Select(la, x)
    j, m = _bv("j", E), _bv("m", E)
    cur = node.t
    curname = z3.Select(V.nname, cur)
    if part == "trail":
        parts = [n == i + 1, z3.Select(t, 0) == root, z3.Select(t, i) == cur, zint(depth) == i, cur != 0,
                 z3.ForAll([j], z3.Implies(z3.And(j >= 0, j < i),
                                           V.step(z3.Select(t, j), lev(j), z3.Select(t, j + 1)))),
                 gf >= 1, gf <= i + 1, _old_prefix(t, gf, E)]
    elif part == "cur":
        parts = [z3.Not(V.isshare(cur)), V.depth(cur) == i,
                 z3.ForAll([m], z3.Implies(z3.And(m >= 0, m < i), LV(curname, m) == lev(m))),
                 z3.ForAll([m], z3.Implies(z3.And(m >= 0, m < i), lev(m) != z3.StringVal("")))]
    elif part == "wf":
        parts = _wf_terms(V, E)
    elif part == "grown":
        parts = _grown(V, O, t, gf, i, lev, E)
    elif part in ("named", "prefix", "onekey"):
        parts = [_fresh_chain(V, t, gf, i, lev, True, E)[("named", "prefix", "onekey").index(part)]]
    else:
        raise Unsupported("grow_inv part %r" % part)
    return Sym(z3.And(*parts), "bool")


GROW_PARTS = ("trail", "cur", "wf", "grown", "named", "prefix", "onekey")


def _added(E, part, self_, leaf, name, kind, qual=None):
    """whole-view post-condition of add (kind 'share': leaf = the share, name = its name) and addNode (kind
    'node': leaf = the returned node), one named part per obligation"""
    V, O = View(E), _old(E)
    t, n, gf = _trail(E, qual)
    root = E.rd_field(self_, "shares").t
    nm = zstr(name)
    L = NL(nm)
    lev = lambda x: LV(nm, x)
    last = L - 1 if kind == "share" else L            # last trail index that may be a node allocated here
    if part == "walk":
        parts = [n == L + 1, _walk(V, root, nm, t, L, E), z3.Select(t, L) == leaf.t,
                 V.isshare(leaf.t) if kind == "share" else z3.Not(V.isshare(leaf.t))]
    elif part == "gf":
        parts = [gf >= 1, gf <= last + 1, _old_prefix(t, gf, E)]
    elif part == "grown":
        parts = _grown(V, O, t, gf, L, lev, E)
    else:
        parts = [_fresh_chain(V, t, gf, last, lev, kind == "node", E)[("named", "prefix", "onekey").index(part)]]
    return z3.And(*parts)


ADDED_PARTS = ("walk", "gf", "grown", "named", "prefix", "onekey")


@specfunc
def added_share(E, part, self_, share, _snap=None):
    return Sym(_added(E, part, self_, share, E.rd_field(share, "name"), "share"), "bool")


@specfunc
def added_node(E, part, self_, name, result, _snap=None):
    return Sym(_added(E, part, self_, result, name, "node"), "bool")


@specfunc
def labels_kept(E, _snap0=None, _snap1=None):
    """tags and names of the objects of the entry heap are unchanged"""
    V, O = View(E), _old(E)
    n = _bv("n", E)
    return Sym(z3.ForAll([n], z3.Implies(n > 0, z3.And(V.isshare(n) == O.isshare(n),
                                                       z3.Select(V.nname, n) == z3.Select(O.nname, n),
                                                       z3.Select(V.sname, n) == z3.Select(O.sname, n)))), "bool")


def _mod_tree(E):
    """modifies of a tree mutator: maps of nodes, and the labels of objects that did not exist before the call"""
    for key, rng, inner in ((("dom", "str"), _Bo, _S), (("dv", "str", "ref:Node", 0), _I, _S)):
        old = _arr(E, None, key, rng, inner)
        E.heap[key] = E.fresh("hv_" + key[0], old.sort())
        E.note_write(key, z3.Int("any!ref"))
    lo = -E.alloc
    r = z3.Int("r!mt")
    for key, rng in ((("f", "Nos.isshare", 0), _Bo), (("f", "Node._name", 0), _S)):
        old = _arr(E, None, key, rng)
        new = E.fresh("hv_" + key[1], old.sort())
        E.assume(z3.ForAll([r], z3.Implies(r >= lo, z3.Select(new, r) == z3.Select(old, r))))
        E.heap[key] = new
        E.note_write(key, z3.Int("any!ref"))


def _mod_tree_frame(E):
    """frame: the one entry-heap node that may gain / change an entry is t[gf-1] (add, addNode) resp. the parent of
    the leaf (change)"""
    qual = E.frame.qual
    if qual in _VIA:
        # create / createNode: the callee's witness, if the adding callee ran on this path
        if "trail:" + _VIA[qual][1] not in _tab(E):
            return []
        t, n, gf = _trail(E, _VIA[qual][1])
    else:
        t, n, gf = _trail(E)
    V = View(E)
    if qual == "Store.change":
        nm = z3.Select(V.sname, E.frame.env["share"].t)
        who = z3.Select(t, NL(nm) - 1)
    else:
        who = z3.Select(t, gf - 1)
    return [(("dom", "str"), who), (("dv", "str", "ref:Node", 0), who)]


_mod_tree.frame = _mod_tree_frame
_VIA = {"Store.create": ("Store.fetchShare", "Store.add", "share"),
        "Store.createNode": ("Store.fetchNode", "Store.addNode", "node")}

@specfunc
def has_empty_level(E, name, upto_last):
    """some level of the path (all but the last one if upto_last) is empty: the region of the known-finding
    proposal C18-rejected-empty-segment-leaves-nodes (findings/c18_proposed_known_findings.json)"""
    name = _concrete(name)
    if isinstance(name, str):
        lv = name.strip('.').split('.')
        return '' in (lv[:-1] if upto_last else lv)
    nm = zstr(name)
    j = _bv("j", E)
    return Sym(z3.Exists([j], z3.And(j >= 0, j < NL(nm) - (1 if upto_last else 0), LV(nm, j) == z3.StringVal(""))), "bool")


has_empty_level.native = lambda name, upto_last: '' in (_n_levels(name)[:-1] if upto_last else _n_levels(name))
REGION_ADD = {"C18-rejected-empty-segment-leaves-nodes": "has_empty_level(share.name, True)"}
REGION_ADDNODE = {"C18-rejected-empty-segment-leaves-nodes": "has_empty_level(name, False)"}

P_ADD = dict(self=Ref("Store"), share=Ref("Share"))
GROW_LOOP = {0: dict(inv=["grow_inv('%s', self, levels, node, depth, _i)" % p_ for p_ in GROW_PARTS],
                     havoc=lambda E: _unsign(E, "node"))}


def _unsign(E, name):
    """a loop-carried local that may hold an object allocated by an earlier iteration: no sign assumption"""
    env = E.frame.env
    v = env.get(name)
    if isinstance(v, RefV):
        t = E.fresh("hvu_" + name, _I)
        E.unsigned_refs.append(t)
        env[name] = RefV(t, v.cls, nn=True)


contract(FS, "Store.add", "C18", params=P_ADD, setup=_setup_mut, externals=EXT, loops=GROW_LOOP,
         inline={"Share.changeStore"}, findings=REGION_ADD,
         requires=["wf(self)"], modifies=["share.store", _mod_tree],
         ensures=["wf(self)"] + ["added_share('%s', self, share, old(tree_snap(self)))" % p_ for p_ in ADDED_PARTS] +
                 [LABELS, "result is share",
                  "share.store is self"],
         raises={"ValueError": [UNCHANGED, "id(share.store) == old(id(share.store))"]}, returns=Ref("Share"))

contract(FS, "Store.addNode", "C18", params=P_NAME, setup=_setup_mut, externals=EXT, loops=GROW_LOOP,
         findings=REGION_ADDNODE,
         requires=["wf(self)"], modifies=[_mod_tree],
         ensures=["wf(self)"] + ["added_node('%s', self, name, result, old(tree_snap(self)))" % p_ for p_ in ADDED_PARTS] + [LABELS],
         raises={"ValueError": [UNCHANGED]}, returns=NODE)


# ---- concrete scenario (second contract of add / addNode): an empty store and the path 'zz..b' -----------------
# The general `raises ValueError: unchanged` obligation quantifies over all stores and paths; when the code violates
# it the solver often cannot build a model of the quantified invariants (status unknown).  The scenario states the
# same clause for ONE concrete input (DESIGN.md section 6 item 10), so that a violation is decided with a replayable
# counterexample; on a tree that honours the clause it is one more discharged instance.
SCENARIO_NAME = "zz..b"


def _setup_scenario(E):
    _setup(E)
    env = E.frame.env
    root = E.rd_field(env["self"], "shares")
    E.wr_field(root, "isshare", False)
    E.wr_field(root, "_name", "")
    E.set_ddom(_dict(root), z3.K(_S, z3.BoolVal(False)))
    if "share" in env:
        E.assume(env["share"].t != root.t)
        E.wr_field(env["share"], "isshare", True)
        E.wr_field(env["share"], "name", SCENARIO_NAME)
        E.wr_field(env["share"], "store", None)


def _mk_scenario(rng, i, cex, nr):
    from ioflo.base import storing
    store = object.__new__(storing.Store)
    store.name = "c18"
    store.stamp = None
    store.shares = storing.Node().byName('')
    if "share" in nr.params:
        return {"self": store, "share": storing.Share(name=SCENARIO_NAME)}
    return {"self": store, "name": SCENARIO_NAME}


contract(FS, "Store.add", "C18", params=P_ADD, setup=_setup_scenario, externals=EXT, inline={"Share.changeStore"},
         frame=False, raises={"ValueError": [UNCHANGED]}, replay=dict(make=_mk_scenario, count=1),
         findings=REGION_ADD,
         note="scenario: empty store, share named 'zz..b' (must be rejected with the store unchanged)")
contract(FS, "Store.addNode", "C18", params=dict(self=Ref("Store"), name=("const", SCENARIO_NAME)),
         setup=_setup_scenario, externals=EXT, frame=False, raises={"ValueError": [UNCHANGED]},
         replay=dict(make=_mk_scenario, count=1), findings=REGION_ADDNODE,
         note="scenario: empty store, path 'zz..b' (must be rejected with the store unchanged)")


# ------------------------------------------------------------------------------------------------ change
@specfunc
def walk_inv(E, part, self_, levels, node, i):
    """loop invariant of change (the heap is not written by the loop): the trail is the walk of levels[:i]"""
    V = View(E)
    t, n, _gf = _trail(E)
    i = zint(i)
    root = E.rd_field(self_, "shares").t
    la = E.larrs(levels)[0]
    lev = lambda x: z3.Select(la, x)
    j, m = _bv("j", E), _bv("m", E)
    cur = node.t
    curname = z3.Select(V.nname, cur)
    if part == "trail":
        parts = [n == i + 1, z3.Select(t, 0) == root, z3.Select(t, i) == cur, cur > 0,
                 z3.ForAll([j], z3.Implies(z3.And(j >= 0, j < i),
                                           V.step(z3.Select(t, j), lev(j), z3.Select(t, j + 1))))]
    else:
        parts = [z3.Not(V.isshare(cur)), V.depth(cur) == i,
                 z3.ForAll([m], z3.Implies(z3.And(m >= 0, m < i), LV(curname, m) == lev(m)))]
    return Sym(z3.And(*parts), "bool")


@specfunc
def changed(E, part, self_, share, _snap=None):
    """exactly the entry (t[L-1], levels[L-1]) is replaced by the share; it held a share before"""
    V, O = View(E), _old(E)
    t, n, _gf = _trail(E)
    root = E.rd_field(self_, "shares").t
    nm = z3.Select(O.sname, share.t)
    L = NL(nm)
    par, key = z3.Select(t, L - 1), LV(nm, L - 1)
    if part == "walk":
        parts = [_walk(V, root, nm, t, L - 1, E), par > 0, z3.Not(V.isshare(par)),
                 O.has(par, key), O.isshare(O.child(par, key)), V.has(par, key), V.child(par, key) == share.t,
                 V.isshare(share.t)]
    else:
        nn = _bv("n", E)
        parts = [z3.ForAll([nn], z3.Implies(z3.And(nn > 0, nn != par),
                                            z3.And(V.keys_of(nn) == O.keys_of(nn), V.vals_of(nn) == O.vals_of(nn)))),
                 V.keys_of(par) == O.keys_of(par), V.vals_of(par) == z3.Store(O.vals_of(par), key, share.t)]
    return Sym(z3.And(*parts), "bool")


contract(FS, "Store.change", "C18", params=P_ADD, setup=_setup_mut, externals=EXT,
         loops={0: dict(inv=["walk_inv('trail', self, levels, node, _i)", "walk_inv('cur', self, levels, node, _i)"])},
         inline={"Share.changeStore"},
         requires=["wf(self)"], modifies=["share.store", _mod_tree],
         ensures=["wf(self)", "changed('walk', self, share, old(tree_snap(self)))", "changed('others', self, share, old(tree_snap(self)))", LABELS,
                  "result is share", "share.store is self"],
         raises={"ValueError": [UNCHANGED, "id(share.store) == old(id(share.store))"]}, returns=Ref("Share"))


# ------------------------------------------------------------------------------------------------ create / createNode
@specfunc
def created(E, part, self_, name, result, _snap=None):
    """create / createNode: EITHER the walk of levels(name) finds an object of the wanted kind, which is returned,
    and nothing changed, OR the add / addNode post-condition holds for an object allocated by this call (a share
    named name.strip('.') whose store is self / a node)"""
    finder, adder, kind = _VIA[E.frame.qual]
    V, O = View(E), _old(E)
    if "trail:" + adder in _tab(E):
        f = _added(E, part, self_, result, name, kind, qual=adder)
        if part == "walk" and kind == "share":
            f = z3.And(f, result.t < 0, z3.Select(V.sname, result.t) == STRIP(zstr(name)),
                       z3.Select(V.sstore, result.t) == self_.t)
        return Sym(f, "bool")
    t, n, _gf = _trail(E, finder)
    root = E.rd_field(self_, "shares").t
    nm = zstr(name)
    L = NL(nm)
    if part == "walk":
        last = z3.Select(t, L)
        good = V.isshare(last) if kind == "share" else z3.Not(V.isshare(last))
        return Sym(z3.And(_walk(V, root, nm, t, L, E), result.t == last, good), "bool")
    if part == "grown":
        return tree_unchanged(E)
    return True


for _q, _k in (("Store.create", "share"), ("Store.createNode", "node")):
    contract(FS, _q, "C18", params=P_NAME, setup=_setup_mut, externals=EXT, requires=["wf(self)"],
             modifies=[_mod_tree],
             ensures=["wf(self)"] + ["created('%s', self, name, result, old(tree_snap(self)))" % p_ for p_ in ADDED_PARTS] + [LABELS],
             raises={"ValueError": [UNCHANGED]}, returns=NODE)


# ================================================================================================ native side
# Reference semantics on REAL objects (dict base methods, explicit kind tests); every clause text above has a twin
# here, so the native harness evaluates the same clauses on the real Store / Node / Share.
def _n_snap(store):
    from ioflo.base import storing
    root = store.shares
    out = {(): (id(root), "node", root.name)}

    def rec(node, path):
        for k in dict.keys(node):
            c = dict.__getitem__(node, k)
            kind = "share" if isinstance(c, storing.Share) else "node"
            out[path + (k,)] = (id(c), kind, c.name)
            if kind == "node":
                rec(c, path + (k,))
    rec(root, ())
    return out


def _n_kids(snap, p):
    return [q for q in snap if len(q) == len(p) + 1 and q[:len(p)] == p]


def _n_wf(store):
    snap = _n_snap(store)
    if snap[()][1:] != ("node", ""):
        return False
    for p, (_i, kind, name) in snap.items():
        if not p:
            continue
        if _n_levels(name) != list(p):
            return False
        if kind == "node" and (name == "" or name.strip('.') != name or name != '.'.join(p)):
            return False
    return True


def _n_unchanged(s0, s1):
    return s0 == s1


def _n_labels(s0, s1):
    """objects of the entry tree that are still in the tree kept their kind and name"""
    d0 = {i: (k, n) for (i, k, n) in s0.values()}
    d1 = {i: (k, n) for (i, k, n) in s1.values()}
    return all(d1[i] == v for i, v in d0.items() if i in d1)


def _n_paths_kept(s0, s1):
    return all(p in s1 and s1[p] == v for p, v in s0.items())


def _n_added(store, leaf, name, kind, old):
    lv = _n_levels(name)
    cur = _n_snap(store)
    if not _n_paths_kept(old, cur):                  # every old path keeps its object, kind and name
        return False
    full = tuple(lv)
    expect = set(tuple(lv[:j]) for j in range(1, len(lv) + 1) if tuple(lv[:j]) not in old)
    if set(cur) - set(old) != expect:                # exactly the missing prefixes (and the leaf) are new
        return False
    if cur.get(full, (None,))[0] != id(leaf) or cur[full][1] != kind:
        return False
    if kind == "share" and full in old:
        return False
    for p in expect:
        if p == full and kind == "share":
            continue
        if cur[p][1] != "node" or cur[p][2] != '.'.join(p):
            return False
        if len(_n_kids(cur, p)) != (1 if p != full else 0):
            return False
    return True


def _n_changed(store, share, old):
    lv = tuple(_n_levels(share.name))
    cur = _n_snap(store)
    if lv not in old or old[lv][1] != "share" or set(cur) != set(old):
        return False
    return all(cur[p] == (old[p] if p != lv else (id(share), "share", share.name)) for p in cur)


def _n_created(kind):
    def f(part, store, name, result, old):
        from ioflo.base import storing
        lv = tuple(_n_levels(name))
        if lv in old and old[lv][1] == kind:
            return _n_snap(store) == old and id(result) == old[lv][0]
        if not _n_added(store, result, name, kind, old):
            return False
        return kind == "node" or (result.name == name.strip('.') and result.store is store)
    return f


tree_snap.native = _n_snap
map_snap.native = lambda node: {k: id(dict.__getitem__(node, k)) for k in dict.keys(node)}
wf.native = _n_wf
tree_unchanged.native = _n_unchanged
labels_kept.native = _n_labels
added_share.native = lambda part, store, share, old: _n_added(store, share, share.name, "share", old)
added_node.native = lambda part, store, name, result, old: _n_added(store, result, name, "node", old)
changed.native = lambda part, store, share, old: _n_changed(store, share, old)
map_same.native = lambda node, old: map_snap.native(node) == old
map_put.native = lambda node, key, val, old: (dict.__getitem__(node, key) is val and
                                              {k: v for k, v in map_snap.native(node).items() if k != key} ==
                                              {k: v for k, v in old.items() if k != key})


def _n_created_dispatch(part, store, name, result, old):
    from ioflo.base import storing
    return _n_created("share" if isinstance(result, storing.Share) else "node")(part, store, name, result, old)


created.native = _n_created_dispatch

_LEVELS = ["a", "b", "c", "value", "a", "b", ""]


def _rnd_name(rng):
    k = rng.choice([1, 1, 2, 2, 2, 3, 3, 4])
    lv = [rng.choice(_LEVELS) for _ in range(k)]
    return rng.choice(["", "", "", ".", ".."]) + ".".join(lv) + rng.choice(["", "", "", ".", ".."])


def _rnd_store(rng):
    """a real store built through its own operations (random sequence, rejected operations included)"""
    from ioflo.base import storing
    store = object.__new__(storing.Store)
    store.name = "c18"
    store.stamp = None
    store.shares = storing.Node().byName('')
    for _ in range(rng.randint(0, 7)):
        nm = _rnd_name(rng)
        try:
            op = rng.randint(0, 3)
            if op == 0:
                sh = store.create(nm)
                if rng.random() < 0.6 and isinstance(sh, storing.Share):
                    # data fields named like levels: a lookup below the share hits them
                    sh.change([(f, rng.choice([1, "txt", {"a": 2}])) for f in rng.sample(["a", "b", "value"], 2)])
            elif op == 1:
                store.createNode(nm)
            elif op == 2:
                store.add(storing.Share(name=nm))
            else:
                store.addNode(nm)
        except Exception:       # rejected operation (ValueError); TypeError: lookup below a share on the unrepaired
            pass                # tree; anything else under a seeded mutant - the builder only produces states
    return store


def _mk_name(rng, i, cex, nr):
    return {"self": _rnd_store(rng), "name": _rnd_name(rng)}


def _mk_share(rng, i, cex, nr):
    from ioflo.base import storing
    store = _rnd_store(rng)
    snap = _n_snap(store)
    name = _rnd_name(rng)
    if rng.random() < 0.5 and len(snap) > 1:        # aim at an existing path (change needs one)
        name = rng.choice(["", "."]) + ".".join(rng.choice([p for p in snap if p])) + rng.choice(["", "."])
    import types
    arg = storing.Share(name=name) if rng.random() < 0.95 else types.SimpleNamespace(name=name, store=None)
    return {"self": store, "share": arg}


def _mk_map(rng, i, cex, nr):
    from ioflo.base import storing
    node = storing.Node()
    for k in rng.sample(["a", "b", "c", "d"], rng.randint(0, 3)):
        node[k] = rng.choice([storing.Node(), storing.Share(name=k)])
    env = {"self": node, "key": rng.choice(["a", "b", "c", "e"])}
    env["default" if "default" in nr.params else "val"] = storing.Node()
    return env


for (_rel, _qual), _cs in list(REG.contracts.items()):
    for _c in _cs:
        if "C18" in _c.prop.split(",") and _c.replay is None:
            if _rel == FO:
                _c.replay = dict(make=_mk_map, count=120)
            elif "share" in _c.params:
                _c.replay = dict(make=_mk_share, count=400)
            else:
                _c.replay = dict(make=_mk_name, count=400)
