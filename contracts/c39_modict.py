"""C39 modict (ioflo/aid/odicting.py): "keeps every value per key and returns the newest".

View: an odict whose map sends every key to a NON-EMPTY list of values in insertion order (one list object per key),
plus the key sequence.  `m[key] = v` / append / update append to the key's list; `m[key]` / get / pop / popitem /
setdefault / values / items deliver the NEWEST value (the last list element); the list accessors (getlist, poplist,
listvalues, listitems, poplistitem) deliver the whole list.  Callees are the odict contracts (modular); in specification
clauses `self[key]` is the raw value LIST of the map, while in the code `self[key]` dispatches to modict.__getitem__.

mo_inv = odict `inv` + every value is a non-empty list + the lists of different keys are different objects (and none
is the key list): true by construction (append / replace / setdefault create the lists), needed so that appending to
one key's list keeps "every value" of every other key.
"""
from pyvc.api import *
from pyvc import builtins_ as B
from contracts.lib import *
from contracts import c39_odict as OD
from contracts import c39_more as M
from contracts.c39_odict import F, K, V_, MODS, UNCHANGED, _d, inv
import z3

VL = List(V_)
classdecl("modict", file=F, bases=("odict",), fields=dict(_keys=List(K), _d=Dict(K, VL), _pos=Dict(K, INT)))
MP = dict(self=Ref("modict"))
KS = opaque_sort("key")


@hook("modict", "getitem")
def _mo_getitem(E, o, idx):
    """specification: the raw value list of the map; code: modict.__getitem__ (through its contract)"""
    if E.spec:
        return B.getitem(E, _d(E, o), idx)
    res = E.repo.find_method(F, "modict", "__getitem__")
    return E.call_func(FuncV(res[0], res[1], res[2], o), [idx], {})


@hook("modict", "super", "__getitem__")
def _sup_getitem(E, selfv, args, kwargs):
    return B.getitem(E, _d(E, selfv), args[0])


@hook("modict", "super", "get")
def _sup_get(E, selfv, args, kwargs):
    return B.dict_method(E, _d(E, selfv), "get", list(args), dict(kwargs))


REG.assume_note("C39 modict: super().__getitem__ / get resolve to the dict base (odict does not define them) and have "
                "the map semantics")


def _lists(E):
    """heap arrays of value lists: (len, elements)"""
    ln = E.harr(("len",), [z3.IntSort()], z3.IntSort())
    el = E.harr(("el", V_.key(), 0), [z3.IntSort(), z3.IntSort()], sorts(V_)[0])
    return ln, el


def _old(E, fn):
    heap = E.heap
    E.heap = dict(E.heap_old)
    try:
        return fn()
    finally:
        E.heap = heap


@specfunc
def mo_inv(E, o):
    n, a, dom, val = M.view(E, o)
    ln, _el = _lists(E)
    k, k2 = z3.Const("k!mo%d" % next(E.counter), KS), z3.Const("k2!mo%d" % next(E.counter), KS)
    keys_ref = E.rd_field(o, "_keys").t
    each = z3.ForAll([k], z3.Implies(z3.Select(dom, k), z3.And(z3.Select(val, k) != 0, z3.Select(val, k) != keys_ref,
                                                              z3.Select(ln, z3.Select(val, k)) >= 1)))
    apart = z3.ForAll([k, k2], z3.Implies(z3.And(z3.Select(dom, k), z3.Select(dom, k2), k != k2),
                                          z3.Select(val, k) != z3.Select(val, k2)))
    return Sym(z3.And(inv(E, o).t, each, apart), "bool")


@specfunc
def wf_lists(E, o):
    """typing of the pre-state (the engine's convention, stated for every key at once): the value lists that exist at
    entry are pre-state objects (positive references; objects allocated during the call get negative ones)"""
    _n, _a, dom, val = M.view(E, o)
    k = z3.Const("k!wf%d" % next(E.counter), KS)
    return Sym(z3.ForAll([k], z3.Implies(z3.Select(dom, k), z3.Select(val, k) > 0)), "bool")


wf_lists.native = lambda o: True
WF = ["wf_lists(self)"]


@specfunc
def vlist(E, o, key):
    """the key's value list (the raw entry of the map; `o[key]` itself is the newest value on a real modict)"""
    return B.getitem(E, _d(E, o), key)


vlist.native = lambda o, key: dict.__getitem__(o, key)


@specfunc
def newest(E, o, key):
    """last element of the key's value list"""
    lv = B.getitem(E, _d(E, o), key)
    return E.lget(lv, E.llen(lv) - 1)


@specfunc
def others_kept(E, o, key):
    """every key other than `key` keeps membership, its list object and the list's contents (key None: every key)"""
    _n, _a, dom, val = M.view(E, o)
    _n0, _a0, dom0, val0 = M.oldview(E, o)
    ln, el = _lists(E)
    ln0, el0 = _old(E, lambda: _lists(E))
    k = z3.Const("k!ok%d" % next(E.counter), KS)
    c = z3.Int("c!ok%d" % next(E.counter))
    cond = z3.BoolVal(True) if key is None else (k != E.dkey(_d(E, o), key))
    r = z3.Select(val0, k)
    same = z3.And(z3.Select(val, k) == r, z3.Select(ln, r) == z3.Select(ln0, r),
                  z3.ForAll([c], z3.Implies(z3.And(c >= 0, c < z3.Select(ln0, r)),
                                            z3.Select(z3.Select(el, r), c) == z3.Select(z3.Select(el0, r), c))))
    return Sym(z3.ForAll([k], z3.Implies(cond, z3.And(z3.Select(dom, k) == z3.Select(dom0, k),
                                                       z3.Implies(z3.Select(dom0, k), same)))), "bool")


@specfunc
def appended(E, o, key, value):
    """the key's list is its old list (empty if the key is new) followed by `value`"""
    _n, _a, dom, val = M.view(E, o)
    _n0, _a0, dom0, val0 = M.oldview(E, o)
    ln, el = _lists(E)
    ln0, el0 = _old(E, lambda: _lists(E))
    kt = E.dkey(_d(E, o), key)
    r, r0 = z3.Select(val, kt), z3.Select(val0, kt)
    n0 = z3.If(z3.Select(dom0, kt), z3.Select(ln0, r0), z3.IntVal(0))
    c = z3.Int("c!ap%d" % next(E.counter))
    vt = pack(V_, value)[0]
    return Sym(z3.And(z3.Select(dom, kt), z3.Select(ln, r) == n0 + 1, z3.Select(z3.Select(el, r), n0) == vt,
                      z3.Implies(z3.Select(dom0, kt), r == r0),
                      z3.ForAll([c], z3.Implies(z3.And(c >= 0, c < n0),
                                                z3.Select(z3.Select(el, r), c) == z3.Select(z3.Select(el0, r0), c)))), "bool")


@specfunc
def mo_snap(E, o):
    return None


def _n_snap(o):
    return {k: list(dict.__getitem__(o, k)) for k in o._keys}


mo_inv.native = lambda o: OD.inv.native(o) and all(isinstance(dict.__getitem__(o, k), list) and
                                                   len(dict.__getitem__(o, k)) >= 1 for k in o._keys) and \
    len({id(dict.__getitem__(o, k)) for k in o._keys}) == len(o._keys)
newest.native = lambda o, key: dict.__getitem__(o, key)[-1]
mo_snap.native = _n_snap


# ------------------------------------------------------------------------------------------- native harness
def mo_harness(extra=None, call=None, model=None, count=200):
    """a real modict with random small contents; model(keys, lists, env) -> (keys', lists', result | exception class)
    over the independent reference (list of keys + dict key -> list of values)"""
    def make(rng, i, cex, nr):
        import importlib
        mod = importlib.import_module("ioflo.aid.odicting")
        od = mod.modict([(rng.choice(M.NKEYS), rng.randint(0, 9)) for _ in range(rng.randint(0, 5))])
        env = {"self": od}
        if extra:
            env.update(extra(rng, mod))
        env["_snap"] = (list(od._keys), _n_snap(od))
        return env

    def check(env, nr, outcome, result, exc):
        try:
            return _check(env, nr, outcome, result, exc)
        except Exception as ex:
            return ["reference model: the object cannot be read back (%r)" % (ex,)]

    def _check(env, nr, outcome, result, exc):
        if model is None:
            return []
        keys, lists = list(env["_snap"][0]), {k: list(v) for k, v in env["_snap"][1].items()}
        want = model(keys, lists, env)
        od = env["self"]
        msgs = []
        got = (list(od._keys), _n_snap(od))
        if got != (want[0], want[1]):
            msgs.append("reference model: state %r expected %r" % (got, (want[0], want[1])))
        if isinstance(want[2], type) and issubclass(want[2], BaseException):
            if exc is None or not isinstance(exc, want[2]):
                msgs.append("reference model: expected %s, got %r / %r" % (want[2].__name__, result, exc))
        elif exc is not None or (want[2] is not Ellipsis and result != want[2]):
            msgs.append("reference model: result %r (exc %r) expected %r" % (result, exc, want[2]))
        return msgs
    d = dict(make=make, check=check, count=count)
    if call:
        d["call"] = call
    return d


def _kv(rng, mod):
    return {"key": rng.choice(M.NKEYS), "value": rng.randint(10, 19)}


def _k(rng, mod):
    return {"key": rng.choice(M.NKEYS)}


def _m_append(ks, ls, env):
    k = env["key"]
    if k not in ls:
        ks.append(k)
        ls[k] = []
    ls[k].append(env["value"])
    return ks, ls, None


@specfunc
def old_newest(E, o, key):
    return _old(E, lambda: newest(E, o, key))


@specfunc
def newest_of(E, res, o, pairs=False):
    """res[j] is the newest value of the j-th key (pairs: res[j] == (key j, its newest value))"""
    n, a, _dom, val = M.view(E, o)
    ln, el = _lists(E)
    j = z3.Int("j!nw%d" % next(E.counter))
    r = z3.Select(val, z3.Select(a, j))
    nw = z3.Select(z3.Select(el, r), z3.Select(ln, r) - 1)
    arrs = E.larrs(res)
    body = z3.And(arrs[0] == arrs[0], z3.Select(arrs[-1], j) == nw)
    if pairs:
        body = z3.And(z3.Select(arrs[0], j) == z3.Select(a, j), z3.Select(arrs[1], j) == nw)
    return Sym(z3.And(E.llen(res) == n, z3.ForAll([j], z3.Implies(z3.And(j >= 0, j < n), body))), "bool")


old_newest.native = None
newest_of.native = lambda res, o, pairs=False: list(res) == [((k, dict.__getitem__(o, k)[-1]) if pairs else
                                                                dict.__getitem__(o, k)[-1]) for k in o._keys]

KEYS_KEPT = ["implies(old(key in self), keys_unchanged(self))",
             "implies(not old(key in self), is_concat(self._keys, old_keys(self), [key]))"]
MO_MODS = MODS + ["self[key][*]"]
ENS_APPEND = ["mo_inv(self)", "appended(self, key, value)", "implies(not old(key in self), fresh(vlist(self, key)))",
              "others_kept(self, key)"] + KEYS_KEPT

# odict.__setitem__ for a modict receiver (values are list objects): as the C39 contract of odict.__setitem__, with
# the stored object stated by identity (`is`), which is what the list-per-key invariant needs
contract(F, "odict.__setitem__", "C39", params=dict(MP, key=K, val=VL), requires=["inv(self)"], assumes=WF, modifies=MODS,
         ghost={"after": {"self._keys.append(key)": OD._g_after_append}},
         ensures=["inv(self)", "key in self and vlist(self, key) is val", "same_vals_except(self, key)"] + KEYS_KEPT,
         note="variant for modict receivers (list values)")
contract(F, "modict.append", "C39", params=dict(MP, key=K, value=V_), requires=["mo_inv(self)"], assumes=WF, modifies=MO_MODS,
         ensures=ENS_APPEND, replay=mo_harness(extra=_kv, model=_m_append))
contract(F, "modict.__setitem__", "C39", params=dict(MP, key=K, value=V_), requires=["mo_inv(self)"], assumes=WF, modifies=MO_MODS,
         ensures=ENS_APPEND, replay=mo_harness(extra=_kv, model=_m_append),
         note="setting an item APPENDS to the key's value list (class docstring)")
contract(F, "modict.__getitem__", "C39", params=dict(MP, key=K), requires=["mo_inv(self)"], assumes=WF, modifies=[],
         ensures=["key in self", "result == newest(self, key)"], raises={"KeyError": ["key not in self"]}, returns=V_,
         replay=mo_harness(extra=_k, model=lambda ks, ls, env: (ks, ls, ls[env["key"]][-1] if env["key"] in ls
                                                                else KeyError)))
contract(F, "modict.get", "C39", params=dict(MP, key=K, default=V_), requires=["mo_inv(self)"], assumes=WF, modifies=[],
         ensures=["implies(key in self, result == newest(self, key))", "implies(key not in self, result == default)"],
         returns=V_,
         replay=mo_harness(extra=lambda rng, mod: {"key": rng.choice(M.NKEYS), "default": -1},
                           model=lambda ks, ls, env: (ks, ls, ls[env["key"]][-1] if env["key"] in ls else -1)),
         note="index=-1 (newest), kind=None, explicit default of the value type")
contract(F, "modict.getlist", "C39", params=dict(MP, key=K), requires=["mo_inv(self)"], assumes=WF, modifies=[],
         ensures=["implies(key in self, result is vlist(self, key))", "implies(key not in self, len(result) == 0 and fresh(result))"],
         returns=VL,
         replay=mo_harness(extra=_k, model=lambda ks, ls, env: (ks, ls, list(ls.get(env["key"], [])))))
contract(F, "modict.has_key", "C39", params=dict(MP, key=K), requires=["mo_inv(self)"], assumes=WF, modifies=[],
         ensures=["result == (key in self)"], returns=BOOL,
         replay=mo_harness(extra=_k, model=lambda ks, ls, env: (ks, ls, env["key"] in ls)))


def _m_replace(ks, ls, env):
    if env["key"] not in ls:
        ks.append(env["key"])
    ls[env["key"]] = [env["value"]]
    return ks, ls, None


contract(F, "modict.replace", "C39", params=dict(MP, key=K, value=V_), requires=["mo_inv(self)"], assumes=WF, modifies=MODS,
         ensures=["mo_inv(self)", "key in self and len(vlist(self, key)) == 1 and vlist(self, key)[0] == value", "fresh(vlist(self, key))",
                  "others_kept(self, key)"] + KEYS_KEPT,
         replay=mo_harness(extra=_kv, model=_m_replace))


# ------------------------------------------------------------------------------------------- setdefault / pop family
def _m_setdefault(ks, ls, env):
    k = env["key"]
    if k in ls:
        return ks, ls, ls[k][-1]
    return ks + [k], dict(ls, **{k: [env["default"]]}), env["default"]


contract(F, "modict.setdefault", "C39", params=dict(MP, key=K, default=V_), requires=["mo_inv(self)"], assumes=WF,
         modifies=MO_MODS,
         ensures=["mo_inv(self)",
                  "implies(old(key in self), result == old_newest(self, key) and others_kept(self, None) and "
                  "keys_unchanged(self))",
                  "implies(not old(key in self), result == default and appended(self, key, default) and "
                  "others_kept(self, key) and is_concat(self._keys, old_keys(self), [key]))"],
         returns=V_,
         replay=mo_harness(extra=lambda rng, mod: {"key": rng.choice(M.NKEYS), "default": rng.randint(10, 19)},
                           model=_m_setdefault),
         note="explicit default of the value type, kind=None")


def _m_pop(lst):
    def model(ks, ls, env):
        k = env["key"]
        if k not in ls:
            return (ks, ls, env["pa"][0]) if env.get("pa") else (ks, ls, KeyError)
        ls = dict(ls)
        v = ls.pop(k)
        return [x for x in ks if x != k], ls, (v if lst else v[-1])
    return model


def _pop_call(meth):
    return lambda env, nr: getattr(env["self"], meth)(env["key"], *env.get("pa", ()))


_POP_GONE = ["mo_inv(self)", "key not in self", "others_kept(self, key)"]
_POP_KEYS = "removed_at(self._keys, old_keys(self), old_pos(self, key))"
_NOCHANGE = [UNCHANGED, "others_kept(self, None)"]
for _meth, _res, _lst in (("pop", "result == old_newest(self, key)", False),
                          ("poplist", "seq_eq(result, old(vlist(self, key)))", True)):
    contract(F, "modict." + _meth, "C39", params=dict(MP, key=K), requires=["mo_inv(self)"], assumes=WF, modifies=MODS,
             ensures=_POP_GONE + ["old(key in self)", _res, _POP_KEYS],
             raises={"KeyError": ["old(key not in self)"] + _NOCHANGE}, returns=(VL if _lst else V_),
             replay=mo_harness(extra=_k, call=_pop_call(_meth), model=_m_pop(_lst)), note="called without a default")
contract(F, "modict.pop", "C39", params=dict(MP, key=K, pa=("vararg", (V_,))), requires=["mo_inv(self)"], assumes=WF,
         modifies=MODS,
         ensures=_POP_GONE + ["implies(old(key in self), result == old_newest(self, key) and %s)" % _POP_KEYS,
                              "implies(not old(key in self), result == pa[0] and keys_unchanged(self))"],
         returns=V_,
         replay=mo_harness(extra=lambda rng, mod: {"key": rng.choice(M.NKEYS), "pa": (-1,)}, call=_pop_call("pop"),
                           model=_m_pop(False)),
         note="called with a default: never raises (poplist with a default returns either a list or the default: "
              "not under contract, bounded stand-in only)")


# ---- popitem / poplistitem: LIFO by default, FIFO with last=False (docstrings).  On the pinned tree both pass
# `last=` to odict.popitem, which takes no such parameter (call-shape obligation).  odict.popitem is given a second
# contract variant that knows `last`; on a tree whose odict.popitem has no such parameter `last` is the constant True.
def _set_last(E):
    E.frame.env.setdefault("last", True)


_PI_ENS = ["len(old_keys(self)) > 0",
           "implies(last, result[0] == old_keys(self)[len(old_keys(self)) - 1] and "
           "is_slice(self._keys, old_keys(self), 0, len(old_keys(self)) - 1))",
           "implies(not last, result[0] == old_keys(self)[0] and "
           "is_slice(self._keys, old_keys(self), 1, len(old_keys(self))))",
           "result[0] not in self"]
contract(F, "odict.popitem", "C39", params=dict(M.P, last=BOOL), setup=_set_last, requires=["inv(self)"], modifies=MODS,
         ensures=["inv(self)"] + _PI_ENS + ["same_vals_except(self, result[0])", "result[1] is old_val(self, result[0])"],
         raises={"KeyError": ["len(old_keys(self)) == 0", UNCHANGED]},
         returns=lambda E, env: Tup(_d(E, env["self"]).kt, _d(E, env["self"]).vt),
         note="variant with the `last` parameter (LIFO / FIFO); without that parameter in the source, last == True")


@specfunc
def old_val(E, o, key):
    return _old(E, lambda: B.getitem(E, _d(E, o), key))


def _m_popitem(lst):
    def model(ks, ls, env):
        if not ks:
            return ks, ls, KeyError
        k = ks[-1] if env.get("last", True) else ks[0]
        ls = dict(ls)
        v = ls.pop(k)
        return [x for x in ks if x != k], ls, (k, v if lst else v[-1])
    return model


_PI_EXTRA = lambda rng, mod: {"last": rng.random() < 0.5}
contract(F, "modict.popitem", "C39", params=dict(MP, last=BOOL), requires=["mo_inv(self)"], assumes=WF, modifies=MODS,
         ensures=["mo_inv(self)"] + _PI_ENS + ["others_kept(self, result[0])", "result[1] == old_newest(self, result[0])"],
         raises={"KeyError": ["len(old_keys(self)) == 0"] + _NOCHANGE}, returns=Tup(K, V_),
         replay=mo_harness(extra=_PI_EXTRA, model=_m_popitem(False)), note="index=-1 (newest)")
contract(F, "modict.poplistitem", "C39", params=dict(MP, last=BOOL), requires=["mo_inv(self)"], assumes=WF,
         modifies=MODS,
         ensures=["mo_inv(self)"] + _PI_ENS + ["others_kept(self, result[0])",
                                               "seq_eq(result[1], old_val(self, result[0]))"],
         raises={"KeyError": ["len(old_keys(self)) == 0"] + _NOCHANGE}, returns=Tup(K, VL),
         replay=mo_harness(extra=_PI_EXTRA, model=_m_popitem(True)))

# ---- views: newest value per key, in key order
contract(F, "modict.values", "C39", params=dict(MP), requires=["mo_inv(self)"], assumes=WF, modifies=[],
         ensures=["fresh(result)", "newest_of(result, self)"], returns=VL,
         replay=mo_harness(model=lambda ks, ls, env: (ks, ls, [ls[k][-1] for k in ks])))
contract(F, "modict.items", "C39", params=dict(MP), requires=["mo_inv(self)"], assumes=WF, modifies=[],
         ensures=["fresh(result)", "newest_of(result, self, True)"], returns=List(Tup(K, V_)),
         replay=mo_harness(model=lambda ks, ls, env: (ks, ls, [(k, ls[k][-1]) for k in ks])))
contract(F, "modict.listitems", "C39", params=dict(MP), requires=["mo_inv(self)"], assumes=WF, modifies=[],
         ensures=["fresh(result)", "items_of(result, self)"], returns=List(Tup(K, VL)),
         replay=mo_harness(model=lambda ks, ls, env: (ks, ls, [(k, ls[k]) for k in ks])))
