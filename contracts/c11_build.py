"""C11 (builder side): `timeout T` / `repeat N` must test the clocks of the framer that EXECUTES the frame.

Framers are cloned textually (moot framers run as auxiliary clones under another name); an act's share paths are
resolved per clone at resolve time, and only the relative form `framer.me.state.<name>` follows the clone.  So the
need that buildTimeout / buildRepeat attach must carry exactly that relative path, the comparison '>=', the goal given in
the script and tolerance 0 - for every name and goal.  (Seeded change seeded/C11b: the path was built from
`self.currentFramer.name`, which equals 'me' only for framers that run under their own name.)
"""
from pyvc.api import *
from contracts.lib import *
import z3

FB = "ioflo/base/building.py"
classdecl("ActB", fields=dict(actor=STR, p_state=STR, p_stateField=STR, p_comparison=STR, p_goal=REAL, p_tolerance=REAL,
                              p_goalPath=STR, p_goalField=STR))
classdecl("NamedB", fields=dict(name=STR))
classdecl("BuilderB", file=FB, fields=dict(currentFramer=Ref("NamedB"), currentFrame=Ref("NamedB"),
                                           currentHuman=STR, currentCount=INT))
REG.classes["BuilderB"].source = "Builder"


def _act_ctor(E, cv, args, kwargs):
    """acting.Act(actor=..., registrar=..., parms=..., human=..., count=...): a new act carrying its parameter table"""
    a = RefV(E.new_ref(), "ActB", nn=True)
    E.wr_field(a, "actor", kwargs["actor"])
    parms = kwargs.get("parms") or {}
    for k in ("state", "stateField", "comparison", "goal", "tolerance", "goalField"):
        if k in parms:
            if k == "goal" and kind_of(parms[k]) == "str":
                E.wr_field(a, "p_goalPath", parms[k])      # an indirect need's goal is a share path
            else:
                E.wr_field(a, "p_" + k, parms[k])
    return a


classdecl("Act", fields={})
REG.classes["Act"].hooks[("ctor", None)] = _act_ctor


@hook("ActB", "getattr", "parms")
def _act_parms(E, a):
    return {k: E.rd_field(a, "p_" + k) for k in ("state", "stateField", "comparison", "goal", "tolerance")}


classdecl("odict", fields={})       # needing.Need.Registry (membership test only)
REG.classes["odict"].hooks[("ctor", None)] = lambda E, cv, a, k: {"NeedDirect": 1, "NeedIndirect": 1, "NeedBoolean": 1}
REG.assume_note("C11 builder: acting.Act(...) is an opaque constructor that stores actor and the parameter table; "
                "'NeedDirect' is registered in needing.Need.Registry (the membership test is assumed true: the class "
                "is defined in needing.py and registered by its metaclass)")


@specfunc
def registry_has(E, name):
    return True


P = dict(self=Ref("BuilderB"))
contract(FB, "Builder.makeDirectNeed", "C11",
         params=dict(P, statePath=STR, stateField=STR, comparison=STR, goal=REAL, tolerance=REAL),
         modifies=[], frame=False,
         ensures=["fresh(result)", "result.actor == 'NeedDirect'", "result.p_state == statePath",
                  "result.p_stateField == stateField", "result.p_comparison == comparison",
                  "result.p_goal == goal", "result.p_tolerance == tolerance"],
         raises={"ParseError": ["False"]}, returns=Ref("ActB"))

contract(FB, "Builder.makeImplicitDirectFramerNeed", "C11",
         params=dict(P, name=STR, comparison=STR, goal=REAL, tolerance=REAL),
         modifies=[], frame=False,
         ensures=[
             # the need reads the executing framer's own clock share: the RELATIVE path, never a framer's name
             "result.p_state == 'framer.me.state.' + name", "result.p_stateField == 'value'",
             "result.p_comparison == comparison", "result.p_goal == goal", "result.p_tolerance == tolerance",
             "result.actor == 'NeedDirect'"],
         raises={"ParseError": ["False"]}, returns=Ref("ActB"))


# ---------------------------------------------------------------- C21 (builder side): a written framer-clock comparison
# `elapsed|recurred <op> goal [+- tol]` / `... <op> <field> in <share>` becomes the need that compares exactly the
# written pieces (seeded change seeded/C21b: the goal FIELD of an indirect goal was replaced by the state field)
contract(FB, "Builder.makeIndirectNeed", "C21,C11",
         params=dict(P, statePath=STR, stateField=STR, comparison=STR, goalPath=STR, goalField=STR, tolerance=REAL),
         modifies=[], frame=False,
         ensures=["fresh(result)", "result.actor == 'NeedIndirect'", "result.p_state == statePath",
                  "result.p_stateField == stateField", "result.p_comparison == comparison",
                  "result.p_goalPath == goalPath", "result.p_goalField == goalField", "result.p_tolerance == tolerance"],
         raises={"ParseError": ["False"]}, returns=Ref("ActB"))


def _parser(name, tys):
    """an opaque token parser of the Builder: returns arbitrary values of the given types; the values are recorded
    as ghost g_<name>_<k> so that the post-condition can say WHICH parsed piece goes WHERE"""
    def attr(E, obj):
        def m(E2, *args, **kwargs):
            out = []
            for k, ty in enumerate(tys):
                v = E2.fresh_val("parsed_%s_%d" % (name, k), ty)
                E2.ghost["g_%s_%d" % (name, k)] = v
                out.append(v)
            return tuple(out)
        m._specfunc = True
        return m
    return attr


REG.classes["BuilderB"].hooks[("getattr", "parseComparisonReq")] = _parser("cmp", (STR, INT))
REG.classes["BuilderB"].hooks[("getattr", "parseFramerNeedGoal")] = _parser("goal", (BOOL, REAL, STR, STR, INT))
REG.classes["BuilderB"].hooks[("getattr", "parseTolerance")] = _parser("tol", (REAL, INT))
REG.assume_note("C21 builder: parseComparisonReq / parseFramerNeedGoal / parseTolerance (token parsing) are opaque: they "
                "return arbitrary pieces; what is proved is that makeFramerNeed puts each parsed piece into the "
                "matching parameter of the need it creates")

contract(FB, "Builder.makeFramerNeed", "C21,C11",
         params=dict(P, name=STR, tokens=List(STR), index=INT),
         modifies=[], frame=False,
         ensures=[
             "result[1] == g_tol_1",
             "result[0].p_state == 'framer.me.state.' + name and result[0].p_stateField == 'value'",
             "result[0].p_comparison == g_cmp_0 and result[0].p_tolerance == g_tol_0",
             # direct goal: the written value; indirect goal: the written share path AND the written goal field
             "implies(g_goal_0, result[0].actor == 'NeedDirect' and result[0].p_goal == g_goal_1)",
             "implies(not g_goal_0, result[0].actor == 'NeedIndirect' and result[0].p_goalPath == g_goal_2 and "
             "result[0].p_goalField == g_goal_3)"],
         raises={"ParseError": ["False"]}, returns=Tup(Ref("ActB"), INT))
