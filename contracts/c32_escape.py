"""C32 - malformed HTTP input only affects its own connection.

The statement is an EXCEPTION contract on the service loops: `raises = {}` (nothing escapes) for

    Valet.serviceReqs, Porter.serviceStewards        (the servers' request loops over all connections)
    Patron.serviceResponse                           (the client)
    Parsent.parse / Parsent.parseMessage             (for Requestant and Respondent receivers)

plus the shape of the error path: a parse error marks the message as failed (.errored / .error / .ended), the server
closes THAT connection and goes on with the others.

The bodies are generators driving generators (`next(headParser)`, `next(self.parser)`), far outside what the pyvc
symbolic executor models, so these obligations are decided by the exception-escape analysis of `pyvc/escape.py` - an
abstract interpretation of the real AST that OVER-approximates the set of exception classes escaping each function
(raise sites, callee summaries to a fixpoint, try/except filtering with the real class hierarchy, and a fixed table of
library operations that raise on malformed text: int()/float(), tuple-unpack of split(), .decode of a non-latin codec,
.index(), json.loads, literal subscripts).  An obligation `no <family> escapes F` holds iff the computed set for F
contains no class of that family.  Path-insensitive, hence conservative: an alarm can be spurious, a pass cannot
(relative to the listed assumptions: the library table is complete for the operations these functions use, the callees
listed as `unknown` in the evidence do not raise, no TypeError/AttributeError from ill-typed values).

A native search on the real classes backs the static obligations (cross-check on every run, replay of a failed
obligation): byte-level mutations of valid requests / responses, delivered in random splits to a real `Valet` with
three connections (doubles for the TCP server and incomers) and to a real `Respondent`.
"""
import ast

from pyvc.api import REG

H = "ioflo/aio/http/httping.py"
S = "ioflo/aio/http/serving.py"
C = "ioflo/aio/http/clienting.py"

FUNCS = {
    "parseLine": (H, "parseLine"), "parseLeader": (H, "parseLeader"), "parseChunk": (H, "parseChunk"),
    "parseBom": (H, "parseBom"), "parseStatusLine": (H, "parseStatusLine"), "parseRequestLine": (H, "parseRequestLine"),
    "Parsent.parseHead": (H, "Parsent.parseHead"), "Parsent.parseBody": (H, "Parsent.parseBody"),
    "Parsent.parseMessage": (H, "Parsent.parseMessage"), "Parsent.parse": (H, "Parsent.parse"),
    "Parsent.checkPersisted": (H, "Parsent.checkPersisted"), "Parsent.dictify": (H, "Parsent.dictify"),
    "Parsent.makeParser": (H, "Parsent.makeParser"), "Parsent.close": (H, "Parsent.close"),
    "Parsent.reinit": (H, "Parsent.reinit"),
    "EventSource.parseEvents": (H, "EventSource.parseEvents"),
    "EventSource.parse": (H, "EventSource.parse"), "EventSource.makeParser": (H, "EventSource.makeParser"),
    "EventSource.close": (H, "EventSource.close"),
    "Requestant.parseHead": (S, "Requestant.parseHead"), "Requestant.parseBody": (S, "Requestant.parseBody"),
    "Requestant.checkPersisted": (S, "Requestant.checkPersisted"),
    "Respondent.parseHead": (C, "Respondent.parseHead"), "Respondent.parseBody": (C, "Respondent.parseBody"),
    "Respondent.checkPersisted": (C, "Respondent.checkPersisted"), "Respondent.close": (C, "Respondent.close"),
    "Valet.serviceReqs": (S, "Valet.serviceReqs"), "Valet.closeConnection": (S, "Valet.closeConnection"),
    "Porter.serviceStewards": (S, "Porter.serviceStewards"), "Porter.closeConnection": (S, "Porter.closeConnection"),
    "Patron.serviceResponse": (C, "Patron.serviceResponse"),
    "Steward.respond": (S, "Steward.respond"), "Steward.pour": (S, "Steward.pour"), "Steward.refresh": (S, "Steward.refresh"),
}
TOPS = ["Parsent.parseMessage", "Parsent.parse", "Valet.serviceReqs", "Porter.serviceStewards", "Patron.serviceResponse"]
FAMILIES = {
    "HTTPException": ("HTTPException",),
    "ValueError": ("ValueError",),                       # includes UnicodeDecodeError / UnicodeError
    "LookupError or any other modelled class": ("LookupError", "Exception"),
}
SELF_CLASSES = {"Parsent": ["Requestant", "Respondent", "Parsent"], "Requestant": ["Requestant", "Parsent"],
                "Respondent": ["Respondent", "Parsent"]}
# which generator an attribute holds is DERIVED from the code on every run: `self.<attr> = self.<method>(...)` inside the
# class (EventSource.makeParser assigns parseEvents; parseEventStream is not referenced anywhere and reads an unbound
# name - dead code, outside the analysed set).  An assigned generator method that is not analysed stays unresolved and
# fails the obligation `every generator driven by the parsers is one of the analysed functions`.
GEN_OWNERS = {"Parsent": H, "EventSource": H}


def _derive_attr_gens(repo, funcs):
    out = {}
    for cls, rel in GEN_OWNERS.items():
        cd = repo.module(rel).classes.get(cls)
        if cd is None:
            continue
        for n in ast.walk(cd):
            if isinstance(n, ast.Assign) and isinstance(n.value, ast.Call) and isinstance(n.value.func, ast.Attribute) \
                    and isinstance(n.value.func.value, ast.Name) and n.value.func.value.id == "self":
                m = n.value.func.attr
                for t in n.targets:
                    if isinstance(t, ast.Attribute) and isinstance(t.value, ast.Name) and t.value.id == "self":
                        key = "%s.%s" % (cls, m)
                        fn = None
                        try:
                            fn = repo.func(rel, key)
                        except Exception:
                            pass
                        if fn is not None and any(isinstance(x, (ast.Yield, ast.YieldFrom)) for x in ast.walk(fn)):
                            if key in funcs:
                                out.setdefault("%s.%s" % (cls, t.attr), []).append(key)
                            else:
                                out.setdefault("%s.%s" % (cls, t.attr), [])      # known attribute, unanalysed generator
    return {k: v for k, v in out.items() if v}
RECV = {"requestant": ["Requestant", "Parsent"], "respondent": ["Respondent", "Parsent"],
        "eventSource": ["EventSource"], "steward": ["Steward"]}

_cache = {}


def _analysis(repo):
    key = repo.root
    if key not in _cache:
        from pyvc.escape import Escapes
        funcs = {}
        for k, (rel, q) in FUNCS.items():
            try:
                repo.func(rel, q)
            except Exception:
                continue            # an optional helper that the tree does not define
            funcs[k] = (rel, q)
        missing = [t for t in TOPS if t not in funcs]
        if missing:
            raise RuntimeError("functions under the exception contract not found: %s" % missing)
        e = Escapes(repo, funcs, self_classes=SELF_CLASSES, attr_gens=_derive_attr_gens(repo, funcs), recv_classes=RECV)
        e.run()
        _cache[key] = e
    return _cache[key]


def _escape_check(top, fam, roots):
    def check(repo):
        e = _analysis(repo)
        got = sorted(x for x in e.summary[top] if any(r in e.ancestors(x) for r in roots))
        if not got:
            return True, "escape set of %s: %s" % (top, sorted(e.summary[top]) or "{}")
        sites = sorted(set(s for s in e.sites[top] if s[1] in got))[:8]
        return False, "%s may escape %s; sites (line, class, how): %s" % (got, top, sites)
    return check


for _t in TOPS:
    for _fam, _roots in FAMILIES.items():
        REG.static_checks.append(("C32", "no %s escapes %s" % (_fam, _t), _escape_check(_t, _fam, _roots)))


def _canary(repo):
    """vacuity guard: the same analysis must REPORT the escapes of a function written here (a raise behind a handler
    that does not catch it, a conversion, a generator driven by next()) and must filter what the handler catches"""
    from pyvc.escape import Escapes
    src = (
        "def gen(raw):\n"
        "    n = int(raw)\n"
        "    (yield None)\n"
        "    raise KeyError(n)\n"
        "def top(raw):\n"
        "    g = gen(raw)\n"
        "    try:\n"
        "        next(g)\n"
        "    except LookupError:\n"
        "        pass\n"
        "def safe(raw):\n"
        "    g = gen(raw)\n"
        "    try:\n"
        "        next(g)\n"
        "    except (LookupError, ValueError):\n"
        "        pass\n")
    e = Escapes(repo, {})
    for fn in ast.parse(src).body:
        e.funcs[fn.name] = ("(canary)", fn.name)
        e.nodes[fn.name] = fn
        e.rel[fn.name] = "(canary)"
        e.summary[fn.name] = set()
        e.sites[fn.name] = []
    e.run()
    ok = e.summary["gen"] == {"ValueError", "KeyError"} and e.summary["top"] == {"ValueError"} and e.summary["safe"] == set()
    return ok, "gen: %s, top: %s, safe: %s" % (sorted(e.summary["gen"]), sorted(e.summary["top"]), sorted(e.summary["safe"]))


REG.static_checks.append(("C32", "canary: the escape analysis reports a planted escape and filters a caught one", _canary))


def _no_unnamed_generators(repo):
    e = _analysis(repo)
    return (not e.unresolved_next), "; ".join(sorted(e.unresolved_next)) or "every next() is resolved to a generator under analysis"


REG.static_checks.append(("C32", "every generator driven by the parsers is one of the analysed functions", _no_unnamed_generators))


# ---- shape of the error path (decided on the AST of the real functions) ----------------------------------------
def _assigns_true(stmts, attr_path):
    for st in stmts:
        if isinstance(st, ast.Assign) and isinstance(st.value, ast.Constant) and st.value.value is True:
            for t in st.targets:
                if ast.unparse(t) == attr_path:
                    return True
    return False


def _parse_message_marks_failed(repo):
    fn = repo.func(H, "Parsent.parseMessage")
    bad = []
    tries = [n for n in ast.walk(fn) if isinstance(n, ast.Try)]
    if not tries:
        return False, "parseMessage has no try statement around the head / body parsers"
    for tr in tries:
        for h in tr.handlers:
            if not _assigns_true(h.body, "self.errored"):
                bad.append("handler at line %d does not set self.errored = True" % h.lineno)
            if not any(isinstance(st, ast.Assign) and any(ast.unparse(t) == "self.error" for t in st.targets) for st in h.body):
                bad.append("handler at line %d does not record self.error" % h.lineno)
            if any(isinstance(n, ast.Raise) for st in h.body for n in ast.walk(st)):
                bad.append("handler at line %d re-raises" % h.lineno)
    # after the try: self.ended = True on the fall-through path (top-level statements of the function body)
    idx = max(i for i, st in enumerate(fn.body) if isinstance(st, ast.Try))
    if not _assigns_true(fn.body[idx + 1:], "self.ended"):
        bad.append("self.ended = True does not follow the try statement")
    return (not bad), "; ".join(bad) or "every handler sets .errored / .error; .ended = True follows"


def _loop_of(fn):
    loops = [st for st in fn.body if isinstance(st, ast.For)]
    return loops[0] if len(loops) == 1 else None


def _leaves_loop(loop):
    """break / return statements that belong to this loop (not to a nested loop / function)"""
    out = []

    def walk(stmts, nested):
        for st in stmts:
            if isinstance(st, (ast.FunctionDef, ast.ClassDef)):
                continue
            if isinstance(st, ast.Return):
                out.append("return at line %d" % st.lineno)
            if isinstance(st, ast.Break) and not nested:
                out.append("break at line %d" % st.lineno)
            for fld in ("body", "orelse", "finalbody"):
                v = getattr(st, fld, None)
                if isinstance(v, list):
                    walk(v, nested or isinstance(st, (ast.For, ast.While)))
            for h in getattr(st, "handlers", []) or []:
                walk(h.body, nested)
    walk(loop.body, False)
    return out


def _valet_error_path(repo):
    fn = repo.func(S, "Valet.serviceReqs")
    loop = _loop_of(fn)
    if loop is None:
        return False, "serviceReqs is not a single loop over the connections"
    bad = list(_leaves_loop(loop))
    if ast.unparse(loop.iter) not in ("self.reqs.items()", "list(self.reqs.items())"):
        bad.append("loop does not range over self.reqs.items(): %s" % ast.unparse(loop.iter))
    tgt = ast.unparse(loop.target)
    m = tgt.replace("(", "").replace(")", "").split(",")
    ca, rq = (m[0].strip(), m[1].strip()) if len(m) == 2 else ("?", "?")
    # every `if <rq>.errored:` must close THIS connection and continue; and one must exist under `if <rq>.ended:`
    found = False
    for n in ast.walk(loop):
        if isinstance(n, ast.If) and ast.unparse(n.test) == "%s.errored" % rq:
            found = True
            calls = [ast.unparse(c) for st in n.body for c in ast.walk(st) if isinstance(c, ast.Call)]
            if "self.closeConnection(%s)" % ca not in calls:
                bad.append("error branch at line %d does not call self.closeConnection(%s)" % (n.lineno, ca))
            if not isinstance(n.body[-1], ast.Continue):
                bad.append("error branch at line %d does not go on with the next connection" % n.lineno)
    if not found:
        bad.append("no `if %s.errored:` branch" % rq)
    # the responder is created / reset only after the error branch: first statement under `if <rq>.ended:`
    for n in ast.walk(loop):
        if isinstance(n, ast.If) and ast.unparse(n.test) == "%s.ended" % rq:
            first = n.body[0]
            if not (isinstance(first, ast.If) and ast.unparse(first.test) == "%s.errored" % rq):
                bad.append("`if %s.ended:` does not test .errored first" % rq)
    # handlers inside the loop must not leave it either and must close this connection
    for n in ast.walk(loop):
        if isinstance(n, ast.ExceptHandler):
            calls = [ast.unparse(c) for st in n.body for c in ast.walk(st) if isinstance(c, ast.Call)]
            if "self.closeConnection(%s)" % ca not in calls:
                bad.append("handler at line %d does not close the connection" % n.lineno)
    return (not bad), "; ".join(bad) or "errored request: closeConnection(%s); continue - no break / return in the loop" % ca


def _porter_error_path(repo):
    fn = repo.func(S, "Porter.serviceStewards")
    loop = _loop_of(fn)
    if loop is None:
        return False, "serviceStewards is not a single loop over the connections"
    bad = list(_leaves_loop(loop))
    if ast.unparse(loop.iter) not in ("self.stewards.items()", "list(self.stewards.items())"):
        bad.append("loop does not range over self.stewards.items(): %s" % ast.unparse(loop.iter))
    m = ast.unparse(loop.target).replace("(", "").replace(")", "").split(",")
    ca, sw = (m[0].strip(), m[1].strip()) if len(m) == 2 else ("?", "?")
    ended = [n for n in ast.walk(loop) if isinstance(n, ast.If) and ast.unparse(n.test) == "%s.requestant.ended" % sw]
    if not ended:
        bad.append("no `if %s.requestant.ended:` branch" % sw)
    for n in ended[:1]:
        first = n.body[0]
        if not (isinstance(first, ast.If) and ast.unparse(first.test) == "%s.requestant.errored" % sw):
            bad.append("`if %s.requestant.ended:` does not test .errored before responding" % sw)
        else:
            calls = [ast.unparse(c) for st in first.body for c in ast.walk(st) if isinstance(c, ast.Call)]
            if "self.closeConnection(%s)" % ca not in calls:
                bad.append("error branch does not call self.closeConnection(%s)" % ca)
            if any(c.startswith("%s.respond(" % sw) for c in calls):
                bad.append("error branch responds to the failed request")
            if not isinstance(first.body[-1], ast.Continue):
                bad.append("error branch does not go on with the next connection")
    return (not bad), "; ".join(bad) or "errored request: closeConnection(%s); continue before any response - no break / return in the loop" % ca


def _porter_close_is_local(repo):
    fn = repo.func(S, "Porter.closeConnection")
    bad = []
    for n in ast.walk(fn):
        if isinstance(n, ast.Subscript) and ast.unparse(n.slice) != "ca":
            bad.append("subscript %s at line %d" % (ast.unparse(n), n.lineno))
        if isinstance(n, (ast.For, ast.While)):
            bad.append("loop at line %d" % n.lineno)
        if isinstance(n, ast.Call) and isinstance(n.func, ast.Attribute) and n.func.attr in ("clear", "closeAll"):
            bad.append("call %s at line %d" % (ast.unparse(n), n.lineno))
    calls = [ast.unparse(c) for c in ast.walk(fn) if isinstance(c, ast.Call)]
    if "self.servant.removeIx(ca)" not in calls:
        bad.append("does not call self.servant.removeIx(ca)")
    return (not bad), "; ".join(bad) or "only the steward keyed by ca is removed; servant.removeIx(ca)"


def _close_connection_is_local(repo):
    """Valet.closeConnection(ca) touches only the entries keyed by ca"""
    fn = repo.func(S, "Valet.closeConnection")
    bad = []
    for n in ast.walk(fn):
        if isinstance(n, ast.Subscript) and ast.unparse(n.slice) != "ca":
            bad.append("subscript %s at line %d" % (ast.unparse(n), n.lineno))
        if isinstance(n, ast.Call) and isinstance(n.func, ast.Attribute) and n.func.attr in ("clear", "closeAll", "close") \
                and ast.unparse(n.func.value) in ("self.reqs", "self.reps", "self.servant", "self.servant.ixes"):
            bad.append("call %s at line %d" % (ast.unparse(n), n.lineno))
        if isinstance(n, (ast.For, ast.While)):
            bad.append("loop at line %d" % n.lineno)
    calls = [ast.unparse(c) for c in ast.walk(fn) if isinstance(c, ast.Call)]
    if "self.servant.removeIx(ca)" not in calls:
        bad.append("does not call self.servant.removeIx(ca)")
    return (not bad), "; ".join(bad) or "only entries keyed by ca are closed and removed; servant.removeIx(ca)"


def _patron_records_error(repo):
    fn = repo.func(C, "Patron.serviceResponse")
    bad = []
    for n in ast.walk(fn):
        if isinstance(n, ast.ExceptHandler):
            if any(isinstance(x, ast.Raise) for st in n.body for x in ast.walk(st)):
                bad.append("handler at line %d re-raises" % n.lineno)
            if not _assigns_true(n.body, "self.respondent.errored"):
                bad.append("handler at line %d does not set respondent.errored" % n.lineno)
            if not _assigns_true(n.body, "self.respondent.ended"):
                bad.append("handler at line %d does not set respondent.ended" % n.lineno)
    return (not bad), "; ".join(bad) or "handlers record the error on the respondent"


def _definitely_assigns(stmts, target):
    """every fall-through path through `stmts` assigns `target` (a non-None constant-free value) or leaves by raise"""
    for st in stmts:
        if isinstance(st, ast.Assign) and any(ast.unparse(t) == target for t in st.targets):
            if not (isinstance(st.value, ast.Constant) and st.value.value is None):
                return True
        if isinstance(st, ast.If) and st.orelse:
            if all(_definitely_assigns(b, target) or (b and isinstance(b[-1], ast.Raise)) for b in (st.body, st.orelse)):
                return True
    return False


def _request_fields_set(repo):
    """what Valet.serviceReqs / buildEnviron read without a guard from a request that parsed without error"""
    fn = repo.func(S, "Requestant.parseHead")
    missing = [a for a in ("self.method", "self.version", "self.path", "self.query", "self.url")
               if not _definitely_assigns(fn.body, a)]
    return (not missing), ("not assigned on every path through Requestant.parseHead: %s" % missing) if missing else \
        "method, url, version, path, query are assigned on every path that completes the head"


REG.static_checks.append(("C32", "Requestant.parseHead: a head that parses without error has method, url, version, path and query set "
                                 "(buildEnviron formats them unguarded)", _request_fields_set))
REG.static_checks.append(("C32", "Parsent.parseMessage: every caught parse error marks the message failed (.errored, .error) and ended",
                          _parse_message_marks_failed))
REG.static_checks.append(("C32", "Valet.serviceReqs: an errored request closes its own connection and the loop goes on (no break / return)",
                          _valet_error_path))
REG.static_checks.append(("C32", "Valet.closeConnection(ca) closes and removes only what is keyed by ca", _close_connection_is_local))
REG.static_checks.append(("C32", "Porter.serviceStewards: an errored request closes its own connection before any response and the loop goes on",
                          _porter_error_path))
REG.static_checks.append(("C32", "Porter.closeConnection(ca) removes only what is keyed by ca", _porter_close_is_local))
REG.static_checks.append(("C32", "Patron.serviceResponse: a parse error is recorded on the respondent, never re-raised",
                          _patron_records_error))

REG.assume_note("C32 exception-escape analysis (pyvc/escape.py): library operations that raise on malformed text are "
                "taken from a fixed table (int/float/complex of text, tuple-unpack of split, decode of a non-latin "
                "codec, .index, json.loads, literal subscripts); every callee outside the analysed function set "
                "(listed under `unknown callees` in the static obligations' detail) is assumed not to raise; TypeError / "
                "AttributeError from ill-typed values, MemoryError, RecursionError, asynchronous exceptions are not "
                "modelled; Steward.respond / Steward.pour / WSGI application code run by the responders is outside "
                "(the statement is about request PARSING)")


def _unknown_callees(repo):
    e = _analysis(repo)
    return True, "unknown callees assumed not to raise: %s" % sorted(e.unknown_callees)


REG.static_checks.append(("C32", "inventory of callees assumed not to raise (always holds; the list is the assumption)", _unknown_callees))


# ---- native search on the real classes ------------------------------------------------------------------------
VALID_REQS = [
    b"GET /a?x=1 HTTP/1.1\r\nHost: h\r\nAccept: */*\r\n\r\n",
    b"POST /p HTTP/1.1\r\nHost: h\r\nContent-Length: 5\r\nContent-Type: text/plain\r\n\r\nhello",
    b"POST /c HTTP/1.1\r\nHost: h\r\nTransfer-Encoding: chunked\r\n\r\n3\r\nabc\r\n4;n=v\r\ndefg\r\n0\r\nT: v\r\n\r\n",
    b"PUT /j HTTP/1.0\r\nContent-Type: application/json\r\nContent-Length: 7\r\n\r\n{\"a\":1}",
]
VALID_RESPS = [
    b"HTTP/1.1 200 OK\r\nContent-Length: 5\r\nContent-Type: text/plain\r\n\r\nhello",
    b"HTTP/1.1 200 OK\r\nTransfer-Encoding: chunked\r\nContent-Type: application/json\r\n\r\n7\r\n{\"a\":1}\r\n0\r\n\r\n",
    b"HTTP/1.1 200 OK\r\nContent-Type: text/event-stream\r\nTransfer-Encoding: chunked\r\n\r\n"
    b"10\r\nretry: 5\ndata: a\n\n\r\n8\r\ndata: b\n\n\r\n0\r\n\r\n",
    b"HTTP/1.0 404 Not Found\r\nServer: x\r\n\r\nbody until close",
    b"HTTP/1.1 100 Continue\r\n\r\nHTTP/1.1 200 OK\r\nContent-Length: 2\r\n\r\nhi",
]
SPLICES = [b"\r\n", b"\n", b"\r", b":", b": ", b" ", b";", b"=", b"ZZ\r\n", b"-5", b"\xff", b"\x00", b"HTTP/9.9", b"HTTP/1.1",
           b"HTTP/1.2", b"HTTP/1.", b"HTTP/1.x", b"HTTP/0.9", b"HTTP/2", b"HTTP/", b"2", b"x", b"%", b"?", b"#", b"100", b"999", b"1000",
           b"Content-Length: -1\r\n", b"Content-Length: abc\r\n", b"Transfer-Encoding: chunked\r\n", b"0\r\n\r\n",
           b"ffffffffffffffffffff\r\n", b"nocolonheader\r\n", b"retry: x\n", b"data: \xff\xfe\n\n", b"\xef\xbb\xbf"]


def mutate(rng, raw):
    raw = bytearray(raw)
    for _ in range(rng.choice((1, 1, 1, 2, 3))):
        op = rng.randrange(6)
        pos = rng.randrange(len(raw) + 1) if raw else 0
        if op == 0 and raw:
            del raw[pos % len(raw)]
        elif op == 1:
            raw[pos:pos] = rng.choice(SPLICES)
        elif op == 2 and raw:
            raw[pos % len(raw)] = rng.randrange(256)
        elif op == 3 and raw:
            end = min(len(raw), pos + rng.randrange(1, 12))
            del raw[pos:end]
        elif op == 4:
            del raw[pos:]
        else:
            a = rng.randrange(len(raw) + 1)
            raw[pos:pos] = raw[a:a + rng.randrange(1, 20)]
    if rng.randrange(4) == 0:
        # replace one blank-separated word of the start line by another token (method, target, version, status)
        head, sep, rest = bytes(raw).partition(b"\r\n")
        words = head.split(b" ")
        if words:
            words[rng.randrange(len(words))] = rng.choice(SPLICES + [b"GET", b"BREW", b"/", b"*", b"http://h/x", b"200", b"OK"])
            raw = bytearray(b" ".join(words) + sep + rest)
    if rng.randrange(12) == 0:
        raw = bytearray(rng.randrange(256) for _ in range(rng.randrange(0, 60)))
    return bytes(raw)


def _splits(rng, raw):
    cuts = sorted(set(rng.randrange(len(raw) + 1) for _ in range(rng.choice((0, 1, 2, 5))))) if raw else []
    out, last = [], 0
    for c in cuts + [len(raw)]:
        out.append(raw[last:c])
        last = c
    return out


class _Ix:
    def __init__(self, ca):
        self.ca, self.cutoff, self.timeout, self.rxbs, self.txes = ca, False, 0.0, bytearray(), []

    def tx(self, data):
        self.txes.append(bytes(data))

    def serviceTxes(self):
        pass


def odict_():
    from ioflo.aid.odicting import odict
    return odict()


def _mk_valet(serving, n):
    from ioflo.aid.odicting import odict
    Ix = _Ix

    class Servant:
        name, eha = "double", ("127.0.0.1", 8080)

        def __init__(self):
            self.ixes, self.removed = odict(), []

        def removeIx(self, ca):
            self.removed.append(ca)
            self.ixes.pop(ca, None)

    v = object.__new__(serving.Valet)
    v.servant = Servant()
    v.reqs, v.reps = odict(), odict()
    v.scheme, v.app, v.secured = "http", (lambda environ, start: [b""]), False
    for i in range(n):
        ca = ("10.0.0.%d" % i, 1000 + i)
        ix = Ix(ca)
        v.servant.ixes[ca] = ix
        v.reqs[ca] = serving.Requestant(msg=ix.rxbs, incomer=ix)
    return v


def _req_view(rq):
    return (rq.ended, rq.errored, rq.method, rq.path, tuple(rq.version) if rq.version else rq.version,
            sorted(rq.headers.items()) if rq.headers else None, bytes(rq.body))


def native_search(root, rng, n):
    """drive a real Valet with three connections; connection 1 receives a mutated request, 0 and 2 valid ones"""
    import io
    import sys
    from ioflo.aio.http import serving, clienting
    from ioflo.aid.consoling import getConsole
    fails, ev = [], 0
    saved = sys.stderr
    sys.stderr = io.StringIO()
    con = getConsole()
    verbosity = con._verbosity
    con.reinit(verbosity=con.Wordage.mute)
    try:
        for i in range(n):
            ev += 1
            bad = mutate(rng, rng.choice(VALID_REQS))
            good0, good2 = rng.choice(VALID_REQS), rng.choice(VALID_REQS)
            feeds = {0: _splits(rng, good0), 1: _splits(rng, bad), 2: _splits(rng, good2)}
            v = _mk_valet(serving, 3)
            cas = list(v.servant.ixes.keys())
            ixes = dict(v.servant.ixes.items())
            reqs = dict(v.reqs.items())
            # reference: the two good requests served alone
            ref = {}
            info = {"inputs": {"mutated request on connection 1": repr(bad), "splits": [len(x) for x in feeds[1]]}}
            try:
                for j, g in ((0, good0), (2, good2)):
                    r = serving.Requestant(msg=bytearray(g), incomer=ixes[cas[j]])
                    for _ in range(6):
                        if r.parser:
                            r.parse()
                    ref[j] = _req_view(r)
            except Exception as ex:
                info = {"inputs": {"well-formed request": repr(g)}, "outcome": "raise", "exception": repr(ex),
                        "failed_clauses": ["no exception escapes Requestant.parse"]}
                fails.append(info)
                continue
            try:
                seen_done = {}
                for rnd in range(8):
                    for j in (0, 1, 2):
                        if feeds[j]:
                            ixes[cas[j]].rxbs.extend(feeds[j].pop(0))
                    v.serviceReqs()
                    for j in (0, 2):
                        if reqs[cas[j]].ended and j not in seen_done:
                            seen_done[j] = _req_view(reqs[cas[j]])
            except Exception as ex:
                info.update(outcome="raise", exception=repr(ex), failed_clauses=["no exception escapes Valet.serviceReqs"])
                fails.append(info)
                continue
            msgs = []
            for j in (0, 2):
                if cas[j] in v.servant.removed:
                    msgs.append("connection %d (valid request) was closed" % j)
                elif seen_done.get(j) != ref[j]:
                    msgs.append("connection %d (valid request) parsed differently next to the malformed one: %r vs alone %r"
                                % (j, seen_done.get(j), ref[j]))
            rq = reqs[cas[1]]
            if rq.ended and rq.errored and cas[1] not in v.servant.removed:
                msgs.append("connection 1: request failed but its connection was not closed")
            if msgs:
                info.update(outcome="return", failed_clauses=["a malformed request only affects its own connection"], messages=msgs)
                fails.append(info)
        # the Porter server: three stewards, connection 1 receives the mutated request
        for i in range(n // 2):
            ev += 1
            bad = mutate(rng, rng.choice(VALID_REQS))
            info = {"inputs": {"mutated request on connection 1 of a Porter": repr(bad)}}
            p = object.__new__(serving.Porter)
            p.servant, p.stewards, p.dictable = _mk_valet(serving, 0).servant, odict_(), False
            feeds = {0: _splits(rng, rng.choice(VALID_REQS)), 1: _splits(rng, bad), 2: _splits(rng, rng.choice(VALID_REQS))}
            ixs = []
            for j in range(3):
                ca = ("10.0.1.%d" % j, 2000 + j)
                ix = _Ix(ca)
                ixs.append(ix)
                p.servant.ixes[ca] = ix
                p.stewards[ca] = serving.Steward(incomer=ix)
            try:
                for rnd in range(8):
                    for j in (0, 1, 2):
                        if feeds[j]:
                            ixs[j].rxbs.extend(feeds[j].pop(0))
                    p.serviceStewards()
            except Exception as ex:
                info.update(outcome="raise", exception=repr(ex), failed_clauses=["no exception escapes Porter.serviceStewards"])
                fails.append(info)
                continue
            msgs = []
            for j in (0, 2):
                if not ixs[j].txes:
                    msgs.append("connection %d (valid request) got no response next to the malformed one" % j)
            if msgs:
                info.update(outcome="return", failed_clauses=["a malformed request only affects its own connection"], messages=msgs)
                fails.append(info)
        # client side: a Respondent fed a mutated response records the error instead of raising
        for i in range(n):
            ev += 1
            bad = mutate(rng, rng.choice(VALID_RESPS))
            buf = bytearray()
            rp = clienting.Respondent(msg=buf, method="GET")
            info = {"inputs": {"mutated response": repr(bad)}}
            try:
                for piece in _splits(rng, bad) + [b""]:
                    buf.extend(piece)
                    if rp.parser:
                        rp.parse()
                rp.close()
                for _ in range(3):
                    if rp.parser:
                        rp.parse()
                if rp.ended:
                    rp.dictify()
            except Exception as ex:
                info.update(outcome="raise", exception=repr(ex), failed_clauses=["no exception escapes Respondent.parse"])
                fails.append(info)
        # the client proper: a real Patron (socket replaced by no-ops, bytes put into connector.rxbs) receives a mutated
        # response; responses that carry a Location header are left out (following a redirect opens connections: C34)
        for i in range(n // 3):
            bad = mutate(rng, rng.choice(VALID_RESPS + [b"HTTP/1.1 302 Found\r\nContent-Length: 0\r\n\r\n",
                                                       b"HTTP/1.1 301 Moved\r\nServer: x\r\nContent-Length: 2\r\n\r\nhi"]))
            if b"ocation" in bad.lower():
                continue
            ev += 1
            info = {"inputs": {"mutated response to a Patron": repr(bad)}}
            try:
                patron = clienting.Patron(hostname="127.0.0.1", port=8080, path="/demo")
                patron.connector.serviceReceives = lambda: None
                patron.connector.serviceTxes = lambda: None
                patron.request(method="GET", path="/demo")
                patron.serviceRequests()
            except Exception as ex:
                info.update(outcome="raise", exception=repr(ex), failed_clauses=["native harness: a Patron can be set up"])
                fails.append(info)
                break
            try:
                for piece in _splits(rng, bad):
                    patron.connector.rxbs.extend(piece)
                    patron.serviceResponse()
                patron.serviceResponse()
            except Exception as ex:
                info.update(outcome="raise", exception=repr(ex), failed_clauses=["no exception escapes Patron.serviceResponse"])
                fails.append(info)
    finally:
        sys.stderr = saved
        con.reinit(verbosity=verbosity)
    return ev, fails


REG.static_functions["C32"] = ["%s:%s" % v for v in FUNCS.values()]
REG.native_searches.append(("C32", "mutated requests to a Valet and to a Porter with three connections; mutated responses to a Respondent and to a Patron",
                            native_search))
