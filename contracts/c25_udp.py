"""C25 for the UDP socket wrapper (ioflo/aio/udp/udping.py SocketUdpNb.receive / send): a would-block result never
changes state and returns "nothing" (b'', None); every other error propagates with nothing logged; a datagram that was
received / sent is logged to the wire log exactly as received / as far as sent.  The classification of TRANSIENT
destination errors as retryable is the stack's job (GramStack, contracts/c35_gramstack.py); this layer must not
swallow them (otherwise the stack could not requeue the packet)."""
from pyvc.api import *
from contracts.transport_decl import *
from contracts.transport_decl import _raise_sockerr
from contracts import c24_streams as S
import errno as _errno
import z3

F = "ioflo/aio/udp/udping.py"
HA = Opaque("ha")
classdecl("UdpSock", fields=dict(sent=BYTES, got=BYTES))
classdecl("UdpWLog", fields=dict(txcat=BYTES, rxcat=BYTES))
for _m, _f in (("writeTx", "txcat"), ("writeRx", "rxcat")):
    REG.classes["UdpWLog"].hooks[("getattr", _m)] = REG.classes["WLog"].hooks[("getattr", _m)]
classdecl("SocketUdpNb", file=F, fields=dict(ss=Ref("UdpSock"), bs=INT, wlog=Opt(Ref("UdpWLog")), ha=HA))


@hook("UdpSock", "getattr", "recvfrom")
def _recvfrom(E, sock):
    def m(E2, bufsize):
        if E2.choose(2) == 1:
            _raise_sockerr(E2, [OSError])
        d = E2.fresh("dgram", SeqInt)
        E2.assume(z3.Length(d) <= zint(bufsize))
        sa = E2.fresh_val("src", HA)
        E2.wr_field(sock, "got", Sym(z3.Concat(zbytes(E2.rd_field(sock, "got")), d), "bytes"))
        return (Sym(d, "bytes"), sa)
    m._specfunc = True
    return m


@hook("UdpSock", "getattr", "sendto")
def _sendto(E, sock):
    def m(E2, data, da):
        if E2.choose(2) == 1:
            _raise_sockerr(E2, [OSError])
        zb = zbytes(data)
        n = E2.fresh("sentn", z3.IntSort())
        E2.assume(z3.And(n >= 0, n <= z3.Length(zb)))
        E2.wr_field(sock, "sent", Sym(z3.Concat(zbytes(E2.rd_field(sock, "sent")), z3.Extract(zb, 0, n)), "bytes"))
        return Sym(n, "int")
    m._specfunc = True
    return m


REG.assume_note("UDP socket (assumed external contract): recvfrom(n) returns (datagram of length <= n, source address) or "
                "raises socket.error with any errno; sendto(data, da) returns 0 <= n <= len(data) or raises likewise")
WB = (_errno.EAGAIN, _errno.EWOULDBLOCK)
P = dict(self=Ref("SocketUdpNb"))
contract(F, "SocketUdpNb.receive", "C25", params=P, setup=S.sock_setup, requires=["self.bs >= 0"],
         modifies=["self.ss.got", "self.wlog.rxcat"],
         ensures=["implies(sock_raised, errno in %r and len(result[0]) == 0 and result[1] is None and "
                  "self.ss.got == old(self.ss.got))" % (WB,),
                  "implies(sock_raised and self.wlog is not None, self.wlog.rxcat == old(self.wlog.rxcat))",
                  "implies(not sock_raised, self.ss.got == old(self.ss.got) + result[0] and result[1] is not None)",
                  "implies(not sock_raised and self.wlog is not None, self.wlog.rxcat == old(self.wlog.rxcat) + result[0])"],
         raises={"OSError": ["errno not in %r" % (WB,), "self.ss.got == old(self.ss.got)"]},
         returns=Tup(BYTES, Opt(HA)))
contract(F, "SocketUdpNb.send", "C25", params=dict(P, data=BYTES, da=HA), setup=S.sock_setup,
         modifies=["self.ss.sent", "self.wlog.txcat"],
         ensures=["not sock_raised", "0 <= result and result <= len(data)",
                  "self.ss.sent == old(self.ss.sent) + data[:result]",
                  "implies(self.wlog is not None, self.wlog.txcat == old(self.wlog.txcat) + data[:result])"],
         raises={"OSError": ["self.ss.sent == old(self.ss.sent)",
                             "implies(self.wlog is not None, self.wlog.txcat == old(self.wlog.txcat))"]},
         returns=INT, note="every send error propagates (the datagram stack above classifies transient ones)")
