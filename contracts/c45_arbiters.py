"""C45 arbiters: Arbiter.FixTruth / GoodTruth, ArbiterSwitch / Priority / Trusted / Weighted .update
(ioflo/base/arbiting.py).

Model (shapes from the code, post-conditions from the statement):
* `self.inputs.items()` is iteration over an abstract sequence of symbolic length N >= 0; element k is
  (tag_k, input_k).  `self.insels.fetch(tag)` / `self.inimps.fetch(tag)` are pure lookups: the truthiness of the
  selection is a bool-valued function of the tag, the importance a real-valued function of the tag (NOT assumed
  non-negative).
* a share's `.truth` is a tagged union kept in two fields: tkind 0 = None, 1 = True, 2 = False, anything else =
  the number tnum.  FixTruth is verified on the four Python types and used modularly at its call sites.
* `bool(share)` is `len(share) > 0` (storing.Share.__len__ = number of data fields): field `nflds`.
* the share classes are declared WITHOUT file: `share.value = x` is a plain field store; the stamping side effect
  of the real value setter (storing.Share.value) is outside this contract (C19's subject).
* the contract follows the STATEMENT; the code's `impmax = 0.0` start and `if inputmax:` share-truthiness test
  disagree with it on delimited regions (findings=...), and ArbiterTrusted reads the unbound name `imputmax`.
"""
from pyvc.api import *
import z3

F = "ioflo/base/arbiting.py"
TAG = Opaque("tag")
AVAL = Opaque("aval")

# ---------------------------------------------------------------- classes
classdecl("ArbInputs", fields={})
classdecl("ArbInputsW", fields={})
classdecl("ArbSels", fields={})
classdecl("ArbImps", fields={})
classdecl("ArbIn", fields=dict(value=AVAL, tkind=INT, tnum=REAL, nflds=INT),
          truthy=lambda E, v: E.rd_field(v, "nflds").t > 0)
classdecl("ArbInW", fields=dict(value=Opt(REAL), tkind=INT, tnum=REAL, nflds=INT),
          truthy=lambda E, v: E.rd_field(v, "nflds").t > 0)
classdecl("ArbOut", fields=dict(value=AVAL, tkind=INT, tnum=REAL, stamp=Opt(REAL)))
classdecl("ArbOutW", fields=dict(value=REAL, tkind=INT, tnum=REAL, stamp=Opt(REAL)))
classdecl("ArbDef", fields=dict(value=AVAL, truth=REAL))
classdecl("ArbDefW", fields=dict(value=REAL, truth=REAL))
classdecl("Arbiter", file=F, fields=dict(inputs=Ref("ArbInputs"), insels=Ref("ArbSels"), inimps=Ref("ArbImps"),
                                         output=Ref("ArbOut"), default=Ref("ArbDef"), name=STR))
classdecl("ArbiterSwitch", file=F, bases=("Arbiter",))
classdecl("ArbiterPriority", file=F, bases=("Arbiter",))
classdecl("ArbiterTrusted", file=F, bases=("Arbiter",))
classdecl("ArbiterWeighted", file=F, bases=("Arbiter",),
          fields=dict(inputs=Ref("ArbInputsW"), output=Ref("ArbOutW"), default=Ref("ArbDefW")))

_I, _R, _B = z3.IntSort(), z3.RealSort(), z3.BoolSort()
_N = z3.Function("arb_n", _I, _I)                          # inputs object -> number of entries
_TAG = z3.Function("arb_tag", _I, _I, opaque_sort("tag"))  # inputs object, position -> tag
_INP = z3.Function("arb_inp", _I, _I, _I)                  # inputs object, position -> input share
_SEL = z3.Function("arb_sel", _I, opaque_sort("tag"), _B)  # insels share, tag -> truthiness of the selection
_IMP = z3.Function("arb_imp", _I, opaque_sort("tag"), _R)  # inimps share, tag -> importance


def _items_hook(incls):
    def attr(E, obj):
        def items(E2, *a, **k):
            from pyvc.builtins_ import AbstractIter
            return AbstractIter(_N(obj.t), lambda E3, i: (Sym(_TAG(obj.t, i), ("opaque", "tag")),
                                                          RefV(_INP(obj.t, i), incls, nn=True)))
        items._specfunc = True
        return items
    return attr


REG.classes["ArbInputs"].hooks[("getattr", "items")] = _items_hook("ArbIn")
REG.classes["ArbInputsW"].hooks[("getattr", "items")] = _items_hook("ArbInW")


@hook("ArbSels", "getattr", "fetch")
def _sels_fetch(E, obj):
    def fetch(E2, tag, *a, **k):
        return Sym(_SEL(obj.t, tag.t), "bool")
    fetch._specfunc = True
    return fetch


@hook("ArbImps", "getattr", "fetch")
def _imps_fetch(E, obj):
    def fetch(E2, tag, *a, **k):
        return Sym(_IMP(obj.t, tag.t), "real")
    fetch._specfunc = True
    return fetch


def _truth_get(E, obj):
    return (E.rd_field(obj, "tkind"), E.rd_field(obj, "tnum"))


def _truth_set(E, obj, val):
    if isinstance(val, tuple) and len(val) == 2:
        E.wr_field(obj, "tkind", val[0])
        E.wr_field(obj, "tnum", val[1])
    elif is_num(val) and kind_of(val) != "bool":
        E.wr_field(obj, "tkind", 3)
        E.wr_field(obj, "tnum", val)
    else:
        raise Unsupported("C45 model: truth value %r stored into a share" % (val,))


for _c in ("ArbIn", "ArbInW", "ArbOut", "ArbOutW"):
    REG.classes[_c].hooks[("getattr", "truth")] = _truth_get
    REG.classes[_c].hooks[("setattr", "truth")] = _truth_set

REG.assume_note("C45 model: self.inputs.items() is an abstract sequence of N >= 0 (tag, input share) pairs that the "
                "update methods do not change; insels.fetch(tag) / inimps.fetch(tag) are pure functions of the tag "
                "(selection seen through its truthiness, importance a real of ANY sign); a share's truth is None / True "
                "/ False / a real number (tagged encoding tkind/tnum); the output share is an object distinct from the "
                "input shares and the default share (separate declared classes); share.value / .truth / .stamp are plain "
                "fields: the stamping side effect of storing.Share's value setter is outside this contract")
REG.assume_note("C45: Weighted input values are real numbers or None (None = non-numeric: TypeError path); the default "
                "truth is a real number; non-finite floats are outside the real-number encoding")


# ---------------------------------------------------------------- specification vocabulary (z3 side)
def _fix(tk, tn):
    """FixTruth on the tagged encoding: None / True -> 1, False -> 0, number -> clamped to [0, 1]"""
    return z3.If(z3.Or(tk == 0, tk == 1), z3.RealVal(1),
                 z3.If(tk == 2, z3.RealVal(0), z3.If(tn < 0, z3.RealVal(0), z3.If(tn > 1, z3.RealVal(1), tn))))


class _M:
    """pre-state view of one arbiter: the input sequence, selections, importances, fixed truths"""

    def __init__(self, E, self_):
        self.E = E
        self.me = self_
        self.incls = "ArbInW" if E.reg.field_type(self_.cls, "inputs").name == "ArbInputsW" else "ArbIn"
        self.inputs = self.pre(self_, "inputs").t
        self.insels = self.pre(self_, "insels").t
        self.inimps = self.pre(self_, "inimps").t
        self.default = self.pre(self_, "default")
        self.n = _N(self.inputs)
        self.dt = self.pre(self.default, "truth").t

    def pre(self, ref, attr):
        E = self.E
        heap = E.heap
        if E.heap_old is not None:
            E.heap = dict(E.heap_old)
        try:
            return E.rd_field(ref, attr)
        finally:
            E.heap = heap

    def rng(self, k):
        return z3.And(k >= 0, k < self.n)

    def inp(self, k):
        return RefV(_INP(self.inputs, k), self.incls, nn=True)

    def sel(self, k):
        return _SEL(self.insels, _TAG(self.inputs, k))

    def imp(self, k):
        return _IMP(self.inimps, _TAG(self.inputs, k))

    def ft(self, k):
        r = self.inp(k)
        return _fix(self.pre(r, "tkind").t, self.pre(r, "tnum").t)

    def truthy(self, k):
        return self.pre(self.inp(k), "nflds").t > 0

    def qual(self, k):
        """selected and fixed truth exceeds the default truth"""
        return z3.And(self.sel(k), self.ft(k) > self.dt)

    def out_is(self, k):
        """current output share carries input k's value and fixed truth"""
        E = self.E
        out = E.rd_field(self.me, "output")
        v = self.pre(self.inp(k), "value")
        return z3.And(E.tobool(E.equal(E.rd_field(out, "value"), v)), E.rd_field(out, "tkind").t == 3,
                      E.rd_field(out, "tnum").t == self.ft(k))

    def prio_win(self, j):
        """j is THE first most important qualifying input"""
        k = z3.Int("k!pw")
        return z3.And(self.rng(j), self.qual(j),
                      z3.ForAll([k], z3.Implies(z3.And(self.rng(k), self.qual(k)),
                                                z3.And(self.imp(k) <= self.imp(j),
                                                       z3.Implies(k < j, self.imp(k) < self.imp(j))))))

    def lex_le(self, k, j):
        return z3.Or(self.ft(k) < self.ft(j), z3.And(self.ft(k) == self.ft(j), self.imp(k) <= self.imp(j)))

    def lex_lt(self, k, j):
        return z3.Or(self.ft(k) < self.ft(j), z3.And(self.ft(k) == self.ft(j), self.imp(k) < self.imp(j)))

    def trust_win(self, j):
        """j is THE first qualifying input of highest truth, ties broken by importance"""
        k = z3.Int("k!tw")
        return z3.And(self.rng(j), self.qual(j),
                      z3.ForAll([k], z3.Implies(z3.And(self.rng(k), self.qual(k)),
                                                z3.And(self.lex_le(k, j), z3.Implies(k < j, self.lex_lt(k, j))))))


def _b(t):
    return Sym(t, "bool")


def arb_setup(E):
    """well-formedness of the abstract input sequence (facts about the modelling functions, not about the code)"""
    me = E.frame.env["self"]
    m = _M(E, me)
    i = z3.Int("i!wf")
    E.assume(m.n >= 0)
    E.assume(z3.ForAll([i], _INP(m.inputs, i) > 0))
    E.ghost["jmax"] = -1


# ---------------------------------------------------------------- FixTruth / GoodTruth
@specfunc
def fix_truth(E, truth):
    """documented conversion: None / True -> 1.0, False -> 0.0, a number -> hard limited to [0.0, 1.0]"""
    if truth is None:
        return Fraction(1)
    if isinstance(truth, bool):
        return Fraction(1 if truth else 0)
    if isinstance(truth, tuple):                       # tagged share truth (tkind, tnum)
        return Sym(_fix(zint(truth[0]), zreal(truth[1])), "real")
    if isinstance(truth, Sym) and truth.k == "bool":
        return Sym(z3.If(truth.t, z3.RealVal(1), z3.RealVal(0)), "real")
    t = zreal(truth)
    return Sym(z3.If(t < 0, z3.RealVal(0), z3.If(t > 1, z3.RealVal(1), t)), "real")


def _fix_native(truth):
    if truth is None or truth is True:
        return 1.0
    if truth is False:
        return 0.0
    return 0.0 if truth < 0 else (1.0 if truth > 1 else float(truth))


fix_truth.native = _fix_native


@specfunc
def good_truth(E, truth):
    """a float in [0.0, 1.0] (ints, bools and None are not)"""
    if isinstance(truth, Sym) and truth.k == "real":
        return _b(z3.And(truth.t >= 0, truth.t <= 1))
    if isinstance(truth, (float, Fraction)):
        return 0 <= truth <= 1
    return False


good_truth.native = lambda truth: isinstance(truth, float) and 0.0 <= truth <= 1.0

_TCASES = [dict(truth=NONE), dict(truth=BOOL), dict(truth=REAL), dict(truth=INT)]
contract(F, "Arbiter.FixTruth", "C45", params=dict(truth=REAL), cases=_TCASES,
         ensures=["result == fix_truth(truth)", "0 <= result and result <= 1"], returns=REAL, replay="pure",
         note="cases: truth None / bool / float / int; at the call sites in update() the argument is a share's tagged truth")
contract(F, "Arbiter.GoodTruth", "C45", params=dict(truth=REAL), cases=_TCASES,
         ensures=["result == good_truth(truth)"], returns=BOOL, replay="pure")


# ---------------------------------------------------------------- native doubles and reference computations
class _Sh:
    """share double: value / truth / stamp attributes, len() = number of data fields; tkind/tnum = tagged truth view"""

    def __init__(self, value=None, truth=None, nflds=1):
        self.value, self.truth, self.stamp, self.nflds = value, truth, None, nflds

    def __len__(self):
        return self.nflds

    def __repr__(self):
        return "Sh(value=%r, truth=%r, len=%d)" % (self.value, self.truth, self.nflds)

    @property
    def tkind(self):
        t = self.truth
        return 0 if t is None else (1 if t is True else (2 if t is False else 3))

    @property
    def tnum(self):
        t = self.truth
        return t if self.tkind == 3 else 0.0


class _Tab:
    """insels / inimps double: fetch(tag) is a pure lookup"""

    def __init__(self, d):
        self.d = dict(d)

    def fetch(self, tag, default=None):
        return self.d.get(tag, default)

    def __repr__(self):
        return "Tab(%r)" % (self.d,)


def _rows(self):
    """[(selected, importance, fixed truth, share)] in input order"""
    return [(bool(self.insels.fetch(t)), self.inimps.fetch(t), _fix_native(s.truth), s) for t, s in self.inputs.items()]


def _qual_rows(self):
    return [(j, r) for j, r in enumerate(_rows(self)) if r[0] and r[2] > self.default.truth]


def _out_is(self, share, truth):
    return self.output.value is share.value and self.output.truth == truth and self.output.truth is not True \
        and self.output.truth is not False


def _mk_arb(clsname, weighted=False):
    def make(rng, i, cex, nr):
        arb = object.__new__(getattr(nr.mod, clsname))
        arb.name = "arb"
        n = rng.choice([0, 1, 1, 2, 2, 3, 4])
        imps = [0.0, 0.25, 0.5, 0.5, 1.0, 1.0, -0.5, 2.0]
        truths = [None, True, False, 0.5, 0.75, 0.75, 1.5, -0.25, 0.125, 1.0, 0.0]
        arb.inputs, sels, ips = {}, {}, {}
        for k in range(n):
            tag = "t%d" % k
            if weighted:
                val = rng.choice([None, "x"]) if rng.random() < 0.08 else rng.randint(-80, 80) / 8.0
            else:
                val = rng.choice([object(), "v%d" % k, float(k), None])
            arb.inputs[tag] = _Sh(val, rng.choice(truths), 0 if rng.random() < 0.15 else rng.choice([1, 2]))
            sels[tag] = rng.choice([True, True, False, 1, 0, "on", ""])
            ips[tag] = rng.choice(imps)
        arb.insels, arb.inimps = _Tab(sels), _Tab(ips)
        arb.default = _Sh(rng.randint(-8, 8) / 8.0 if weighted else "dflt", rng.choice([0.0, 0.125, 0.5, 0.75, 1.0]))
        arb.output = _Sh(0.0, 0.0)
        return {"self": arb, "stamp": rng.choice([None, 1.0, 2.5])}
    return make


OUT_DEFAULT = "self.output.value == self.default.value and self.output.tkind == 3 and self.output.tnum == self.default.truth"
OUT_MOD = ["self.output.value", "self.output.tkind", "self.output.tnum", "self.output.stamp"]
STAMPED = "self.output.stamp == stamp"


# ---------------------------------------------------------------- Switch
@specfunc
def unselected_before(E, self_, i):
    m = _M(E, self_)
    k = z3.Int("k!ub")
    return _b(z3.ForAll([k], z3.Implies(z3.And(k >= 0, k < zint(i)), z3.Not(m.sel(k)))))


@specfunc
def none_selected(E, self_):
    m = _M(E, self_)
    k = z3.Int("k!ns")
    return _b(z3.ForAll([k], z3.Implies(m.rng(k), z3.Not(m.sel(k)))))


@specfunc
def first_selected_passes(E, self_):
    """whichever input is the first selected one: the output carries its value and its (unconverted) truth"""
    m = _M(E, self_)
    j, k = z3.Int("j!fs"), z3.Int("k!fs")
    out = E.rd_field(self_, "output")
    r = m.inp(j)
    same = z3.And(E.tobool(E.equal(E.rd_field(out, "value"), m.pre(r, "value"))),
                  E.rd_field(out, "tkind").t == m.pre(r, "tkind").t, E.rd_field(out, "tnum").t == m.pre(r, "tnum").t)
    first = z3.And(m.rng(j), m.sel(j), z3.ForAll([k], z3.Implies(z3.And(k >= 0, k < j), z3.Not(m.sel(k)))))
    return _b(z3.ForAll([j], z3.Implies(first, same)))


none_selected.native = lambda self: not any(r[0] for r in _rows(self))


def _first_selected_native(self):
    for sel, imp, ft, s in _rows(self):
        if sel:
            return self.output.value is s.value and self.output.truth is s.truth
    return True


first_selected_passes.native = _first_selected_native

contract(F, "ArbiterSwitch.update", "C45", params=dict(self=Ref("ArbiterSwitch"), stamp=Opt(REAL)), setup=arb_setup,
         loops={0: dict(inv=["unselected_before(self, _i)"])},
         modifies=OUT_MOD,
         ensures=["implies(none_selected(self), %s)" % OUT_DEFAULT, "first_selected_passes(self)", STAMPED],
         raises={}, replay=dict(make=_mk_arb("ArbiterSwitch")))


# ---------------------------------------------------------------- Priority
def _track_jmax(E):
    """ghost: position of the input most recently taken as the running maximum"""
    E.frame.env["jmax"] = E.frame.env["_i"]


def _opt_ref_t(v):
    return z3.IntVal(0) if v is None else v.t


@specfunc
def none_qualifies(E, self_):
    m = _M(E, self_)
    k = z3.Int("k!nq")
    return _b(z3.ForAll([k], z3.Implies(m.rng(k), z3.Not(m.qual(k)))))


@specfunc
def prio_inv(E, self_, i, jmax, inputmax, impmax, truthmax):
    """(inputmax, impmax, truthmax) = the first qualifying input of maximal POSITIVE importance among positions < i
    (this is what the code tracks), or none so far"""
    m = _M(E, self_)
    i, jm, im, tm, ref = zint(i), zint(jmax), zreal(impmax), zreal(truthmax), _opt_ref_t(inputmax)
    k = z3.Int("k!pi")
    before = z3.And(k >= 0, k < i, m.qual(k))
    none = z3.And(ref == 0, jm == -1, im == 0,
                  z3.ForAll([k], z3.Implies(before, m.imp(k) <= 0)))
    some = z3.And(jm >= 0, jm < i, ref == _INP(m.inputs, jm), m.qual(jm), im == m.imp(jm), im > 0, tm == m.ft(jm),
                  z3.ForAll([k], z3.Implies(before, z3.And(m.imp(k) <= im, z3.Implies(k < jm, m.imp(k) < im)))))
    return _b(z3.Or(none, some))


def _prio_rule(E, self_, guard):
    m = _M(E, self_)
    j = z3.Int("j!pr")
    return _b(z3.ForAll([j], z3.Implies(z3.And(m.prio_win(j), guard(m, j)), m.out_is(j))))


@specfunc
def prio_rule_if_share_truthy(E, self_):
    return _prio_rule(E, self_, lambda m, j: m.truthy(j))


@specfunc
def prio_rule_if_importance_positive(E, self_):
    return _prio_rule(E, self_, lambda m, j: m.imp(j) > 0)


@specfunc
def prio_rule_otherwise(E, self_):
    return _prio_rule(E, self_, lambda m, j: z3.And(z3.Not(m.truthy(j)), m.imp(j) <= 0))


@specfunc
def prio_winner_imp_nonpositive(E, self_):
    m = _M(E, self_)
    j = z3.Int("j!pn")
    return _b(z3.Exists([j], z3.And(m.prio_win(j), m.imp(j) <= 0)))


@specfunc
def prio_winner_falsy(E, self_):
    m = _M(E, self_)
    j = z3.Int("j!pf")
    return _b(z3.Exists([j], z3.And(m.prio_win(j), z3.Not(m.truthy(j)))))


def _prio_winner(self):
    q = _qual_rows(self)
    if not q:
        return None
    best = max(r[1] for _j, r in q)
    return [r for _j, r in q if r[1] == best][0]


def _prio_native(guard):
    def f(self):
        w = _prio_winner(self)
        if w is None or not guard(w):
            return True
        return _out_is(self, w[3], w[2])
    return f


none_qualifies.native = lambda self: not _qual_rows(self)
prio_rule_if_share_truthy.native = _prio_native(lambda w: len(w[3]) > 0)
prio_rule_if_importance_positive.native = _prio_native(lambda w: w[1] > 0)
prio_rule_otherwise.native = _prio_native(lambda w: not (len(w[3]) > 0) and w[1] <= 0)
prio_winner_imp_nonpositive.native = lambda self: _prio_winner(self) is not None and _prio_winner(self)[1] <= 0
prio_winner_falsy.native = lambda self: _prio_winner(self) is not None and len(_prio_winner(self)[3]) == 0

MAX_LOCALS = dict(jmax=INT, inputmax=Opt(Ref("ArbIn")), impmax=REAL, truthmax=REAL)
contract(F, "ArbiterPriority.update", "C45", params=dict(self=Ref("ArbiterPriority"), stamp=Opt(REAL)),
         setup=arb_setup, ghost={"after": {"inputmax = input": _track_jmax}},
         loops={0: dict(inv=["prio_inv(self, _i, jmax, inputmax, impmax, truthmax)"], locals=MAX_LOCALS)},
         modifies=OUT_MOD,
         ensures=["implies(none_qualifies(self), %s)" % OUT_DEFAULT,
                  "prio_rule_if_share_truthy(self)", "prio_rule_if_importance_positive(self)",
                  "prio_rule_otherwise(self)", STAMPED],
         findings={"winner-importance-not-positive": "prio_winner_imp_nonpositive(self)",
                   "winner-share-falsy": "prio_winner_falsy(self)"},
         raises={}, replay=dict(make=_mk_arb("ArbiterPriority")),
         note="statement: the FIRST MOST IMPORTANT selected input whose fixed truth exceeds the default truth wins; "
              "the code starts impmax at 0.0 and tests `if inputmax:` (share truthiness)")


# ---------------------------------------------------------------- Trusted
@specfunc
def trust_inv(E, self_, i, jmax, inputmax, impmax, truthmax):
    """(inputmax, impmax, truthmax) = the first lexicographic maximum (fixed truth, then importance) among the
    qualifying inputs at positions < i, or none so far"""
    m = _M(E, self_)
    i, jm, im, tm, ref = zint(i), zint(jmax), zreal(impmax), zreal(truthmax), _opt_ref_t(inputmax)
    k = z3.Int("k!ti")
    before = z3.And(k >= 0, k < i, m.qual(k))
    none = z3.And(ref == 0, jm == -1, im == 0, tm == 0, z3.ForAll([k], z3.Not(before)))
    some = z3.And(jm >= 0, jm < i, ref == _INP(m.inputs, jm), m.qual(jm), im == m.imp(jm), tm == m.ft(jm),
                  z3.ForAll([k], z3.Implies(before, z3.And(m.lex_le(k, jm), z3.Implies(k < jm, m.lex_lt(k, jm))))))
    return _b(z3.Or(none, some))


@specfunc
def trusted_rule(E, self_):
    """whichever input is the first one of highest fixed truth (ties: highest importance) among the qualifying
    inputs: the output carries its value and fixed truth"""
    m = _M(E, self_)
    j = z3.Int("j!tr")
    return _b(z3.ForAll([j], z3.Implies(m.trust_win(j), m.out_is(j))))


@specfunc
def trust_winner_falsy(E, self_):
    m = _M(E, self_)
    j = z3.Int("j!tf")
    return _b(z3.Exists([j], z3.And(m.trust_win(j), z3.Not(m.truthy(j)))))


def _trust_winner(self):
    q = _qual_rows(self)
    if not q:
        return None
    best = max((r[2], r[1]) for _j, r in q)
    return [r for _j, r in q if (r[2], r[1]) == best][0]


def _trusted_native(self):
    w = _trust_winner(self)
    return True if w is None else _out_is(self, w[3], w[2])


trusted_rule.native = _trusted_native
trust_winner_falsy.native = lambda self: _trust_winner(self) is not None and len(_trust_winner(self)[3]) == 0

DEFAULT_TRUTH_FIXED = "0 <= self.default.truth and self.default.truth <= 1"
contract(F, "ArbiterTrusted.update", "C45", params=dict(self=Ref("ArbiterTrusted"), stamp=Opt(REAL)),
         setup=arb_setup, ghost={"after": {"inputmax = input": _track_jmax}},
         assumes=[DEFAULT_TRUTH_FIXED],
         loops={0: dict(inv=["trust_inv(self, _i, jmax, inputmax, impmax, truthmax)"], locals=MAX_LOCALS)},
         modifies=OUT_MOD,
         ensures=["implies(none_qualifies(self), %s)" % OUT_DEFAULT, "trusted_rule(self)", STAMPED],
         findings={"winner-share-falsy": "trust_winner_falsy(self)"},
         raises={}, replay=dict(make=_mk_arb("ArbiterTrusted")),
         note="default truth in [0, 1] is what Arbiter.__init__ establishes (GoodTruth / FixTruth, both under contract)")


# ---------------------------------------------------------------- Weighted
# running sums over the SELECTED inputs at positions < k (recursive definitions, unfolded one level per use):
#   s_imp = Sum imp      s_cnf = Sum imp * fixed truth      s_val = Sum imp * fixed truth * value
_SUM = {nm: z3.Function("arb_sum_" + nm, _I, _I, _R) for nm in ("imp", "cnf", "val")}


def _wval(m, k):
    return m.pre(m.inp(k), "value")          # OptV(isnone, real)


def _sum(E, self_, k, nm):
    m = _M(E, self_)
    kk = z3.simplify(zint(k))
    km = z3.simplify(kk - 1)
    f, me = _SUM[nm], self_.t
    term = {"imp": lambda: m.imp(km), "cnf": lambda: m.imp(km) * m.ft(km),
            "val": lambda: m.imp(km) * m.ft(km) * _wval(m, km).val.t}[nm]()
    for fact in (z3.Implies(kk == 0, f(me, kk) == 0),
                 z3.Implies(kk > 0, f(me, kk) == f(me, km) + z3.If(m.sel(km), term, z3.RealVal(0)))):
        # definitional unfolding at a closed index (_i or N, never a quantifier-bound variable): recorded like
        # E.assume does, without its string scan for bound names (printing these terms dominated the run time)
        if fact.get_id() not in E.assumed:
            E.assumed.add(fact.get_id())
            E.pc.append(fact)
    return Sym(f(me, kk), "real")


@specfunc
def s_imp(E, self_, k):
    return _sum(E, self_, k, "imp")


@specfunc
def s_cnf(E, self_, k):
    return _sum(E, self_, k, "cnf")


@specfunc
def s_val(E, self_, k):
    return _sum(E, self_, k, "val")


@specfunc
def n_in(E, self_):
    return Sym(_M(E, self_).n, "int")


@specfunc
def numeric_before(E, self_, i):
    """every selected input at a position < i has a numeric value"""
    m = _M(E, self_)
    k = z3.Int("k!nb")
    return _b(z3.ForAll([k], z3.Implies(z3.And(k >= 0, k < zint(i), k < m.n, m.sel(k)), z3.Not(_wval(m, k).isnone))))


def _nat_sums(self, upto=None):
    a = b = c = 0.0
    for sel, imp, ft, s in _rows(self)[:upto]:
        if sel:
            a += imp
            b += imp * ft
            c += imp * ft * s.value
    return a, b, c


def _nat_numeric(self, i):
    return all(isinstance(s.value, (int, float)) and not isinstance(s.value, bool)
               for sel, imp, ft, s in _rows(self)[:i] if sel)


s_imp.native = lambda self, k: _nat_sums(self, k)[0]
s_cnf.native = lambda self, k: _nat_sums(self, k)[1]
s_val.native = lambda self, k: _nat_sums(self, k)[2]
n_in.native = lambda self: len(self.inputs)
numeric_before.native = _nat_numeric

_A, _Bc, _C = "s_imp(self, n_in(self))", "s_cnf(self, n_in(self))", "s_val(self, n_in(self))"
# all selected values numeric, both divisors non-zero, weighted truth exceeds the default truth
W_OK = ("(numeric_before(self, n_in(self)) and %s != 0 and %s != 0 and %s / %s > self.default.truth)"
        % (_A, _Bc, _Bc, _A))
contract(F, "ArbiterWeighted.update", "C45", params=dict(self=Ref("ArbiterWeighted"), stamp=Opt(REAL)),
         setup=arb_setup,
         loops={0: dict(inv=["wgtimp == s_imp(self, _i) and wgtcnf == s_cnf(self, _i) and wgtval == s_val(self, _i)",
                             "numeric_before(self, _i)"],
                        locals=dict(wgtimp=REAL, wgtcnf=REAL, wgtval=REAL))},
         modifies=["self.output.value", "self.output.tkind", "self.output.tnum", "self.output.stamp"],
         ensures=["implies(%s, self.output.value == %s / %s and self.output.tkind == 3 and self.output.tnum == %s / %s)"
                  % (W_OK, _C, _Bc, _Bc, _A),
                  "implies(not %s, %s)" % (W_OK, OUT_DEFAULT), STAMPED],
         # "never raising": ZeroDivisionError is declared only so that the engine follows the division-by-zero
         # paths into the handlers of the real code; an escaping one would have to prove False
         raises={"ZeroDivisionError": ["False"]},
         replay=dict(make=_mk_arb("ArbiterWeighted", weighted=True)),
         note="weighted value = Sum(imp*truth*value)/Sum(imp*truth), weighted truth = Sum(imp*truth)/Sum(imp) over the "
              "selected inputs; default when a divisor is zero, a selected value is not a number, or the weighted truth "
              "does not exceed the default truth")
