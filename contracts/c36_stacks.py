"""C36 stream stacks deliver every queued packet intact (ioflo/aio/proto/stacking.py), function level, composed with
the C24 transport contracts (Client.send / Client.receive / Incomer.tx / Server.transmitIx).

Statement -> contracts
  TX, server stack:  TcpServerStack._serviceOneTxPkt moves the head packet of .txPkts to the END of the transmit queue
                     of exactly the connection it is addressed to, byte for byte (Server.transmitIx -> Incomer.tx,
                     whose C24 contract carries the bytes to the wire in order); for a connected peer it does not raise.
  TX, client stack:  conservation  wire ++ txbs ++ packed(txPkts) == const  for every send-result pattern
                     (TcpClientStack._serviceOneTxPkt / serviceTxPkts / serviceTxPktsOnce), and NO STRANDED BYTES:
                     serviceTxPkts never returns with bytes left in .txbs unless a send of this very call was blocked
                     (partial) or the connection is down - otherwise a packet whose tail was left over by a partial
                     send would never reach the peer.
  RX, both stacks:   bytes leave the receive buffer only as the prefix consumed by exactly one delivered packet, in
                     order (conservation  consumed ++ rxbs' == rxbs ++ received), and NO STRANDED PACKET: after a
                     service call that received something, the buffer does not start with a complete packet.
External (assumed, the interface of Packet subclasses): packet.parse(raw) either raises ValueError (incomplete) or
consumes a prefix: 0 < size <= len(raw); whether it succeeds and the size are functions of raw alone.
"""
from pyvc.api import *
from pyvc import builtins_ as B
from contracts.transport_decl import *
from contracts import c24_streams as S
from contracts import c26_server as SRV        # Server / Incomer table declarations
import z3

F = "ioflo/aio/proto/stacking.py"
FSRV = "ioflo/aio/tcp/serving.py"
HA = Opaque("ha")

classdecl("PktS", fields=dict(packed=BYTES, size=INT, stack=Opt(Ref("StackS"))))
classdecl("StackS", fields={})
REG.classes["Server"].fields.update(opened=BOOL)
REG.classes["BArr"].truthy = lambda E, obj: z3.Length(zbytes(E.rd_field(obj, "content"))) > 0

PARSE_OK = z3.Function("pkt_parse_ok", SeqInt, z3.BoolSort())
PARSE_SZ = z3.Function("pkt_parse_size", SeqInt, z3.IntSort())


def _pkt_ctor(E, cv, args, kwargs):
    p = RefV(E.new_ref(), "PktS", nn=True)
    E.wr_field(p, "packed", b"")
    E.wr_field(p, "size", 0)
    return p


classdecl("Packet", fields={})
REG.classes["Packet"].hooks[("ctor", None)] = _pkt_ctor


@hook("PktS", "getattr", "parse")
def _pkt_parse(E, pkt):
    def parse(E2, raw=None):
        zb = zbytes(raw)
        if not E2.branch(PARSE_OK(zb)):
            from pyvc.engine import PyRaise
            raise PyRaise(ExcV(ValueError, ("not enough raw data",)))
        sz = PARSE_SZ(zb)
        E2.assume(z3.And(sz > 0, sz <= z3.Length(zb)))
        E2.wr_field(pkt, "size", Sym(sz, "int"))
        E2.wr_field(pkt, "packed", Sym(z3.Extract(zb, 0, sz), "bytes"))
        return Sym(sz, "int")
    parse._specfunc = True
    return parse


@specfunc
def complete(E, raw):
    """the buffer starts with a complete packet (packet.parse would succeed)"""
    return Sym(PARSE_OK(zbytes(raw)), "bool")


@specfunc
def first_size(E, raw):
    return Sym(PARSE_SZ(zbytes(raw)), "int")


REG.assume_note("C36: Packet.parse(raw) (overridden by protocol packets) is external: raises ValueError or consumes a "
                "prefix with 0 < size <= len(raw), deterministically in raw; incStat/incState bookkeeping and console "
                "output are ignored effects")

# ---------------------------------------------------------------- server side
classdecl("TcpServerStack", file=F,
          fields=dict(txPkts=List(Tup(Ref("PktS"), HA)), rxPkts=List(Tup(Ref("PktS"), HA)), handler=Ref("Server"),
                      name=STR, stats=Ref("StackS")))
REG.classes["TcpServerStack"].hooks[("getattr", "incStat")] = opaque_method("incStat")

contract(FSRV, "Server.transmitIx", "C36", params=dict(self=Ref("Server"), data=BYTES, ca=HA),
         requires=["implies(ca in self.ixes, self.ixes[ca].txes.lo <= self.ixes[ca].txes.hi)"],
         modifies=["self.ixes[ca].txes.hi", "self.ixes[ca].txes.buf[*]"],
         ensures=["old(ca in self.ixes)", "flat(self.ixes[ca].txes) == old(flat(self.ixes[ca].txes)) + data",
                  "self.ixes[ca].txes.lo == old(self.ixes[ca].txes.lo)"],
         raises={"ValueError": ["old(ca not in self.ixes)"]})

TXQ_WF = ["forall(Opaque('ha'), lambda k: implies(k in self.handler.ixes, "
          "self.handler.ixes[k].txes.lo <= self.handler.ixes[k].txes.hi))"]
HEAD_CA = "old(self.txPkts[0][1])"
contract(F, "TcpServerStack._serviceOneTxPkt", "C36", params=dict(self=Ref("TcpServerStack")),
         requires=["len(self.txPkts) > 0"] + TXQ_WF,
         assumes=["forall(Opaque('ha'), lambda k: self.handler.ixes[k].txes.buf is not self.txPkts)"],
         modifies=["self.txPkts[*]", "self.handler.ixes[self.txPkts[0][1]].txes.hi",
                   "self.handler.ixes[self.txPkts[0][1]].txes.buf[*]"],
         ensures=[
             # the head packet's bytes are appended, intact, to the queue of the connection it is addressed to
             "flat(self.handler.ixes[%s].txes) == old(flat(self.handler.ixes[self.txPkts[0][1]].txes)) "
             "+ old(self.txPkts[0][0].packed)" % HEAD_CA,
             # ... and it leaves the packet queue; the rest keeps its order
             "len(self.txPkts) == old(len(self.txPkts)) - 1",
             "forall(lambda j: implies(0 <= j and j < len(self.txPkts), self.txPkts[j] == oldlist(self.txPkts)[j + 1]))",
             "result == True",
         ],
         raises={"ValueError": ["old(self.txPkts[0][1] not in self.handler.ixes)"]}, returns=BOOL,
         note="for a connected peer (address in the server's table) the call must not raise")

# ---------------------------------------------------------------- receive side (server stack)
RXP = dict(self=Ref("TcpServerStack"), ix=Ref("Incomer"), ca=HA)
contract(F, "Stack.parserize", "C36", params=dict(self=Ref("TcpServerStack"), raw=BYTES),
         modifies=[], frame=False,
         ensures=["(result is not None) == complete(raw)",
                  "implies(result is not None, result.size == first_size(raw) and 0 < result.size and "
                  "result.size <= len(raw) and result.packed == raw[:result.size] and fresh(result))"],
         returns=Opt(Ref("PktS")))

contract(F, "TcpServerStack._serviceOneReceived", "C36", params=RXP,
         modifies=["ix.rxbs.content", "self.rxPkts[*]"],
         ensures=[
             "result == (len(old(ix.rxbs.content)) > 0 and complete(old(ix.rxbs.content)))",
             # delivered: exactly the first packet's bytes leave the buffer, as ONE packet tagged with this connection
             "implies(result, ix.rxbs.content == old(ix.rxbs.content)[first_size(old(ix.rxbs.content)):] and "
             "len(self.rxPkts) == old(len(self.rxPkts)) + 1 and self.rxPkts[len(self.rxPkts) - 1][1] == ca and "
             "self.rxPkts[len(self.rxPkts) - 1][0].packed == old(ix.rxbs.content)[:first_size(old(ix.rxbs.content))])",
             "implies(not result, ix.rxbs.content == old(ix.rxbs.content) and len(self.rxPkts) == old(len(self.rxPkts)))",
         ], returns=BOOL)

# ---------------------------------------------------------------- client side
classdecl("TcpClientStack", file=F,
          fields=dict(txPkts=List(Ref("PktS")), rxPkts=List(Ref("PktS")), handler=Ref("Client"), name=STR,
                      txbs=Ref("BArr"), rxbs=Ref("BArr"), remote=Ref("StackS")))
REG.classes["TcpClientStack"].hooks[("getattr", "incStat")] = opaque_method("incStat")


@hook("TcpClientStack", "getattr", "incState")
def _inc_state(E, obj):
    """`self.incState(...)`: the stack classes define incStat; if no class in the real MRO defines incState the call
    is an AttributeError (decided on the AST of the tree under verification on every run)"""
    if E.repo.find_method(F, "TcpClientStack", "incState"):
        return opaque_method("incState")(E, obj)
    E.oblige("safe", z3.BoolVal(False), "TcpClientStack has an attribute incState (its MRO defines incStat only)",
             assume_after=False)
    from pyvc.engine import PyRaise
    raise PyRaise(ExcV(AttributeError, ("incState",), {"reported": True}))

PCAT = z3.Function("pcat", z3.ArraySort(z3.IntSort(), z3.IntSort()), z3.ArraySort(z3.IntSort(), SeqInt), z3.IntSort(), SeqInt)


@specfunc
def pcat(E, pkts, k):
    """concatenation of the packed bytes of the first k packets of the list `pkts` (a snapshot taken at entry), in
    queue order; primitive recursion on k, definition unfolded at k on each use (snoc form: no induction needed,
    the snapshot never changes and k grows by one per pop)"""
    arr = E.larrs(pkts)[0]
    name, _ty = E.fkey("PktS", "packed")
    pk = E.harr(("f", name, 0), [z3.IntSort()], SeqInt)
    kk = z3.simplify(zint(k))
    E.assume(PCAT(arr, pk, z3.IntVal(0)) == z3.Empty(SeqInt))
    E.assume(z3.Implies(kk <= 0, PCAT(arr, pk, kk) == z3.Empty(SeqInt)))
    E.assume(z3.Implies(kk > 0, PCAT(arr, pk, kk) == z3.Concat(PCAT(arr, pk, kk - 1), z3.Select(pk, z3.Select(arr, kk - 1)))))
    return Sym(PCAT(arr, pk, kk), "bytes")


CSP = dict(self=Ref("TcpClientStack"))
REG.inline_ok.add("Stack.clearTxbs")
REG.inline_ok.add("TcpClientStack.clearTxbs")
H_WF = list(S.transport.__defaults__ and [])      # (Client has no idle timer: no extra well-formedness)
OFFERED = "(old(self.txbs.content) if len(old(self.txbs.content)) > 0 else old(self.txPkts[0].packed))"
POPPED = "(len(old(self.txbs.content)) == 0)"

contract(F, "TcpClientStack._serviceOneTxPkt", "C36", params=CSP,
         requires=["len(self.txbs.content) > 0 or len(self.txPkts) > 0"],
         modifies=["self.txPkts[*]", "self.txbs.content", "self.handler.cs.wire", "self.handler.wlog.txcat",
                   "self.handler.cutoff"],
         ensures=[
             # what the socket accepted plus what is kept for later is exactly what was offered (left-over bytes first,
             # else the head packet), byte for byte
             "self.handler.cs.wire + self.txbs.content == old(self.handler.cs.wire) + %s" % OFFERED,
             "result == (len(self.txbs.content) == 0)",
             # a packet leaves the queue only when there were no left-over bytes; the rest keeps its order
             "implies(%s, len(self.txPkts) == old(len(self.txPkts)) - 1 and forall(lambda j: implies(0 <= j and "
             "j < len(self.txPkts), self.txPkts[j] is oldlist(self.txPkts)[j + 1])))" % POPPED,
             "implies(not %s, len(self.txPkts) == old(len(self.txPkts)) and forall(lambda j: implies(0 <= j and "
             "j < len(self.txPkts), self.txPkts[j] is oldlist(self.txPkts)[j])))" % POPPED,
         ],
         raises={"OSError": ["True"]}, returns=BOOL)


def _setup_tx(E):
    E.frame.env["g_blocked"] = False
    E.frame.env["g_tried"] = False


def _after_one(E):
    E.frame.env["g_tried"] = True


K = "(len(oldlist(self.txPkts)) - len(self.txPkts))"
CONS = ("self.handler.cs.wire + self.txbs.content == old(self.handler.cs.wire) + old(self.txbs.content) + "
        "pcat(oldlist(self.txPkts), %s)" % K)
TAIL = ("0 <= %s and forall(lambda j: implies(0 <= j and j < len(self.txPkts), "
        "self.txPkts[j] is oldlist(self.txPkts)[j + %s]))" % (K, K))
UP = "(self.handler.connected and not self.handler.cutoff)"
for _q in ("TcpClientStack.serviceTxPkts", "TcpClientStack.serviceTxPktsOnce"):
    contract(F, _q, "C36", params=CSP,
             modifies=["self.txPkts[*]", "self.txbs.content", "self.handler.cs.wire", "self.handler.wlog.txcat",
                       "self.handler.cutoff"],
             setup=_setup_tx,
             ghost={"before": {"if not self._serviceOneTxPkt(): break": _after_one}
                    if _q.endswith("serviceTxPkts") else {"self._serviceOneTxPkt()": _after_one}},
             loops={0: dict(inv=[CONS, TAIL, "implies(not g_tried, self.txbs.content == old(self.txbs.content) and "
                                 "self.handler.cutoff == old(self.handler.cutoff))"],
                            locals={"g_tried": BOOL})} if _q.endswith("serviceTxPkts") else {},
             ensures=[
                 # nothing lost, repeated or reordered: wire ++ left-over == old wire ++ old left-over ++ the packets
                 # taken from the front of the queue, in queue order; the rest of the queue is the old tail
                 CONS, TAIL,
                 # NO STRANDED BYTES: with the connection up, left-over bytes present at entry were offered to the socket
                 # again in this very call (otherwise the tail of a partially sent packet waits until some later packet
                 # happens to be queued, and never reaches the peer if none is)
                 "implies(old(%s) and len(old(self.txbs.content)) > 0, L_g_tried)" % UP,
             ],
             raises={"OSError": ["True"]})


# ---------------------------------------------------------------- client receive
def _setup_rx(E):
    E.frame.env["g_acc"] = b""


def _acc_raw(E):
    env = E.frame.env
    d = env["raw"]
    cur = zbytes(env["g_acc"])
    if d is None:
        return
    if isinstance(d, OptV):
        env["g_acc"] = Sym(z3.If(d.isnone, cur, z3.Concat(cur, zbytes(d.val))), "bytes")
    else:
        env["g_acc"] = Sym(z3.Concat(cur, zbytes(d)), "bytes")


contract(F, "ClientStreamStack.parserize", "C36", params=dict(self=Ref("TcpClientStack"), raw=BYTES),
         modifies=[], frame=False,
         ensures=["(result is not None) == complete(raw)",
                  "implies(result is not None, result.size == first_size(raw) and 0 < result.size and "
                  "result.size <= len(raw) and result.packed == raw[:result.size] and fresh(result))"],
         returns=Opt(Ref("PktS")))

def _setup_rx2(E):
    _setup_rx(E)
    E.frame.env["g_del"] = b""
    E.frame.env["g_n"] = 0


def _acc_del(E):
    env = E.frame.env
    pk = E.rd_field(env["packet"], "packed")
    env["g_del"] = Sym(z3.Concat(zbytes(env["g_del"]), zbytes(pk)), "bytes")
    env["g_n"] = Sym(zint(env["g_n"]) + 1, "int")


ALL = "(old(self.rxbs.content) + L_g_acc)"
contract(F, "TcpClientStack._serviceOneReceived", "C36", params=CSP,
         setup=_setup_rx2, ghost={"after": {"raw = self.handler.receive()": _acc_raw,
                                            "del self.rxbs[:packet.size]": _acc_del}},
         modifies=["self.rxbs.content", "self.rxPkts[*]", "self.handler.cs.got", "self.handler.wlog.rxcat",
                   "self.handler.cutoff"],
         loops={0: dict(inv=["self.rxbs.content == old(self.rxbs.content) + g_acc",
                             "self.handler.cs.got == old(self.handler.cs.got) + g_acc",
                             "len(self.rxPkts) == old(len(self.rxPkts))", "received == (len(g_acc) > 0)"],
                        locals={"g_acc": BYTES, "received": BOOL}),
                1: dict(inv=["g_del + self.rxbs.content == old(self.rxbs.content) + g_acc",
                             "self.handler.cs.got == old(self.handler.cs.got) + g_acc",
                             "len(self.rxPkts) == old(len(self.rxPkts)) + g_n and g_n >= 0", "received and len(g_acc) > 0",
                             # each packet delivered so far carries exactly the bytes it consumed
                             "implies(g_n > 0, len(g_del) > 0)"],
                        locals={"g_del": BYTES, "g_n": INT})},
         ensures=[
             "self.handler.cs.got == old(self.handler.cs.got) + L_g_acc",
             "result == (len(L_g_acc) > 0)",
             # every received byte either stays in the buffer or left it inside a delivered packet, in order:
             # (bytes of the packets delivered by this call, in delivery order) ++ buffer == old buffer ++ received
             "L_g_del + self.rxbs.content == %s" % ALL,
             "len(self.rxPkts) == old(len(self.rxPkts)) + L_g_n",
             "implies(not result, L_g_n == 0 and self.rxbs.content == old(self.rxbs.content))",
             # NO STRANDED PACKET: after a reception the buffer does not start with another complete packet
             "implies(result, len(self.rxbs.content) == 0 or not complete(self.rxbs.content))",
         ],
         raises={"OSError": ["True"]}, returns=BOOL)


# the statement ("reaches that peer byte-for-byte in queue order") is the composition of the stack-level contracts
# above with the transport-level conservation contracts of C24: they are re-verified in every C36 run
REG.also_verify["C36"] = [(FSRV, "Incomer.serviceTxes"), (FSRV, "Incomer.send"), (FSRV, "Incomer.tx"),
                          (FSRV, "Incomer.serviceReceives"), (FSRV, "Incomer.receive"),
                          ("ioflo/aio/tcp/clienting.py", "Client.send"), ("ioflo/aio/tcp/clienting.py", "Client.receive")]


# ---------------------------------------------------------------- TcpServerStack.serviceConnects: a connected peer gets its remote
# ("for a connected peer": the server stack learns its peers here; the call must not raise for any table content)
REG.classes["TcpServerStack"].fields.update(haRemotes=Dict(HA, Ref("StackS")))
for _m in ("closeConnection", "addRemote"):
    REG.classes["TcpServerStack"].hooks[("getattr", _m)] = opaque_method("TcpServerStack." + _m)
REG.classes["Server"].hooks[("getattr", "serviceConnects")] = opaque_method("Server.serviceConnects")
classdecl("IpRemoteDevice", fields={})
REG.classes["IpRemoteDevice"].hooks[("ctor", None)] = lambda E, cv, a, k: RefV(E.new_ref(), "StackS", nn=True)


@external("dict.items")
def _dict_items(E, args, kwargs):
    dv = args[0]
    n = E.fresh("nitems", z3.IntSort())
    E.assume(n >= 0)
    keys = E.fresh("itemkeys", z3.ArraySort(z3.IntSort(), E.ksort(dv.kt)))
    dom, vals = E.ddom(dv), E.dvals(dv)

    def at(E2, i):
        kk = z3.Select(keys, i)
        E2.assume(z3.Implies(z3.And(i >= 0, i < n), z3.Select(dom, kk)))
        return (unpack(dv.kt, [kk], None), unpack(dv.vt, [z3.Select(a, kk) for a in vals], E2.assume))
    return B.AbstractIter(n, at)


IX_WF = ("forall(Opaque('ha'), lambda k: implies(k in self.handler.ixes, "
         "self.handler.ixes[k].timer.store.stamp is not None and self.handler.ixes[k].timer.store.stamp >= 0 and "
         "self.handler.ixes[k].timer.start >= 0 and self.handler.ixes[k].timer.duration >= 0 and "
         "self.handler.ixes[k].timer.stop == self.handler.ixes[k].timer.start + self.handler.ixes[k].timer.duration))")
contract(F, "TcpServerStack.serviceConnects", "C36", params=dict(self=Ref("TcpServerStack")),
         requires=[IX_WF], modifies=[], frame=False,
         loops={0: dict(inv=[IX_WF])},
         ensures=["True"],
         note="safety only: servicing the connection table raises nothing (every name it uses is bound, every call "
              "matches its callee); closeConnection / addRemote / handler.serviceConnects are opaque traced calls "
              "assumed not to touch the timer fields of the listed connections; dict.items() yields present keys")
