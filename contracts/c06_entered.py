"""C06, first sentence: "each frame's enter and exit actions alternate starting with enter, and at every tick boundary
the frames entered but not exited are exactly the full outlines of the running framers ..., INCLUDING FRAMES SUSPENDED
UNDER A CONDITIONAL AUXILIARY"; "stopping or aborting exits every entered frame bottom-up".

ADD-ONLY on top of c06_bracketing.py (loaded for C06 only; no existing clause is changed, clauses are appended):

 ghost Frame.entered : set True by Frame.enter, False by Frame.exit (at the call; rexit / renter do not touch it);
 ghost Framer.altbad : becomes True when Frame.enter is called on an entered frame of that framer or Frame.exit on a
                       frame that is not entered (an alternation violation); never reset.
 Both are written by the call-site views of Frame.enter / Frame.exit only (definitional).  A frame operation may enter /
 exit frames of OTHER framers (its auxiliaries): their `entered` is havocked, the statements below are per framer.

 Framer.exit / enter / exitAll / enterAll (appended post-conditions, proved on the real loops): every frame of the list
 ends not entered / entered, every other frame of this framer keeps its flag, and if every frame of the list was
 (not) entered at entry, the list is duplicate free and no violation had happened, none happens (`c06_alternation`).

 Transiter.action, variant [v1] - THE BRACKET INVARIANT written from the statement: assuming at entry that the entered
 frames of near.framer are exactly the members of near.framer.active.outline (the FULL outline, also when .actives is
 truncated by a conditional auxiliary), after a taken transition they are exactly the members of far.outline
 (`c06_bracket`), after a refused one nothing changed, and no alternation violation happened.
 Framer.exitAll, variant [v1]: under the same assumption no frame of the framer is entered afterwards (`c06_stop`).

 Both [v1] statements are EXPECTED to fail exactly when frames are suspended (framer.actives is not
 framer.active.outline: Transiter.action / exitAll walk the truncated list main.head, so the frames suspended below
 main are never exited): region `suspended` of the contracts' `findings`; outside that region they are proved, and any
 other failure is a VIOLATION.  Native: findings/c06_suspended_frames_not_exited.py.
"""
from pyvc.api import *
from contracts.framing_decl import *
from contracts.lib import *
from contracts import c06_bracketing as B
import z3

LF = List(Ref("Frame"))
REG.classes["Frame"].fields.update(entered=BOOL)          # ghost
REG.classes["Framer"].fields.update(altbad=BOOL)          # ghost
ENT_KEY = ("f", "Frame.entered", 0)


@specfunc
def c06_alternation(E, cond):
    """marker (identity): every enter was made on a frame that was not entered, every exit on one that was"""
    return cond


@specfunc
def c06_bracket(E, cond):
    """marker (identity): entered frames of the framer == members of the full outline"""
    return cond


@specfunc
def c06_stop(E, cond):
    """marker (identity): stopping / aborting leaves no frame of the framer entered"""
    return cond


for _f in (c06_alternation, c06_bracket, c06_stop):
    _f.native = lambda cond: cond


@specfunc
def is_prestate(E, x):
    """x denotes an object of the pre-state (positive reference).  The engine knows this for every list element it
    reads at a concrete or path index, but drops the typing fact for quantifier-bound indices; the statement-level
    variants quantify over the frames of outlines, so the fact is restated for those lists (typing, not an assumption
    about ioflo)"""
    return Sym(x.t > 0, "bool")


is_prestate.native = lambda x: x is not None
ELEMS = "forall(lambda j: implies(0 <= j and j < len({l}), is_prestate({l}[j])))"


def entered_of_other_framers(E):
    """modifies entry of the Frame.enter / Frame.exit views: frames of OTHER framers (auxiliaries) may be entered /
    exited by the operation; frames of the framer that owns `self` keep their flag (self: explicit entry)"""
    me = E.frame.env["self"]
    fr = E.rd_field(me, "framer")
    farr = E.harr(("f", "Frame.framer", 0), [z3.IntSort()], z3.IntSort())
    old = E.harr(ENT_KEY, [z3.IntSort()], z3.BoolSort())
    new = E.fresh("hvf_entered", old.sort())
    r = z3.Int("r!ent")
    E.assume(z3.ForAll([r], z3.Implies(z3.Select(farr, r) == fr.t, z3.Select(new, r) == z3.Select(old, r)),
                       patterns=[z3.Select(new, r)]))
    E.heap[ENT_KEY] = new
    E.note_write(ENT_KEY, ("allbut", ()))


entered_of_other_framers.frame = lambda E: []
entered_of_other_framers.allbut = ({"Frame": ["entered"]}, [])
ENTERED_ANY = havoc_all_but({"Frame": ["entered"]}, keep=[])


def _first(qual):
    return REG.contracts[(FF, qual)][0]


# ---------------------------------------------------------------- call-site views of Frame.enter / Frame.exit
_v = _first("Frame.enter")
_v.modifies += [entered_of_other_framers, "self.entered", "self.framer.altbad"]
_v.ensures += ["self.entered", "self.framer.altbad == (old(self.framer.altbad) or old(self.entered))"]
_v = _first("Frame.exit")
_v.modifies += [entered_of_other_framers, "self.entered", "self.framer.altbad"]
_v.ensures += ["not self.entered", "self.framer.altbad == (old(self.framer.altbad) or not old(self.entered))"]

# ---------------------------------------------------------------- list walkers
# The pre-condition under which no alternation violation can happen is stated about the PRE-state of the call (entry
# contents of the list: Framer.exit reverses it in place): every frame of the list is (not) entered, the list is
# duplicate free, no violation so far.
DISTINCT = "forall(lambda j, k: implies(0 <= j and j < k and k < len({l}), {l}[j] is not {l}[k]))"
DISTINCT_OLD = "forall(lambda j, k: implies(0 <= j and j < k and k < len({l}), old({l}[j] is not {l}[k])))"
ALL_WERE = "forall(lambda j: implies(0 <= j and j < len({l}), old({l}[j].entered) == {v}))"
OTHERS_SAME = ("forall(Ref('Frame'), lambda f: implies(f.framer is self and not member({l}, f), "
               "f.entered == old(f.entered)), trigger=lambda f: f.entered)")
# the same with membership in the ENTRY contents of the list
OTHERS_SAME_OLD = ("forall(Ref('Frame'), lambda f: implies(f.framer is self and not old(member({l}, f)), "
                   "f.entered == old(f.entered)), trigger=lambda f: f.entered)")
OTHER_ALTBAD = ("forall(Ref('Framer'), lambda a: implies(a is not self, a.altbad == old(a.altbad)), "
                "trigger=lambda a: a.altbad)")


def _walker(qual, lst, now, done, todo):
    """Framer.exit (now=False) / Framer.enter (now=True): appended invariants and post-conditions, all stated over the
    ENTRY contents of the list, old(lst[j]) (what the callers know; Framer.exit reverses the list object in place).
    `done` / `todo`: index ranges over the entry contents of the frames already visited / not yet visited after _i
    iterations"""
    c = _first(qual)
    O = "old(%s[j])" % lst
    val = "True" if now else "False"
    was = "False" if now else "True"
    pre = "(%s and %s and not old(self.altbad))" % (ALL_WERE.format(l=lst, v=was), DISTINCT_OLD.format(l=lst))
    c.modifies += [ENTERED_ANY, "self.altbad"]
    c.loops[0]["inv"] += [
        "forall(lambda j: implies(0 <= j and j < len(%s), %s.framer is self))" % (lst, O),
        "forall(lambda j: implies(%s, %s.entered == %s))" % (done, O, val),
        "forall(Ref('Frame'), lambda f: implies(f.framer is self and "
        "forall(lambda j: implies(%s, %s is not f)), f.entered == old(f.entered)), "
        "trigger=lambda f: f.entered)" % (done, O),
        "implies(%s, not self.altbad)" % pre,
        # under that pre-condition the frames still to be visited are as they were (distinct frames of this framer)
        "implies(%s, forall(lambda j: implies(%s, %s.entered == %s)))" % (pre, todo, O, was),
        OTHER_ALTBAD,
    ]
    c.ensures += [
        "forall(lambda j: implies(0 <= j and j < len(%s), %s.entered == %s))" % (lst, O, val),
        OTHERS_SAME_OLD.format(l=lst),
        "c06_alternation(implies(%s, not self.altbad))" % pre,
    ]
    return c


# bottom-up: Framer.exit visits the tail of the entry contents first
_walker("Framer.exit", "exits", False, "len(exits) - _i <= j and j < len(exits)", "0 <= j and j < len(exits) - _i")
_walker("Framer.enter", "enters", True, "0 <= j and j < _i", "_i <= j and j < len(enters)")
# rexit / renter: neither flag is written (nothing appended: their modifies do not name the ghost fields)

# ---------------------------------------------------------------- exitAll / enterAll (first variants: true list facts)
_c = _first("Framer.exitAll")
_c.modifies += [ENTERED_ANY, "self.altbad"]
_c.ensures += [
    "forall(lambda j: implies(0 <= j and j < len(old(self.actives)), not old(self.actives[j]).entered))",
    OTHERS_SAME_OLD.format(l="self.actives"),
    "c06_alternation(implies(%s and %s and not old(self.altbad), not self.altbad))"
    % ("forall(lambda j: implies(0 <= j and j < len(old(self.actives)), old(self.actives[j].entered)))",
       "forall(lambda j, k: implies(0 <= j and j < k and k < len(old(self.actives)), "
       "old(self.actives[j] is not self.actives[k])))"),
]
FO = "self.first.outline"
_c = _first("Framer.enterAll")
_c.modifies += [ENTERED_ANY, "self.altbad"]
_c.ensures += [
    "forall(lambda j: implies(0 <= j and j < len(%s), %s[j].entered))" % (FO, FO),
    "forall(Ref('Frame'), lambda f: implies(f.framer is self and not member(%s, f), f.entered == old(f.entered)), "
    "trigger=lambda f: f.entered)" % FO,
    "c06_alternation(implies(%s and %s and not old(self.altbad), not self.altbad))"
    % ("forall(lambda j: implies(0 <= j and j < len(%s), not old(%s[j].entered)))" % (FO, FO), DISTINCT.format(l=FO)),
    # starting a stopped framer (none of its frames entered): afterwards exactly its first outline is entered
    "c06_bracket(implies(forall(Ref('Frame'), lambda f: implies(f.framer is self, not old(f.entered))), "
    "forall(Ref('Frame'), lambda f: implies(f.framer is self, iff(f.entered, member(%s, f))), "
    "trigger=lambda f: f.entered)))" % FO,
]

# ---------------------------------------------------------------- ExEn: the same split, stated from the sources' side
# (appended; the existing clauses give exits / enters / reexens as slices, i.e. indexed by the RESULT lists; the bracket
# argument needs them indexed by nears / far.outline, and that nears and far.outline agree above the split point)
_x = _first("Framer.ExEn")
_W = "(len(nears) - len(result[0]))"
_x.ensures += [
    "forall(lambda k: implies(%s <= k and k < len(nears), nears[k] is result[0][k - %s]))" % (_W, _W),
    "implies(len(result[1]) > 0, %s <= len(far.outline) and forall(lambda k: implies(%s <= k and k < len(far.outline), "
    "far.outline[k] is result[1][k - %s])))" % (_W, _W, _W),
    "forall(lambda j: implies(0 <= j and j < %s and j < len(far.outline), nears[j] is far.outline[j]))" % _W,
]

# ---------------------------------------------------------------- Transiter.action: frame additions on the first variant
_t = REG.contracts[(FA, "Transiter.action")][0]
FR = B.FR
_t.modifies += [ENTERED_ANY, FR + ".altbad"]

# ---------------------------------------------------------------- the statement: bracket invariant (second variants)
SUSPENDED = "{f}.actives is not {f}.active.outline"
# C05 class invariant: .actives is the active outline or, while a conditional auxiliary suspends the frames below its
# main frame m, the head of m: in both cases a prefix of the active outline
PREFIX = ("len({f}.actives) <= len({f}.active.outline) and forall(lambda k: implies(0 <= k and k < len({f}.actives), "
          "{f}.actives[k] is {f}.active.outline[k]))")
# "the entered frames of framer {f} are exactly the members of outline {o}" in two halves (the frames of an outline
# belong to the framer): every frame of the outline is entered; every entered frame of the framer is in the outline
BR_IN = "forall(lambda k: implies(0 <= k and k < len({o}), {o}[k].entered))"
BR_ONLY = ("forall(Ref('Frame'), lambda f: implies(f.framer is {f} and f.entered, member({o}, f)), "
           "trigger=lambda f: f.entered)")
REG.assume_note("C06 bracket invariant: outlines are duplicate free (paths of the frame tree; structural, C05) - assumed "
                "for near.framer.active.outline, near.framer.actives and far.outline in Transiter.action[v1] / "
                "Framer.exitAll[v1]")

CUT_AFTER_EXIT = ("forall(Ref('Frame'), lambda f: implies(f.framer is {f} and f.entered, "
                  "member(old({f}.active.outline), f)), trigger=lambda f: f.entered)").format(f=FR)


def _cut_after_exit(E):
    """proof cut (an obligation, then a fact): after framer.exit(exits) every entered frame of the framer is a frame of
    the old active outline (holds with and without suspension)"""
    E.oblige("lemma", E.spec_eval(CUT_AFTER_EXIT), "after framer.exit(exits): " + CUT_AFTER_EXIT, assume_after=True)


contract(FA, "Transiter.action", "C06", params=dict(_t.params), requires=list(_t.requires),
         ghost={"after": {"framer.exit(exits)": _cut_after_exit}},
         assumes=list(_t.assumes) + [
             FR + ".active is not None",
             # the bracket invariant at entry: entered frames of the framer == members of the FULL active outline
             BR_IN.format(o=FR + ".active.outline"), BR_ONLY.format(f=FR, o=FR + ".active.outline"),
             "not %s.altbad" % FR,
             DISTINCT.format(l=FR + ".active.outline"), DISTINCT.format(l=FR + ".actives"),
             DISTINCT.format(l="far.outline"),
             # frames of the active outline belong to the framer (as assumed for .actives and far.outline)
             B.OWN_FR.format(l=FR + ".active.outline"),
             PREFIX.format(f=FR),
             ELEMS.format(l=FR + ".actives"), ELEMS.format(l=FR + ".active.outline"), ELEMS.format(l="far.outline"),
         ],
         modifies=list(_t.modifies), loops={k: dict(inv=list(v["inv"])) for k, v in _t.loops.items()},
         findings={"suspended": SUSPENDED.format(f=FR)},
         ensures=[
             "c06_bracket(implies(result is far, %s))" % BR_IN.format(o="far.outline"),
             "c06_bracket(implies(result is far, %s))" % BR_ONLY.format(f=FR, o="far.outline"),
             "implies(result is None, forall(Ref('Frame'), lambda f: f.entered == old(f.entered), "
             "trigger=lambda f: f.entered))",
             "c06_alternation(not %s.altbad)" % FR,
         ],
         returns=Opt(Ref("Frame")),
         note="statement-level variant: the order / refusal clauses are on the first variant")

_e = _first("Framer.exitAll")
contract(FF, "Framer.exitAll", "C06,C03", params=dict(_e.params), requires=list(_e.requires),
         assumes=list(_e.assumes) + [
             "self.active is not None", BR_IN.format(o="self.active.outline"),
             BR_ONLY.format(f="self", o="self.active.outline"), "not self.altbad",
             DISTINCT.format(l="self.active.outline"), DISTINCT.format(l="self.actives"),
             B.OWN.format(l="self.active.outline"),
             PREFIX.format(f="self"),
             ELEMS.format(l="self.actives"), ELEMS.format(l="self.active.outline"),
         ],
         modifies=list(_e.modifies),
         findings={"suspended": SUSPENDED.format(f="self")},
         ensures=[
             # "stopping or aborting exits every entered frame": none of the framer's frames stays entered
             "c06_stop(forall(Ref('Frame'), lambda f: implies(f.framer is self, not f.entered), "
             "trigger=lambda f: f.entered))",
             "c06_alternation(not self.altbad)",
         ])
