"""C43 angle wrapping: wrap1 / wrap2 / delta  (ioflo/aid/navigating.py)

Post-conditions are taken from the property statement: the result lies in the
documented interval and differs from the input by a whole number of turns;
wrap == 0 returns the angle unchanged.  `%` has Python's floor semantics; the
integer quotient of each `%` is the ghost list `divq` (witness of the whole-turn
claim).  Floats are treated as exact reals (assumption).
"""
from pyvc.api import *
import z3

F = "ioflo/aid/navigating.py"


@specfunc
def whole_turns(E, result, angle, period):
    """exists integer m: result == angle - m*period ; witness built from the `%` quotients of the path"""
    r, a, p = zreal(result), zreal(angle), zreal(period)
    if E.assuming:      # callee post-condition at a call site: skolem witness
        m = E.fresh("turns", z3.IntSort())
        return Sym(r == a - z3.ToReal(m) * p, "bool")
    qs = E.ghost.get("divq", [])
    if not qs:          # no `%` on this path (caller of a contracted wrap): plain existential
        m = z3.Int("m!turns")
        return Sym(z3.Exists([m], r == a - z3.ToReal(m) * p), "bool")
    cands = [z3.IntVal(0)]
    for q in qs:
        cands.append(q.t)
    # wrap2: second step works on (angle - wrap) modulo -wrap: candidates q1, q1+... are tried as
    # explicit witnesses; the solver only has to check one of them (no quantifier)
    if len(qs) == 2:
        cands.append(qs[0].t + 1)
        cands.append(qs[0].t - 1)
        cands.append(2 * qs[0].t - qs[1].t)
        cands.append(2 * qs[0].t - qs[1].t + 1)
    return Sym(z3.Or(*[r == a - z3.ToReal(m) * p for m in cands]), "bool")


def _whole_turns_native(result, angle, period):
    from fractions import Fraction
    q = (Fraction(angle) - Fraction(result)) / Fraction(period)
    return q.denominator == 1


whole_turns.native = _whole_turns_native


contract(F, "wrap1", "C43",
         params=dict(angle=REAL, wrap=REAL),
         ensures=["implies(wrap == 0, result == angle)",
                  "implies(wrap > 0, 0 <= result and result < wrap)",
                  "implies(wrap < 0, wrap < result and result <= 0)",
                  "implies(wrap != 0, whole_turns(result, angle, wrap))"],
         returns=REAL, replay="pure")

contract(F, "wrap2", "C43",
         params=dict(angle=REAL, wrap=REAL),
         ensures=["implies(wrap == 0, result == angle)",
                  "implies(wrap != 0, -abs(wrap) <= result and result <= abs(wrap))",
                  "implies(wrap != 0, whole_turns(result, angle, 2 * wrap))"],
         returns=REAL, replay="pure")

contract(F, "delta", "C43",
         params=dict(desired=REAL, actual=REAL, wrap=REAL),
         ensures=["implies(wrap == 0, result == desired - actual)",
                  "implies(wrap != 0, -abs(wrap) <= result and result <= abs(wrap))",
                  "implies(wrap != 0, whole_turns(result, desired - actual, 2 * wrap))"],
         returns=REAL,
         replay="pure")
