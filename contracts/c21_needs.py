"""C21 comparison conditions: Need.Check, NeedBoolean/NeedDirect/NeedIndirect.action, Nact.__call__

Post-conditions from the statement: '==' means goal-|tol| <= state <= goal+|tol| for numbers and plain
equality otherwise, '!=' its complement, the ordering operators compare state with goal, anything else is
False; a bare `if state` is the truthiness of the field; Nact negates.
Cases: numeric state/goal (reals), string state/goal, string state against numeric goal (the TypeError path).
String ordering is an uninterpreted total-order symbol str_lt (the same symbol on both sides).
"""
from pyvc.api import *
import z3

F = "ioflo/base/needing.py"
FA = "ioflo/base/acting.py"

OPS = ["==", "!=", "<", "<=", ">=", ">", "=", "~", ""]

CHECK_NUM = [
    "implies(comparison == '==', result == (goal - abs(tolerance) <= state and state <= goal + abs(tolerance)))",
    "implies(comparison == '!=', result == (not (goal - abs(tolerance) <= state and state <= goal + abs(tolerance))))",
    "implies(comparison == '<', result == (state < goal))",
    "implies(comparison == '<=', result == (state <= goal))",
    "implies(comparison == '>=', result == (state >= goal))",
    "implies(comparison == '>', result == (state > goal))",
    "implies(comparison not in ('==', '!=', '<', '<=', '>=', '>'), result == False)",
]
CHECK_OTHER = [
    "implies(comparison == '==', result == (state == goal))",
    "implies(comparison == '!=', result == (state != goal))",
    "implies(comparison not in ('==', '!=', '<', '<=', '>=', '>'), result == False)",
]
CHECK_STR = CHECK_OTHER + [
    "implies(comparison == '<', result == (state < goal))",
    "implies(comparison == '<=', result == (state <= goal))",
    "implies(comparison == '>=', result == (state >= goal))",
    "implies(comparison == '>', result == (state > goal))",
]


def _mk_check(case):
    def make(rng, i, cex, nr):
        from pyvc.native import from_cex, gen_value
        from pyvc.values import REAL, STR
        env = {}
        kinds = {0: (REAL, REAL), 1: (STR, STR), 2: (STR, REAL)}[case]
        if cex and cex.get("params"):
            for k, v in cex["params"].items():
                env[k] = from_cex(v)
            return env
        env["state"] = gen_value(rng, kinds[0], rng.randint(0, 12)) if kinds[0] is REAL else rng.choice(["", "a", "b", "ab", "=="])
        env["goal"] = gen_value(rng, kinds[1], rng.randint(0, 12)) if kinds[1] is REAL else rng.choice(["", "a", "b", "ab", "=="])
        env["comparison"] = rng.choice(OPS)
        env["tolerance"] = rng.choice([0.0, 0.5, -0.5, 1.0, -2.0, 0.125])
        if case == 0 and rng.random() < 0.4:      # boundary cases
            env["state"] = env["goal"] + rng.choice([-1, 0, 1]) * abs(env["tolerance"])
        return env
    return make


# case 0: numbers ; case 1: strings ; case 2: string state against a numeric goal
contract(F, "Need.Check", "C21",
         cases=[dict(state=REAL, goal=REAL), dict(state=STR, goal=STR), dict(state=STR, goal=REAL)],
         params=dict(comparison=STR, tolerance=REAL),
         ensures=[], returns=BOOL,
         extra_posts=[],
         replay=None)
# the three cases have different post-conditions: registered as three contracts on the same function
REG.contracts[(F, "Need.Check")].clear()
contract(F, "Need.Check", "C21", params=dict(state=REAL, comparison=STR, goal=REAL, tolerance=REAL),
         ensures=CHECK_NUM, returns=BOOL, replay=dict(make=_mk_check(0)))
contract(F, "Need.Check", "C21", params=dict(state=STR, comparison=STR, goal=STR, tolerance=REAL),
         ensures=CHECK_STR, returns=BOOL, replay=dict(make=_mk_check(1)), note="string operands")
contract(F, "Need.Check", "C21", params=dict(state=STR, comparison=STR, goal=REAL, tolerance=REAL),
         ensures=CHECK_OTHER, raises={"TypeError": ["comparison in ('<', '<=', '>=', '>')"]},
         returns=BOOL, replay=dict(make=_mk_check(2)), note="string state against numeric goal")

# ---------------------------------------------------------------- shares as field maps
classdecl("ShareNum", fields=dict(items=Dict(STR, REAL)))
classdecl("ShareStr", fields=dict(items=Dict(STR, STR)))
classdecl("ShareBool", fields=dict(items=Dict(STR, BOOL)))
for _c in ("ShareNum", "ShareStr", "ShareBool"):
    @hook(_c, "getitem")
    def _share_getitem(E, obj, idx):
        from pyvc import builtins_ as B
        return B.getitem(E, E.rd_field(obj, "items"), idx)

    @hook(_c, "contains")
    def _share_contains(E, obj, x):
        return E.dhas(E.rd_field(obj, "items"), x)

classdecl("NeedBoolean", file=F, fields={})
classdecl("NeedDirect", file=F, fields={})
classdecl("NeedIndirect", file=F, fields={})


class _ShareDouble(dict):
    name = "share.double"


def _mk_need(clsname, valgen):
    def make(rng, i, cex, nr):
        cls = getattr(nr.mod, clsname)
        obj = object.__new__(cls)
        env = {"self": obj}
        st = _ShareDouble()
        st["value"] = valgen(rng)
        st["other"] = valgen(rng)
        env["state"] = st
        env["stateField"] = rng.choice(["value", "other"])
        if "comparison" in nr.params:
            env["comparison"] = rng.choice(OPS)
            env["tolerance"] = rng.choice([0.0, 0.5, -0.5, 1.0])
            if "goalField" in nr.params:
                g = _ShareDouble()
                g["value"] = valgen(rng)
                env["goal"] = g
                env["goalField"] = "value"
            else:
                env["goal"] = valgen(rng)
            if rng.random() < 0.4 and isinstance(st["value"], float):
                gv = env["goal"]["value"] if "goalField" in nr.params else env["goal"]
                st[env["stateField"]] = gv + rng.choice([-1, 0, 1]) * abs(env["tolerance"])
        return env
    return make


def _numgen(rng):
    return rng.randint(-40, 40) / 8.0


contract(F, "NeedBoolean.action", "C21",
         params=dict(self=Ref("NeedBoolean"), state=Ref("ShareNum"), stateField=STR),
         requires=["stateField in state"],
         ensures=["result == (state[stateField] != 0)"], returns=BOOL,
         replay=dict(make=_mk_need("NeedBoolean", _numgen)))
contract(F, "NeedBoolean.action", "C21",
         params=dict(self=Ref("NeedBoolean"), state=Ref("ShareStr"), stateField=STR),
         requires=["stateField in state"],
         ensures=["result == (len(state[stateField]) > 0)"], returns=BOOL,
         replay=dict(make=_mk_need("NeedBoolean", lambda rng: rng.choice(["", "a", "False"]))),
         note="string field")
contract(F, "NeedBoolean.action", "C21",
         params=dict(self=Ref("NeedBoolean"), state=Ref("ShareBool"), stateField=STR),
         requires=["stateField in state"],
         ensures=["result == state[stateField]"], returns=BOOL, note="boolean field")

DIRECT_POST = [c.replace("state", "state[stateField]") for c in CHECK_NUM]
contract(F, "NeedDirect.action", "C21",
         params=dict(self=Ref("NeedDirect"), state=Ref("ShareNum"), stateField=STR, comparison=STR, goal=REAL,
                     tolerance=REAL),
         requires=["stateField in state"], ensures=DIRECT_POST, returns=BOOL,
         replay=dict(make=_mk_need("NeedDirect", _numgen)))
INDIRECT_POST = [c.replace("state", "state[stateField]").replace("goal", "goal[goalField]") for c in CHECK_NUM]
contract(F, "NeedIndirect.action", "C21",
         params=dict(self=Ref("NeedIndirect"), state=Ref("ShareNum"), stateField=STR, comparison=STR,
                     goal=Ref("ShareNum"), goalField=STR, tolerance=REAL),
         requires=["stateField in state", "goalField in goal"], ensures=INDIRECT_POST, returns=BOOL,
         replay=dict(make=_mk_need("NeedIndirect", _numgen)))

# ---------------------------------------------------------------- Nact: negation of the wrapped actor's result
classdecl("Nact", file=FA, fields={})


@hook("Nact", "getattr", "parms")
def _nact_parms(E, obj):
    return {}


for _i, (_ty, _n) in enumerate([(BOOL, "bool"), (INT, "int"), (Opt(REAL), "optreal")]):
    pass


def _nact_contract(ty, label, truth_text):
    def actor_hook(E, obj):
        return opaque_callable("actor", ty)
    c = contract(FA, "Nact.__call__", "C21", params=dict(self=Ref("Nact")),
                 setup=lambda E: REG.classes["Nact"].hooks.__setitem__(("getattr", "actor"), actor_hook),
                 ensures=[truth_text], returns=BOOL, note="wrapped actor returns " + label)
    return c


_nact_contract(BOOL, "a bool", "result == (not actor)")
_nact_contract(INT, "an int", "result == (actor == 0)")
_nact_contract(Opt(REAL), "None or a number", "result == (actor is None or actor == 0)")
REG.assume_note("Nact.__call__: the wrapped actor is an opaque call (dynamic dispatch) returning an arbitrary "
                "value of the stated type; its own effects are outside this contract")
