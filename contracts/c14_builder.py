"""C14 - building any script terminates with success or a script error (the EXCEPTION-CONTRACT part).

Contract:  raises <= {ParseError, ResolveError, the literal converters' ValueError}  (+ OSError of `load`, which
Builder.build reports as a failure) on Builder.build and on every verb method `Builder.build<Verb>` reachable from
`Builder.dispatch`; the parse* / make* / verify* / prepare* helpers additionally let IndexError of a token read pass
(every verb method wraps them in `try: ... except IndexError: raise ParseError`), which is exactly what the analysis
checks at the verb methods.

Decided by the exception-escape analysis `pyvc/escape.py:EscapesX` over ALL methods of Builder and all module-level
functions of building.py (enumerated from the AST on every run), with the name-scope analysis `pyvc/names.py` providing
the NameError sites.  Families: IndexError / KeyError / LookupError (subscripts with the guards the builder uses),
ValueError outside the literal converters (int()/float() of text or of a float that may be nan, tuple-unpack of split,
.index, list.remove), NameError (a name bound in no scope), TypeError where it is decidable without types (%-format and
str.format arity, max / int / ordering of a possibly complex converter result), AttributeError for `self.<attr>` that
nothing in the class assigns, OverflowError of int(inf), anything raised explicitly.

One static obligation per ENTRY (families merged; the detail names method, line, family and site of every escaping
exception), five per-family obligations for Builder.build (whose dispatch is linked to all verb methods), one for the
methods no entry reaches.  A recorded known finding lists SITE KEYS (`function: class how`, line-independent); the
obligations exclude exactly those keys and say so, and each recorded key has its own obligation `site is absent` that
fails while the site exists (matched by known_findings.json), so the finding stays visible and any other site is a
violation.

Termination is NOT decided here (no ranking argument for the over-link loop of Frame.resolveOverLinks and the clone
loops of the resolve step); the native search runs every build under a 5 s alarm and reports a timeout as a failure -
a bounded test, labelled as such.  The resolve step itself (House.resolve and everything behind it: framers, frames,
acts, actor construction with script-supplied arguments) is outside the static analysis; it is exercised by the native
search only.
"""
import ast
import json
import os

from pyvc.api import REG

B = "ioflo/base/building.py"
ALLOWED = ("ParseError", "ResolveError")
ENVIRONMENT = ("OSError", "ImportError")      # files named by `load`, behaviour packages named by the caller of build()
FORBIDDEN_ROOTS = {
    "IndexError / KeyError / LookupError": ("LookupError",),
    "NameError / UnboundLocalError": ("NameError",),
    "TypeError / AttributeError": ("TypeError", "AttributeError"),
    "ValueError outside the literal converters": ("ValueError",),
}
VERIF = os.path.dirname(os.path.dirname(os.path.abspath(__file__)))
_cache = {}


def _verbs(repo):
    g = repo.module_globals(B).get("VerbList")
    if not g or g[0] != "const":
        raise RuntimeError("VerbList is not a module-level literal any more")
    return list(g[1])


def _self_attr_sites(cd, funcs):
    """`self.<attr>` loads for attributes that no method assigns and that are neither methods nor class attributes"""
    bound = set()
    for st in cd.body:
        if isinstance(st, (ast.FunctionDef, ast.ClassDef)):
            bound.add(st.name)
        elif isinstance(st, ast.Assign):
            for t in st.targets:
                if isinstance(t, ast.Name):
                    bound.add(t.id)
    for n in ast.walk(cd):
        if isinstance(n, ast.Attribute) and isinstance(n.value, ast.Name) and n.value.id == "self" \
                and isinstance(n.ctx, (ast.Store, ast.Del)):
            bound.add(n.attr)
    bound |= set(dir(object))
    out = {}
    for st in cd.body:
        if not isinstance(st, ast.FunctionDef):
            continue
        for n in ast.walk(st):
            if isinstance(n, ast.Attribute) and isinstance(n.value, ast.Name) and n.value.id == "self" \
                    and isinstance(n.ctx, ast.Load) and n.attr not in bound:
                out.setdefault("Builder." + st.name, []).append(
                    (n.lineno, n.attr, "`self.%s` is assigned nowhere in the class" % n.attr))
    return out


def _analysis(repo):
    key = repo.root
    if key in _cache:
        return _cache[key]
    from pyvc.escape import EscapesX
    from pyvc import names
    m = repo.module(B)
    cd = m.classes.get("Builder")
    if cd is None:
        raise RuntimeError("class Builder not found in %s" % B)
    funcs = {}
    for q in m.functions:
        if q.startswith("Builder.") and q.count(".") == 1:
            funcs[q] = (B, q)
        elif "." not in q and q != "Test":
            funcs[q] = (B, q)
    converters = sorted(q for q in funcs if "." not in q and any(
        isinstance(n, ast.Raise) and n.exc is not None and "ValueError" in ast.unparse(n.exc) for n in ast.walk(m.functions[q])))
    verbs = _verbs(repo)
    verb_methods = {}
    for v in verbs:
        name = "Builder.build" + v.capitalize()
        verb_methods[v] = name if name in funcs else "Builder.buildGeneric"
    for need in ("Builder.build", "Builder.dispatch", "Builder.buildGeneric"):
        if need not in funcs:
            raise RuntimeError("%s not found" % need)
    modnames = names.module_names(repo, B)
    name_sites = {k: names.unbound_names(repo, B, m.functions[q], modnames) for k, (_r, q) in funcs.items()}
    name_sites = {k: v for k, v in name_sites.items() if v}
    entries = ["Builder.build"] + sorted(set(verb_methods.values()))
    e = EscapesX(repo, funcs, list_names=["tokens"], name_sites=name_sites, attr_sites=_self_attr_sites(cd, funcs),
                 propagating=("IndexError",), complex_results=converters, numeric_results=["Convert2Num"],
                 internal_only=["Builder.dispatch"], entries=entries,
                 dynamic_calls={"Builder.dispatch": sorted(set(verb_methods.values()))})
    e.run()
    # reachability from the entries over resolved calls
    reach, stack = set(), list(entries)
    while stack:
        k = stack.pop()
        if k in reach:
            continue
        reach.add(k)
        for n in ast.walk(e.nodes[k]):
            if isinstance(n, ast.Call):
                c = e.callee_key(k, n)
                for c1 in (c if isinstance(c, list) else [c] if c else []):
                    stack.append(c1)
    info = dict(e=e, funcs=funcs, converters=converters, verbs=verbs, verb_methods=verb_methods, entries=entries,
                unreached=sorted(k for k in funcs if k not in reach and k.startswith("Builder.") and k != "Builder.__init__"),
                name_sites=name_sites, dynamic=names.dynamic_scope_uses(m.tree))
    _cache[key] = info
    return info


# ---- policy: which escaping elements violate the statement ------------------------------------------------------
def _violations(info, k, helper=False):
    e = info["e"]
    out = []
    for el in e.summary[k]:
        cls = el[0]
        anc = e.ancestors(e._canon(cls))
        if any(a in anc for a in ALLOWED) or any(a in anc for a in ENVIRONMENT):
            continue
        if "ValueError" in anc and el[1] in info["converters"] and "UnicodeError" not in anc:
            continue                       # the literal converters' value error (raised inside Convert2*)
        if helper and "IndexError" in anc:
            continue
        out.append(el)
    return sorted(out)


def _fmt(els, limit=14):
    txt = ["%s:%d %s %s" % (el[1], el[2], el[0], el[3]) for el in els[:limit]]
    more = " ... and %d more" % (len(els) - limit) if len(els) > limit else ""
    return "; ".join(txt) + more


# ---- known findings keyed by site ---------------------------------------------------------------------------------
def _known_sites():
    """site key -> finding id, from known_findings.json (entries of property C14 that list `sites`); with
    PYVC_C14_PROPOSED=1 also from findings/c14_proposed_known_findings.json (development: shows what the run looks like
    once the proposal is merged)"""
    out = {}
    paths = [os.path.join(VERIF, "known_findings.json")]
    if os.environ.get("PYVC_C14_PROPOSED"):
        paths.append(os.path.join(VERIF, "findings", "c14_proposed_known_findings.json"))
    for p in paths:
        try:
            with open(p) as f:
                d = json.load(f)
        except (OSError, ValueError):
            continue
        for fd in d.get("findings", []):
            if fd.get("property") == "C14":
                for s in fd.get("sites", []):
                    out[s] = fd.get("id")
    return out


KNOWN = _known_sites()


def _known_native():
    """signatures `Class@file.py:function` of native-search failures recorded as known findings (entries of property
    C14 with a `native` list): skipped by the search, so that any OTHER internal error / timeout is still reported"""
    out = set()
    paths = [os.path.join(VERIF, "known_findings.json")]
    if os.environ.get("PYVC_C14_PROPOSED"):
        paths.append(os.path.join(VERIF, "findings", "c14_proposed_known_findings.json"))
    for p in paths:
        try:
            with open(p) as f:
                d = json.load(f)
        except (OSError, ValueError):
            continue
        for fd in d.get("findings", []):
            if fd.get("property") == "C14":
                out |= set(fd.get("native", []))
    return out


KNOWN_NATIVE = _known_native()


def _native_finding_checks():
    """a recorded finding that only the native search can see (its signature is skipped there) stays visible: one
    obligation per entry runs the entry's demonstration script on the tree under check; it FAILS while the defect is
    present (matched to the known_findings.json entry -> KNOWN-FINDING line) and holds once the defect is gone"""
    try:
        with open(os.path.join(VERIF, "known_findings.json")) as f:
            d = json.load(f)
    except (OSError, ValueError):
        return
    for fd in d.get("findings", []):
        if fd.get("property") != "C14" or not fd.get("native") or not fd.get("demo"):
            continue

        def check(repo, fd=fd):
            import subprocess
            env = dict(os.environ, PYTHONPATH=repo.root, PYTHONDONTWRITEBYTECODE="1")
            try:
                p = subprocess.run(["/venv/bin/python", os.path.join(VERIF, fd["demo"])], capture_output=True, text=True,
                                   timeout=120, env=env, cwd=VERIF)
            except subprocess.TimeoutExpired:
                return False, "demonstration timed out"
            tail = (p.stdout or p.stderr).strip().splitlines()[-1:] or [""]
            return p.returncode == 0, "%s exit %d: %s" % (fd["demo"], p.returncode, tail[0][:200])
        REG.static_checks.append(("C14", "recorded native finding %s is absent (its signature %s is skipped by the native search)"
                                  % (fd["id"], fd["native"]), check))


_native_finding_checks()


def _split_known(info, els):
    e = info["e"]
    new = [el for el in els if e.site_key(el) not in KNOWN]
    old = sorted(set(e.site_key(el) for el in els if e.site_key(el) in KNOWN))
    return new, old


def _entry_check(k):
    def check(repo):
        info = _analysis(repo)
        if k not in info["e"].summary:
            return True, "%s does not exist in this tree (verb handled by buildGeneric)" % k
        new, old = _split_known(info, _violations(info, k))
        note = (" [excluded, recorded as known findings: %s]" % "; ".join(old)) if old else ""
        if not new:
            esc = sorted(set(el[0] for el in info["e"].summary[k]))
            return True, "classes escaping %s: %s%s" % (k, esc, note)
        return False, "escaping %s: %s%s" % (k, _fmt(new), note)
    return check


def _build_family_check(fam, roots):
    def check(repo):
        info = _analysis(repo)
        e = info["e"]
        els = [el for el in _violations(info, "Builder.build") if any(r in e.ancestors(e._canon(el[0])) for r in roots)]
        new, old = _split_known(info, els)
        note = (" [excluded, recorded as known findings: %s]" % "; ".join(old)) if old else ""
        if not new:
            return True, "no %s in the escape set of Builder.build (dispatch linked to %d verb methods)%s" % (
                fam, len(set(info["verb_methods"].values())), note)
        return False, "escaping Builder.build: %s%s" % (_fmt(new), note)
    return check


def _build_other_check(repo):
    info = _analysis(repo)
    e = info["e"]
    roots = [r for rs in FORBIDDEN_ROOTS.values() for r in rs]
    els = [el for el in _violations(info, "Builder.build") if not any(r in e.ancestors(e._canon(el[0])) for r in roots)]
    new, old = _split_known(info, els)
    note = (" [excluded, recorded as known findings: %s]" % "; ".join(old)) if old else ""
    if not new:
        return True, "nothing else escapes Builder.build%s" % note
    return False, "escaping Builder.build: %s%s" % (_fmt(new), note)


def _unreached_check(repo):
    info = _analysis(repo)
    els = []
    for k in info["unreached"]:
        els += [el for el in _violations(info, k, helper=True) if el[1] == k]
    new, old = _split_known(info, els)
    note = (" [excluded, recorded as known findings: %s]" % "; ".join(old)) if old else ""
    if not new:
        return True, "methods no entry reaches: %s%s" % (info["unreached"] or "none", note)
    return False, "in methods no entry reaches: %s%s" % (_fmt(new), note)


def _enumeration(repo):
    """the obligations below are generated per verb of the CURRENT VerbList at import time (from /repo); a run on
    another root must see the same entries, otherwise an entry would go unchecked"""
    info = _analysis(repo)
    have = set(_ENTRY_NAMES)
    want = set(info["entries"])
    bad = sorted(want - have)
    return (not bad), ("entries without an obligation: %s" % bad) if bad else \
        "%d functions analysed (%d methods of Builder, %d module functions); %d verbs -> %d verb methods; converters: %s; dynamic scope uses: %s" % (
            len(info["funcs"]), sum(1 for k in info["funcs"] if "." in k), sum(1 for k in info["funcs"] if "." not in k),
            len(info["verbs"]), len(set(info["verb_methods"].values())), info["converters"], info["dynamic"] or "none")


def _site_absent(site):
    def check(repo):
        info = _analysis(repo)
        e = info["e"]
        for k in info["funcs"]:
            for el in e.summary[k]:
                if e.site_key(el) == site and (el[1] == k or k in info["entries"]):
                    return False, "site present at line %d: %s" % (el[2], site)
        return True, "site absent (repaired): %s" % site
    return check


def _build_shape(repo):
    """Builder.build: a ParseError of a verb is printed and re-raised, a ResolveError and an IOError are reported by
    `return False`, open files are closed in `finally`"""
    fn = repo.func(B, "Builder.build")
    bad = []
    handlers = {}
    for n in ast.walk(fn):
        if isinstance(n, ast.ExceptHandler):
            handlers.setdefault(ast.unparse(n.type) if n.type else "bare", []).append(n)
    for cls, want in (("excepting.ResolveError", "return False"), ("IOError", "return False"), ("excepting.ParseError", "raise")):
        hs = handlers.get(cls)
        if not hs:
            bad.append("no handler for %s" % cls)
            continue
        for h in hs:
            if ast.unparse(h.body[-1]) != want:
                bad.append("handler for %s at line %d ends with `%s`, expected `%s`" % (cls, h.lineno, ast.unparse(h.body[-1])[:40], want))
    for cls in handlers:
        if cls not in ("excepting.ResolveError", "IOError", "excepting.ParseError"):
            bad.append("unexpected handler for %s" % cls)
    if not any(isinstance(n, ast.Try) and n.finalbody for n in ast.walk(fn)):
        bad.append("no finally block closing the open files")
    return (not bad), "; ".join(bad) or "ParseError: printed and re-raised; ResolveError / IOError: return False; files closed in finally"


def _inventory(repo):
    info = _analysis(repo)
    return True, "callees assumed not to raise: %s" % sorted(info["e"].unknown_callees)


def _discharged(repo):
    info = _analysis(repo)
    d = info["e"].discharged
    return bool(d), "subscripts / calls discharged by a guard rule: %s" % json.dumps(d, sort_keys=True)


def _register():
    from pyvc.source import Repo
    repo = Repo(os.environ.get("PYVC_ROOT", "/repo"))
    info = _analysis(repo)
    names_ = []
    for k in info["entries"]:
        if k == "Builder.build":
            continue
        names_.append(k)
        REG.static_checks.append(("C14", "only script errors escape %s" % k, _entry_check(k)))
    for fam, roots in FORBIDDEN_ROOTS.items():
        REG.static_checks.append(("C14", "no %s escapes Builder.build" % fam, _build_family_check(fam, roots)))
    REG.static_checks.append(("C14", "nothing else outside the script errors escapes Builder.build", _build_other_check))
    names_.append("Builder.build")
    REG.static_checks.append(("C14", "helper methods no entry reaches contain no internal-error site", _unreached_check))
    REG.static_checks.append(("C14", "every verb of VerbList has an obligation (enumeration from the AST)", _enumeration))
    REG.static_checks.append(("C14", "Builder.build reports script errors: ParseError re-raised, ResolveError / IOError -> False", _build_shape))
    for site in sorted(KNOWN):
        REG.static_checks.append(("C14", "site is absent: %s" % site, _site_absent(site)))
    _cache.clear()
    return names_


_ENTRY_NAMES = _register()


# ---- canary ------------------------------------------------------------------------------------------------------
def _canary(repo):
    """vacuity guard: the same analysis run on functions written here must report every planted escape and must
    filter / discharge what the handlers and guards cover"""
    from pyvc.escape import EscapesX
    from pyvc import names
    src = (
        "TABLE = {'a': 1}\n"
        "def helper(tokens, index):\n"
        "    word = tokens[index]\n"                       # IndexError by design (propagating)
        "    return word, index + 1\n"
        "def verb_ok(tokens, index, d):\n"
        "    try:\n"
        "        word, index = helper(tokens, index)\n"
        "        if word not in d:\n"
        "            raise ParseError('x')\n"
        "        v = d[word]\n"                            # guarded
        "        while index < len(tokens):\n"
        "            t = tokens[index]\n"                  # guarded
        "            index += 1\n"
        "    except IndexError:\n"
        "        raise ParseError('not enough tokens')\n"
        "    return v\n"
        "def verb_bad(tokens, index, d):\n"
        "    word, index = helper(tokens, index)\n"        # call outside the try: IndexError escapes
        "    try:\n"
        "        v = d[word]\n"                            # unknown receiver: LookupError, not caught by IndexError
        "        n = int(word)\n"                          # ValueError
        "        msg = 'bad %s' % (word, index)\n"         # TypeError (arity)
        "    except IndexError:\n"
        "        raise ParseError(mesage)\n"               # NameError: misspelt
        "    return v\n")
    tree = ast.parse(src)
    e = EscapesX(repo, {}, list_names=["tokens"])
    ns = {}
    modnames = {"TABLE", "helper", "verb_ok", "verb_bad", "ParseError"}
    for fn in tree.body:
        if isinstance(fn, ast.FunctionDef):
            e.funcs[fn.name] = ("(canary)", fn.name)
            e.nodes[fn.name] = fn
            e.rel[fn.name] = "(canary)"
            e.summary[fn.name] = set()
            e.sites[fn.name] = []
            ns[fn.name] = names.unbound_names(repo, "(canary)", fn, modnames)
    e._globals["(canary)"] = {}
    e.name_sites = ns
    e.run()
    ok_set = sorted(set(el[0] for el in e.summary["verb_ok"]))
    bad_set = sorted(set(el[0] for el in e.summary["verb_bad"]))
    ok = ok_set == ["ParseError"] and bad_set == ["IndexError", "LookupError", "NameError", "ParseError", "TypeError", "ValueError"] \
        and sorted(set(el[0] for el in e.summary["helper"])) == ["IndexError"]
    return ok, "helper: %s; verb_ok: %s; verb_bad: %s" % (sorted(set(el[0] for el in e.summary["helper"])), ok_set, bad_set)


REG.static_checks.append(("C14", "canary: planted IndexError / LookupError / ValueError / TypeError / NameError escapes are reported, guarded and caught ones are not", _canary))
REG.static_checks.append(("C14", "inventory of callees assumed not to raise (always holds; the list is the assumption)", _inventory))
REG.static_checks.append(("C14", "the guard rules discharge subscripts of the real code (the rules are exercised, not vacuous)", _discharged))

REG.assume_note("C14 exception-escape analysis (pyvc/escape.py:EscapesX, pyvc/names.py): raising operations come from a "
                "fixed table (subscripts, int/float/complex, tuple-unpack of split / of an analysed helper, .index, "
                "list.remove, dict.pop, getattr without default, open / chdir / import_module, %-format and str.format "
                "arity, max / int / ordering of a possibly complex converter result, assert, explicit raise); every "
                "callee outside building.py (inventory obligation: Store / Share / Frame / Framer / House / Act / "
                "Logger / Server methods and constructors, console, str / list / dict methods, re) is ASSUMED not to "
                "raise; `tokens` is a list of str; Builder.dispatch is only called by Builder.build; `self.<attr>` "
                "is only written by methods of Builder; TypeError / AttributeError from ill-typed values beyond the "
                "listed forms, RecursionError, MemoryError and asynchronous exceptions are not modelled; the resolve "
                "step (house.resolve()) is outside the static analysis; termination is not proved")


# ---- native search on the real Builder ----------------------------------------------------------------------------
KEYWORDS = ["to", "by", "with", "from", "per", "for", "cum", "qua", "via", "as", "at", "in", "of", "on", "re", "is", "if", "be",
            "into", "and", "not", "+-", "==", "<", "<=", ">=", ">", "!=", "me", "next", "prev", "frame", "framer", "house",
            "done", "running", "updated", "changed", "elapsed", "recurred", "active", "inactive", "aux", "slave", "moot",
            "front", "mid", "back", "value", "mine", "all", "first", "last", "text", "binary", "update", "streak", "deck"]
NUMBERS = ["0", "1", "-1", "2.5", "1e3", "0x1f", "1j", "nan", "inf", "-inf", "1e999", "007", "1.2.3", "12N30.5", "33S10.0"]
QUOTED = ['"hello world"', "'x'", '""', '"a', "a:b:c", "a:b", ":", "1:2", ".a.b", "a.b.", "..", ".", "framer.me.frame.me.x",
          "x.y.z", "(1,2)", "x,y", "1,2,3", "#", "$", "?", "\\"]
PUNCT = ["(", ")", ",", ";", "=", "-", "+", "*", "/", "'", '"', "[", "]"]


def _seeds(root):
    out = []
    for base, _dirs, files in os.walk(os.path.join(root, "ioflo")):
        for f in sorted(files):
            if f.endswith(".flo"):
                try:
                    with open(os.path.join(base, f)) as fh:
                        txt = fh.read()
                except (OSError, UnicodeDecodeError):
                    continue
                if len(txt) < 6000:
                    out.append((os.path.join(base, f), txt))
    out.sort()
    out.append(("(inline)", "house h\nframer f be active first a\nframe a\n  print hi\n  go next if elapsed >= 1\nframe b\n  done me\n"))
    return out


def mutate_script(rng, text, verbs):
    lines = text.split("\n")

    def pick_line():
        idx = [i for i, l in enumerate(lines) if l.strip() and not l.strip().startswith("#")]
        return rng.choice(idx) if idx else None

    for _ in range(rng.choice((1, 1, 1, 2, 3))):
        i = pick_line()
        if i is None:
            break
        toks = lines[i].split(" ")
        real = [j for j, t in enumerate(toks) if t]
        op = rng.randrange(13)
        if op == 0 and real:                                   # drop a token
            del toks[rng.choice(real)]
        elif op == 1 and real:                                 # duplicate a token
            j = rng.choice(real)
            toks.insert(j, toks[j])
        elif op == 2 and len(real) >= 2:                       # swap two tokens
            a, b = rng.sample(real, 2)
            toks[a], toks[b] = toks[b], toks[a]
        elif op == 3 and real:                                 # truncate the line
            del toks[rng.choice(real):]
        elif op == 4 and real:                                 # replace a token
            toks[rng.choice(real)] = rng.choice(rng.choice((KEYWORDS, NUMBERS, QUOTED, PUNCT, verbs)))
        elif op == 5:                                          # insert a token
            toks.insert(rng.randrange(len(toks) + 1), rng.choice(rng.choice((KEYWORDS, NUMBERS, QUOTED, PUNCT))))
        elif op == 6:                                          # swap clause order: rotate the tail after the verb
            if len(real) > 3:
                cut = rng.choice(real[2:])
                toks = toks[:real[1]] + toks[cut:] + [" "] + toks[real[1]:cut]
        elif op == 7:                                          # swap two lines
            k = pick_line()
            lines[i], lines[k] = lines[k], lines[i]
            continue
        elif op == 8:                                          # drop the line
            del lines[i]
            continue
        elif op == 9:                                          # dangling / cyclic frame references
            fr = [l.split()[1] for l in lines if l.strip().startswith("frame ") and len(l.split()) > 1]
            tgt = rng.choice(fr) if fr and rng.randrange(2) else "nosuchframe"
            ind = lines[i][:len(lines[i]) - len(lines[i].lstrip())]
            lines.insert(i + 1, ind + rng.choice(["over %s", "under %s", "next %s", "go %s", "aux %s", "frame x%d in %%s" % i,
                                                  "go %s if elapsed >= 1", "first %s"]) % tgt)
            continue
        elif op == 10 and real:                                # mutate a frame declaration into a cycle
            fr = [j for j, l in enumerate(lines) if l.strip().startswith("frame ") and len(l.split()) > 1]
            if len(fr) >= 2:
                a, b = rng.sample(fr, 2)
                na, nb = lines[a].split()[1], lines[b].split()[1]
                lines[a] = lines[a].split("frame")[0] + "frame %s in %s" % (na, nb)
                lines[b] = lines[b].split("frame")[0] + "frame %s in %s" % (nb, na)
            continue
        elif op == 11 and real:                                # new verb with the old operands
            toks[real[0]] = rng.choice(verbs)
        elif op == 12:                                         # a line of arbitrary tokens
            lines.insert(i, " ".join(rng.choice(rng.choice((KEYWORDS, NUMBERS, QUOTED, PUNCT, verbs))) for _ in range(rng.randrange(1, 7))))
            continue
        lines[i] = " ".join(toks)
    return "\n".join(lines)


class _Timeout(BaseException):
    pass


def build_script(text, limit=5):
    """build one script with the real Builder in a scratch directory; returns (outcome, detail)"""
    import signal
    import tempfile
    import traceback
    from ioflo.base import building, housing, excepting
    d = tempfile.mkdtemp(prefix="c14_")
    cwd = os.getcwd()
    path = os.path.join(d, "s.flo")
    with open(path, "w") as f:
        f.write(text)

    stack = []

    def on_alarm(_sig, frame):
        f = frame
        while f is not None and len(stack) < 6:
            stack.append("%s:%s" % (os.path.basename(f.f_code.co_filename), f.f_code.co_name))
            f = f.f_back
        raise _Timeout()
    old = signal.signal(signal.SIGALRM, on_alarm)
    try:
        os.chdir(d)
        housing.House.Clear()
        housing.ClearRegistries()
        signal.alarm(limit)
        try:
            r = building.Builder(fileName=path).build()
            return ("built" if r else "failure reported"), None
        except (excepting.ParseError, excepting.ResolveError) as ex:
            return "script error", type(ex).__name__
        except _Timeout:
            return "TIMEOUT", "build did not finish within %d s [%s]" % (limit, " < ".join(stack))
        except RecursionError as ex:
            return "INTERNAL", "RecursionError"
        except BaseException as ex:
            tb = traceback.extract_tb(ex.__traceback__)
            where = "%s:%s line %d" % (os.path.basename(tb[-1].filename), tb[-1].name, tb[-1].lineno) if tb else "?"
            if isinstance(ex, ValueError) and not isinstance(ex, UnicodeError) and tb and tb[-1].name.startswith("Convert2"):
                return "script error", "ValueError of the literal converter %s" % tb[-1].name
            return "INTERNAL", "%s: %s [%s]" % (type(ex).__name__, str(ex)[:120], where)
        finally:
            signal.alarm(0)
    finally:
        signal.signal(signal.SIGALRM, old)
        os.chdir(cwd)
        import shutil
        shutil.rmtree(d, ignore_errors=True)


def _is_known_native(out, detail):
    """`Class@file.py:function` for an internal error (innermost frame), `TIMEOUT@file.py:function` for a timeout
    (any of the innermost frames at the alarm)"""
    detail = detail or ""
    locs = detail.split("[")[-1].rstrip("]")
    if out == "TIMEOUT":
        return any(("TIMEOUT@" + fr.strip()) in KNOWN_NATIVE for fr in locs.split(" < "))
    cls = detail.split(":")[0]
    return ("%s@%s" % (cls, locs.split(" line ")[0])) in KNOWN_NATIVE


def native_search(root, rng, n):
    import io
    import sys
    from ioflo.aid.consoling import getConsole
    con = getConsole()
    verbosity = con._verbosity
    con.reinit(verbosity=con.Wordage.mute)
    saved = sys.stdout, sys.stderr
    sys.stdout, sys.stderr = io.StringIO(), io.StringIO()
    fails, ev, seen = [], 0, set()
    try:
        seeds = _seeds(root)
        verbs = None
        from ioflo.base import building
        verbs = list(building.VerbList)
        # every seed itself must build or be reported
        for name, txt in seeds:
            ev += 1
            out, detail = build_script(txt)
            if out in ("INTERNAL", "TIMEOUT") and not _is_known_native(out, detail):
                fails.append({"inputs": {"script": txt, "seed": name}, "outcome": out, "exception": detail,
                              "failed_clauses": ["building terminates with success or a script error"]})
        for i in range(min(n, 1500)):
            if len(fails) >= 3:
                break                      # enough witnesses (the report keeps three; a replay needs one)
            name, txt = rng.choice(seeds)
            script = mutate_script(rng, txt, verbs)
            ev += 1
            out, detail = build_script(script)
            if out in ("INTERNAL", "TIMEOUT"):
                if _is_known_native(out, detail):
                    continue
                key = (out, (detail or "").split("[")[-1].split(" line ")[0])
                if key in seen:
                    continue
                seen.add(key)
                fails.append({"inputs": {"script": script, "seed": name}, "outcome": out, "exception": detail,
                              "failed_clauses": ["building terminates with success or a script error"]})
    finally:
        sys.stdout, sys.stderr = saved
        con.reinit(verbosity=verbosity)
    return ev, fails


def _static_functions():
    from pyvc.source import Repo
    m = Repo(os.environ.get("PYVC_ROOT", "/repo")).module(B)
    return ["%s:%s" % (B, q) for q in m.functions if (q.startswith("Builder.") and q.count(".") == 1) or ("." not in q and q != "Test")]


REG.static_functions["C14"] = _static_functions()
REG.native_searches.append(("C14", "token-level mutations of the example plans built by the real Builder (bounded: per-build 5 s alarm)",
                            native_search))
