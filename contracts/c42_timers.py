"""C42 timers: Timer / MonoTimer / StoreTimer  (ioflo/aid/timing.py)

Clock contract (external, assumed): time.time() returns any real >= 0; the value read by the
call under verification is the ghost `now`.  The store clock is `self.store.stamp` (None or a real >= 0).
Class invariant of Timer/StoreTimer (proved established by __init__/restart and preserved by every
mutator):  start >= 0, duration >= 0, stop == start + duration.   MonoTimer's start/stop may be
shifted below zero by the retrograde compensation, so its invariant is the weaker INV_M.
"""
from pyvc.api import *
import z3
import time as _time

F = "ioflo/aid/timing.py"

classdecl("Timer", file=F, fields=dict(start=REAL, stop=REAL, duration=REAL))
classdecl("MonoTimer", file=F, fields=dict(start=Opt(REAL), stop=Opt(REAL), duration=REAL, latest=REAL, retro=BOOL))
classdecl("StoreLike", fields=dict(stamp=Opt(REAL)))
classdecl("StoreTimer", file=F, fields=dict(start=REAL, stop=REAL, duration=REAL, store=Ref("StoreLike")))

REG.assume_note("external time.time(): assumed to return an arbitrary real >= 0 on every call (any clock trace, "
                "including backward jumps); store clock: store.stamp is None or an arbitrary real >= 0")


def clock_setup(E):
    now = E.fresh("now", z3.RealSort())
    E.assume(now >= 0)
    E.ghost["now"] = Sym(now, "real")
    E.ghost["_clock_reads"] = 0


@external("time.time", obj=_time.time)
def _ext_time(E, args, kwargs):
    n = E.ghost.get("_clock_reads", 0)
    E.ghost["_clock_reads"] = n + 1
    if n == 0 and "now" in E.ghost:
        return E.ghost["now"]
    t = E.fresh("clock", z3.RealSort())
    E.assume(t >= 0)
    v = Sym(t, "real")
    E.ghost["now"] = v
    return v


INV = "self.start >= 0 and self.duration >= 0 and self.stop == self.start + self.duration"
INV_M = ("self.start is not None and self.stop is not None and self.duration >= 0 and self.latest >= 0 "
         "and self.stop == self.start + self.duration")


# ------------------------------------------------------------------ native doubles
class _FakeTimeMod:
    def __init__(self, readings):
        self.readings = list(readings)
        self.last = None

    def time(self):
        self.last = self.readings.pop(0) if self.readings else self.last
        return self.last


def _dy(rng, lo=0, hi=4000):
    return rng.randint(lo * 8, hi * 8) / 8.0


def _mk(clsname, init_fields, params=()):
    def make(rng, i, cex, nr):
        mod = nr.mod
        cls = getattr(mod, clsname)
        obj = object.__new__(cls)
        env = {"self": obj}
        fields = init_fields(rng, i)
        now = _dy(rng)
        later = [_dy(rng) for _ in range(3)]
        if cex:
            from pyvc.native import from_cex
            fs = (cex.get("self") or {}).get("fields", {})
            for k, v in fs.items():
                if k == "store":
                    st = (v or {}).get("fields", {}).get("stamp")
                    fields["store"] = type("StoreDouble", (), {})()
                    fields["store"].stamp = from_cex(st)
                else:
                    fields[k] = from_cex(v)
            fr = cex.get("fresh", {})
            if "now!0" in fr:
                now = from_cex(fr["now!0"])
            later = [from_cex(fr[k]) for k in sorted(fr) if k.startswith("clock!")] or later
        for k, v in fields.items():
            setattr(obj, k, v)
        fake = _FakeTimeMod([now] + later)
        mod.time = fake
        env["__fake"] = fake
        env["__now"] = now
        from pyvc.values import Ty
        from pyvc.native import gen_value
        for name, ty in nr.params.items():
            if name == "self":
                continue
            if cex and name in cex.get("params", {}):
                env[name] = from_cex(cex["params"][name])
            elif isinstance(ty, Ty):
                env[name] = gen_value(rng, ty, i + 3)
        return env
    return make


def _view(env, nr):
    return {"now": env["__now"]}


def _timer_fields(rng, i):
    start = _dy(rng)
    dur = _dy(rng, 0, 100)
    return dict(start=start, duration=dur, stop=start + dur)


def _mono_fields(rng, i):
    d = _timer_fields(rng, i)
    if rng.random() < 0.3:
        d["start"] = d["start"] - 5000.0
        d["stop"] = d["start"] + d["duration"]
    d["latest"] = _dy(rng)
    d["retro"] = bool(rng.randint(0, 1))
    return d


def _store_fields(rng, i):
    d = _timer_fields(rng, i)
    st = type("StoreDouble", (), {})()
    st.stamp = _dy(rng)
    d["store"] = st
    return d


NT = dict(make=_mk("Timer", _timer_fields), view=_view)
NM = dict(make=_mk("MonoTimer", _mono_fields), view=_view)
NS = dict(make=_mk("StoreTimer", _store_fields), view=_view)

# ------------------------------------------------------------------ Timer
RESTART_POST = [
    "implies(start is not None, self.start == abs(start))",
    "implies(duration is not None, self.duration == abs(duration))",
    "implies(duration is None, self.duration == old(self.duration))",
    "self.stop == self.start + self.duration",
    "result == (self.start, self.stop)",
]

contract(F, "Timer.__init__", "C42", params=dict(self=Ref("Timer"), duration=REAL), setup=clock_setup,
         modifies=["self.start", "self.stop", "self.duration"],
         ensures=[INV, "self.start == now", "self.duration == abs(duration)"], replay=NT)
contract(F, "Timer.getElapsed", "C42", params=dict(self=Ref("Timer")), setup=clock_setup, requires=[INV],
         ensures=["result == max(0, now - self.start)", "result >= 0"], returns=REAL, replay=NT)
contract(F, "Timer.getRemaining", "C42", params=dict(self=Ref("Timer")), setup=clock_setup, requires=[INV],
         ensures=["result == max(0, self.stop - now)", "result >= 0"], returns=REAL, replay=NT)
contract(F, "Timer.getExpired", "C42", params=dict(self=Ref("Timer")), setup=clock_setup, requires=[INV],
         ensures=["result == (now >= self.stop)"], returns=BOOL, replay=NT)
contract(F, "Timer.restart", "C42", params=dict(self=Ref("Timer"), start=Opt(REAL), duration=Opt(REAL)),
         setup=clock_setup, requires=["implies(duration is None, self.duration >= 0)"],
         modifies=["self.start", "self.stop", "self.duration"],
         ensures=RESTART_POST + [INV, "implies(start is None, self.start == now)"],
         returns=Tup(REAL, REAL), replay=NT)
contract(F, "Timer.repeat", "C42", params=dict(self=Ref("Timer")), setup=clock_setup, requires=[INV],
         modifies=["self.start", "self.stop", "self.duration"],
         ensures=[INV, "self.start == old(self.stop)", "self.duration == old(self.duration)",
                  "result == (self.start, self.stop)"],
         returns=Tup(REAL, REAL), replay=NT)
contract(F, "Timer.extend", "C42", params=dict(self=Ref("Timer"), extension=Opt(REAL)), setup=clock_setup,
         requires=[INV], modifies=["self.start", "self.stop", "self.duration"],
         ensures=[INV, "self.start == old(self.start)",
                  "implies(extension is None, self.duration == 2 * old(self.duration))",
                  "implies(extension is not None, self.duration == abs(old(self.duration) + extension))",
                  "result == (self.start, self.stop)"],
         returns=Tup(REAL, REAL), replay=NT)

# ------------------------------------------------------------------ StoreTimer (clock = store stamp)
STAMP = "self.store.stamp is not None and self.store.stamp >= 0"
contract(F, "StoreTimer.__init__", "C42", params=dict(self=Ref("StoreTimer"), store=Ref("StoreLike"), duration=REAL),
         requires=["implies(store.stamp is not None, store.stamp >= 0)"],
         modifies=["self.start", "self.stop", "self.duration", "self.store"],
         ensures=[INV, "self.store is store", "self.duration == abs(duration)",
                  "implies(store.stamp is not None, self.start == store.stamp)",
                  "implies(store.stamp is None, self.start == 0)"])
contract(F, "StoreTimer.getElapsed", "C42", params=dict(self=Ref("StoreTimer")), requires=[INV, STAMP],
         ensures=["result == max(0, self.store.stamp - self.start)", "result >= 0"], returns=REAL, replay=NS)
contract(F, "StoreTimer.getRemaining", "C42", params=dict(self=Ref("StoreTimer")), requires=[INV, STAMP],
         ensures=["result == max(0, self.stop - self.store.stamp)", "result >= 0"], returns=REAL, replay=NS)
contract(F, "StoreTimer.getExpired", "C42", params=dict(self=Ref("StoreTimer")),
         requires=[INV, "implies(self.store.stamp is not None, self.store.stamp >= 0)"],
         ensures=["result == (self.store.stamp is not None and self.store.stamp >= self.stop)"],
         returns=BOOL, replay=NS)
contract(F, "StoreTimer.restart", "C42",
         params=dict(self=Ref("StoreTimer"), start=Opt(REAL), duration=Opt(REAL)),
         requires=["implies(duration is None, self.duration >= 0)", "implies(start is None, " + STAMP + ")"],
         modifies=["self.start", "self.stop", "self.duration"],
         ensures=RESTART_POST + [INV, "implies(start is None, self.start == self.store.stamp)"],
         returns=Tup(REAL, REAL), replay=NS)
contract(F, "StoreTimer.repeat", "C42", params=dict(self=Ref("StoreTimer")), requires=[INV],
         modifies=["self.start", "self.stop", "self.duration"],
         ensures=[INV, "self.start == old(self.stop)", "self.duration == old(self.duration)",
                  "result == (self.start, self.stop)"],
         returns=Tup(REAL, REAL), replay=NS)
contract(F, "StoreTimer.extend", "C42", params=dict(self=Ref("StoreTimer"), extension=Opt(REAL)),
         requires=[INV], modifies=["self.start", "self.stop", "self.duration"],
         ensures=[INV, "self.start == old(self.start)",
                  "implies(extension is None, self.duration == 2 * old(self.duration))",
                  "implies(extension is not None, self.duration == abs(old(self.duration) + extension))",
                  "result == (self.start, self.stop)"],
         returns=Tup(REAL, REAL), replay=NS)

# ------------------------------------------------------------------ MonoTimer
# update(): delta = reading - latest.  Retrograde (delta < 0): with compensation start/stop shift by delta,
# without it TimerRetroError; in every non-raising case latest' == the reading.  Callers see the reading as
# the post-state `self.latest`.
UPD_POST = [
    "self.latest >= 0",
    "implies(self.latest >= old(self.latest), self.start == old(self.start) and self.stop == old(self.stop))",
    "implies(self.latest < old(self.latest), self.retro and "
    "self.start == old(self.start) + (self.latest - old(self.latest)) and "
    "self.stop == old(self.stop) + (self.latest - old(self.latest)))",
    # elapsed never decreases across a compensated backward jump
    "self.latest - self.start >= old(self.latest) - old(self.start)",
]
UNCHANGED = ("self.start == old(self.start) and self.stop == old(self.stop) and self.latest == old(self.latest) "
             "and self.duration == old(self.duration)")
RETRO_RAISE = {"TimerRetroError": ["not self.retro", UNCHANGED]}
MONO_MOD = ["self.start", "self.stop", "self.latest"]

contract(F, "MonoTimer.update", "C42", params=dict(self=Ref("MonoTimer")), setup=clock_setup, requires=[INV_M],
         modifies=MONO_MOD, ensures=UPD_POST + [INV_M, "self.latest == now"],
         raises={"TimerRetroError": ["not self.retro", UNCHANGED, "now < old(self.latest)"]}, replay=NM)
contract(F, "MonoTimer.__init__", "C42", params=dict(self=Ref("MonoTimer"), duration=REAL, retro=BOOL),
         setup=clock_setup, modifies=MONO_MOD + ["self.duration", "self.retro"],
         inline=[(F, "MonoTimer.restart"), (F, "MonoTimer.update")],
         ensures=[INV_M, "self.duration == abs(duration)", "self.retro == retro", "self.start >= 0"],
         raises={"TimerRetroError": ["not retro"]}, findings={"init-retro": "retro"}, replay=dict(make=_mk("MonoTimer", lambda rng, i: {}), view=_view),
         note="the second clock reading inside restart() may lie before the first one (retrograde)")
contract(F, "MonoTimer.getElapsed", "C42", params=dict(self=Ref("MonoTimer")), setup=clock_setup,
         requires=[INV_M], modifies=MONO_MOD,
         ensures=UPD_POST + ["result == max(0, self.latest - self.start)", "result >= 0",
                             "result >= max(0, old(self.latest) - old(self.start))"],
         raises=RETRO_RAISE, returns=REAL, replay=NM)
contract(F, "MonoTimer.getRemaining", "C42", params=dict(self=Ref("MonoTimer")), setup=clock_setup,
         requires=[INV_M], modifies=MONO_MOD,
         ensures=UPD_POST + ["result == max(0, self.stop - self.latest)", "result >= 0"],
         raises=RETRO_RAISE, returns=REAL, replay=NM)
contract(F, "MonoTimer.getExpired", "C42", params=dict(self=Ref("MonoTimer")), setup=clock_setup,
         requires=[INV_M], modifies=MONO_MOD,
         ensures=UPD_POST + ["result == (self.latest >= self.stop)"],
         raises=RETRO_RAISE, returns=BOOL, replay=NM)
contract(F, "MonoTimer.restart", "C42",
         params=dict(self=Ref("MonoTimer"), start=Opt(REAL), duration=Opt(REAL)), setup=clock_setup,
         requires=[INV_M], modifies=MONO_MOD + ["self.duration"],
         ensures=["self.latest >= 0", INV_M,
                  "implies(start is not None, self.start == abs(start))",
                  "implies(start is None, self.start == self.latest)",
                  "implies(duration is not None, self.duration == abs(duration))",
                  "implies(duration is None, self.duration == old(self.duration))",
                  "implies(self.latest < old(self.latest), self.retro)",
                  "result == (self.start, self.stop)"],
         raises=RETRO_RAISE, returns=Tup(REAL, REAL), replay=NM)
contract(F, "MonoTimer.repeat", "C42", params=dict(self=Ref("MonoTimer")), setup=clock_setup,
         requires=[INV_M], modifies=MONO_MOD + ["self.duration"],
         ensures=[INV_M, "self.start == old(self.stop)", "self.duration == old(self.duration)",
                  "result == (self.start, self.stop)"],
         findings={"negative-stop": "self.stop < 0"},
         raises=RETRO_RAISE, returns=Tup(REAL, REAL), replay=NM)
contract(F, "MonoTimer.extend", "C42", params=dict(self=Ref("MonoTimer"), extension=Opt(REAL)), setup=clock_setup,
         requires=[INV_M], modifies=MONO_MOD + ["self.duration"],
         ensures=[INV_M, "self.start == old(self.start)",
                  "implies(extension is None, self.duration == 2 * old(self.duration))",
                  "implies(extension is not None, self.duration == abs(old(self.duration) + extension))",
                  "result == (self.start, self.stop)"],
         findings={"negative-start": "self.start < 0"},
         raises=RETRO_RAISE, returns=Tup(REAL, REAL), replay=NM)
