"""C19 share stamps, fields and decks follow their documented rules.

Functions under contract (real source, re-parsed every run), all in ioflo/base/storing.py:
  Share.value (the property SETTER), Share.stampNow, Share.update, Share.change, Share.create,
  Share.__setitem__, Share.__getitem__, Share.__delitem__, Share.__contains__, Share.get / Share.fetch,
  Share.changeStore, Share.push, Share.pull, Deck.gulp, Deck.spew;
  the Data record's `__dict__` is an odict: its mutations go through the VERIFIED odict contracts of C39
  (contracts/c39_odict.py: odict.__setitem__ / __delitem__ are dependencies verified in the same run).

Model
  Share   stamp : None | real;  store : None | Store;  _data : Data;  deck : Deck;  name
  Store   stamp : None | real                       (`self.store.stamp` with store None is the AttributeError path
                                                     of the `try`, exactly as in Python)
  Data    the record.  `record.__dict__` is the SAME reference seen as class DataDict = odict instantiated with
          field names (str) as keys and an opaque value sort: `_keys` (insertion order), `_d` (map), ghost `_pos`
          (C39's position map).  "Fields behave like an insertion-ordered mapping" = the odict invariant holds
          before and after every operation and the key sequence / map change as C39's contracts say.
  Deck    q : the deque contents (list of  None | opaque element).  deque.append / appendleft / popleft / pop are the
          list operations of the engine (library assumption).  `push = deque.append`, `pull = deque.popleft` are
          class-level ALIASES, not functions: a static obligation on the AST checks the two bindings, and the hooks
          behind `deck.push(x)` / `deck.pull()` read the bound deque method from the AST of the tree under check.

Assumed contract + BOUNDED stand-in (never counted as proved): Data.__setattr__ / object.__delattr__ / getattr /
hasattr on a record are metaprogramming outside the executor:
  setattr(record, name, v):  if `name` is a field: the field is replaced (position kept);  else if IDENT(name): the
      field is appended;  else AttributeError and nothing changes - by `record.__dict__.__setitem__` (odict contract).
      IDENT is an uninterpreted predicate ("the record accepts the name"); the statement's rule about it
      ("accepted => public identifier", and ordinary ASCII identifiers are accepted) is checked by the bounded
      stand-in `Data.__setattr__` below on the real class over a stated finite scope.
  delattr(record, name) = object.__delattr__: deletes the entry from the instance-dict STORAGE (a C-level dict
      delete: odict.__delitem__ is not called), AttributeError when absent.
  getattr / hasattr: map lookup / membership.
"""
from pyvc.api import *
from pyvc import builtins_ as B
from pyvc.engine import PyRaise
from contracts.lib import *
from contracts import c39_odict as OD
import re as _re
import z3

FS = "ioflo/base/storing.py"
VAL = Opaque("fieldval")
ELEM = Opaque("elem")            # deck elements; Python None inside a deck is the distinguished value NONE_ELEM
NONE_ELEM = z3.Const("c19_none_elem", opaque_sort("elem"))
PAIR = Tup(STR, VAL)
_S = z3.StringSort()

classdecl("Store", file=FS, fields=dict(stamp=Opt(REAL)))
classdecl("StoreOrNone", fields={})          # what `share.store` evaluates to inside the code: a Store or None
classdecl("DataDict", file=OD.F, bases=("odict",), fields=dict(_keys=List(STR), _d=Dict(STR, VAL), _pos=Dict(STR, INT)))
REG.classes["DataDict"].hooks.update(REG.classes["odict"].hooks)
REG.classes["DataDict"].source = "odict"
classdecl("Data", fields={})
classdecl("Deck", file=FS, fields=dict(q=List(ELEM)))
classdecl("Share", file=FS, fields=dict(name=STR, stamp=Opt(REAL), store=Opt(Ref("Store")), _data=Ref("Data"),
                                        deck=Ref("Deck")))
REG.inline_ok.add("Share.get")

IDENT = z3.Function("c19_ident", _S, z3.BoolSort())
ORDINARY = _re.compile(r'[a-zA-Z][a-zA-Z0-9_]*\Z')        # names the rule certainly accepts


def _ident(key):
    if isinstance(key, str):
        return z3.BoolVal(bool(ORDINARY.match(key)))
    return IDENT(zstr(key))


REG.assume_note("C19 assumed contract of the Data record (Data.__setattr__ / object.__delattr__ / getattr / hasattr "
                "are outside the executor; BOUNDED stand-in below): setattr(record, name, v) replaces an existing "
                "field in place, appends a new field iff the record accepts the name (uninterpreted IDENT; the "
                "literal name 'value' is accepted), else raises AttributeError and changes nothing - performed by "
                "record.__dict__.__setitem__ (odict contract of C39); delattr(record, name) deletes the entry from "
                "the instance-dict storage WITHOUT calling odict.__delitem__ (object.__delattr__), AttributeError "
                "when absent; getattr / hasattr are the map lookup / membership")
REG.assume_note("C19 deque base of Deck: append / appendleft / popleft / pop are the list operations of the engine "
                "(IndexError on an empty deque); field values and deck elements are opaque sorts with equality")


# ---------------------------------------------------------------- hooks
@hook("Data", "getattr", "__dict__")
def _data_dict(E, obj):
    return RefV(obj.t, "DataDict", nn=obj.nn)


@hook("Share", "getattr", "store")
def _share_store(E, obj):
    v = E.rd_field(obj, "store")
    if E.spec:
        return v
    return RefV(v.t, "StoreOrNone", nn=True)


@hook("StoreOrNone", "getattr", "stamp")
def _son_stamp(E, obj):
    if E.branch(obj.t == 0):
        raise PyRaise(ExcV(AttributeError, ("'NoneType' object has no attribute 'stamp'",)))
    return E.rd_field(RefV(obj.t, "Store", nn=True), "stamp")


def _share_method(E, obj, name, args):
    res = E.repo.find_method(FS, "Share", name)
    if not res:
        raise Unsupported("storing.Share has no %s" % name)
    return E.call_func(FuncV(res[0], res[1], res[2], obj), list(args), {})


@hook("Share", "contains")
def _share_contains(E, o, x):
    if E.spec:
        return E.dhas(E.rd_field(_view(E, o), "_d"), x)
    return E.truth(_share_method(E, o, "__contains__", [x]))


@hook("Share", "getitem")
def _share_getitem(E, o, idx):
    if E.spec:
        return E.dget(E.rd_field(_view(E, o), "_d"), idx)
    return _share_method(E, o, "__getitem__", [idx])


def _view(E, share):
    d = E.rd_field(share, "_data")
    return RefV(d.t, "DataDict", nn=True)


def _deque_op(E, deck, alias):
    """the deque method bound to the class-level alias `alias` of storing.Deck in the tree under check"""
    import ast as _ast
    ca = E.repo.class_attr(FS, "Deck", alias)
    if not ca or not (isinstance(ca[1], _ast.Attribute) and isinstance(ca[1].value, _ast.Name)
                      and ca[1].value.id == "deque"):
        raise Unsupported("storing.Deck.%s is not an alias of a deque method" % alias)
    meth = ca[1].attr

    def call(E2, *args, **kw):
        return B.list_method(E2, E2.rd_field(deck, "q"), meth, [_el(a) for a in args], {})
    call._specfunc = True
    return call


def _el(x):
    """Python None as a deck element"""
    return Sym(NONE_ELEM, ("opaque", "elem")) if x is None else x


def _setup_elem(E):
    """a non-None argument is not the representation of None"""
    v = E.frame.env.get("elem")
    if isinstance(v, Sym):
        E.assume(v.t != NONE_ELEM)


for _alias in ("push", "pull"):
    REG.classes["Deck"].hooks[("getattr", _alias)] = (lambda a: lambda E, obj: _deque_op(E, obj, a))(_alias)


def _deque_builtin(meth):
    def attr(E, obj):
        def call(E2, *args, **kw):
            return B.list_method(E2, E2.rd_field(obj, "q"), meth, [_el(a) for a in args], {})
        call._specfunc = True
        return call
    return attr


for _m in ("append", "appendleft", "popleft", "pop"):
    REG.classes["Deck"].hooks[("getattr", _m)] = _deque_builtin(_m)


# ---------------------------------------------------------------- externals: attribute protocol of a record
def _x_setattr(E, args, kwargs):
    obj, key, val = args
    if not (isinstance(obj, RefV) and obj.cls == "Data"):
        raise Unsupported("setattr on %r (line %d)" % (obj, E.cur_line))
    view = RefV(obj.t, "DataDict", nn=True)
    has = E.dhas(E.rd_field(view, "_d"), key)
    if not E.branch(z3.Or(has, _ident(key))):
        raise PyRaise(ExcV(AttributeError, ("Invalid attribute name",)))
    res = E.repo.find_method(OD.F, "odict", "__setitem__")
    E.call_func(FuncV(res[0], res[1], res[2], view), [key, val], {})
    return None


def _x_getattr(E, args, kwargs):
    obj, name = args[0], args[1]
    if isinstance(obj, RefV) and obj.cls == "Data":
        d = E.rd_field(RefV(obj.t, "DataDict", nn=True), "_d")
        if not E.branch(E.dhas(d, name)):
            if len(args) > 2:
                return args[2]
            raise PyRaise(ExcV(AttributeError, (name,)))
        return E.dget(d, name)
    if isinstance(name, str):
        return E.getattr_v(obj, name)
    raise Unsupported("getattr(%r, %r)" % (obj, name))


def _x_hasattr(E, args, kwargs):
    obj, name = args[0], args[1]
    if isinstance(obj, RefV) and obj.cls == "Data":
        return Sym(E.dhas(E.rd_field(RefV(obj.t, "DataDict", nn=True), "_d"), name), "bool")
    if isinstance(obj, ListV) and isinstance(name, str):
        return hasattr([], name)
    if isinstance(obj, RefV) and isinstance(name, str):
        return E.reg.field_type(obj.cls, name) is not None
    raise Unsupported("hasattr(%r, %r)" % (obj, name))


def _x_delattr(E, args, kwargs):
    obj, name = args[0], args[1]
    if not (isinstance(obj, RefV) and obj.cls == "Data"):
        raise Unsupported("delattr on %r" % (obj,))
    d = E.rd_field(RefV(obj.t, "DataDict", nn=True), "_d")
    if not E.branch(E.dhas(d, name)):
        raise PyRaise(ExcV(AttributeError, (name,)))
    E.ddel(d, name)          # object.__delattr__: the dict storage only; `_keys` is NOT touched
    return None


EXT = {setattr: _x_setattr, getattr: _x_getattr, hasattr: _x_hasattr, delattr: _x_delattr}


# ---------------------------------------------------------------- specification vocabulary (with native twins)
@specfunc
def fields_snap(E, share):
    """native only: the (name, value) pairs of the record in key order, the dict storage and the stamp"""
    return None


@specfunc
def deck_snap(E, deck):
    return None


@specfunc
def rec_inv(E, share):
    """the record's key sequence enumerates its key set, each key once (odict invariant of C39)"""
    return OD.inv(E, _view(E, share))


def _And(*xs):
    return Sym(z3.And(*[x.t if isinstance(x, Sym) else (x if z3.is_expr(x) else z3.BoolVal(bool(x))) for x in xs]), "bool")


@specfunc
def fields_same(E, share, _snap=None):
    D = _view(E, share)
    return _And(OD.keys_unchanged(E, D), OD.same_vals_except(E, D, None))


def _old_has(E, D, key):
    heap = E.heap
    E.heap = dict(E.heap_old)
    try:
        return E.dhas(E.rd_field(D, "_d"), key)
    finally:
        E.heap = heap


@specfunc
def fields_put(E, share, key, value, _snap=None):
    """the record afterwards: key -> value; every other field as at entry; an existing field keeps its position, a
    new one is appended at the end"""
    D = _view(E, share)
    d = E.rd_field(D, "_d")
    had = _old_has(E, D, key)
    keys = E.rd_field(D, "_keys")
    grown = is_concat(E, keys, OD.old_keys(E, D), E.list_from_values([key], STR))
    return _And(E.dhas(d, key), E.tobool(E.equal(E.dget(d, key), value)), OD.same_vals_except(E, D, key),
                z3.Implies(had, OD.keys_unchanged(E, D).t), z3.Implies(z3.Not(had), grown.t))


@specfunc
def fields_del(E, share, key, _snap=None):
    """the record afterwards: the field is gone - from the map AND from the key sequence (the other fields keep
    their values and their relative order)"""
    D = _view(E, share)
    d = E.rd_field(D, "_d")
    keys = E.rd_field(D, "_keys")
    return _And(z3.Not(E.dhas(d, key)), OD.same_vals_except(E, D, key),
                OD.removed_at(E, keys, OD.old_keys(E, D), OD.old_pos(E, D, key)))


@specfunc
def has_field(E, share, key):
    return Sym(E.dhas(E.rd_field(_view(E, share), "_d"), key), "bool")


@specfunc
def field(E, share, key):
    return E.dget(E.rd_field(_view(E, share), "_d"), key)


@specfunc
def accepts(E, key):
    """the record accepts `key` as the name of a NEW field (the identifier rule, bounded stand-in)"""
    return Sym(_ident(key), "bool")


@specfunc
def dq(E, deck):
    return E.rd_field(deck, "q")


def _q(E, deck, old=False):
    """(length, element array) of the deque contents in the current / entry heap (no snapshot objects: z3 5.1.0
    answers a spurious `sat` on chains of Store over lambda arrays)"""
    heap = E.heap
    if old:
        E.heap = dict(E.heap_old)
    try:
        lv = E.rd_field(deck, "q")
        return E.llen(lv), E.larrs(lv)[0]
    finally:
        E.heap = heap


@specfunc
def q_same(E, deck, _snap=None):
    (n1, a1), (n0, a0) = _q(E, deck), _q(E, deck, True)
    k = z3.Int("k!qs%d" % next(E.counter))
    return Sym(z3.And(n1 == n0, z3.ForAll([k], z3.Implies(z3.And(k >= 0, k < n0), z3.Select(a1, k) == z3.Select(a0, k)))),
               "bool")


@specfunc
def q_pushed(E, deck, elem, _snap=None):
    """the queue afterwards == the queue at entry ++ [elem]  (added at the RIGHT)"""
    (n1, a1), (n0, a0) = _q(E, deck), _q(E, deck, True)
    k = z3.Int("k!qp%d" % next(E.counter))
    return Sym(z3.And(n1 == n0 + 1, z3.Select(a1, n0) == _el(elem).t,
                      z3.ForAll([k], z3.Implies(z3.And(k >= 0, k < n0), z3.Select(a1, k) == z3.Select(a0, k)))), "bool")


@specfunc
def q_popped(E, deck, result, _snap=None):
    """the queue at entry was non-empty and result is its LEFT-most element"""
    n0, a0 = _q(E, deck, True)
    return Sym(z3.And(n0 > 0, _el(result).t == z3.Select(a0, 0)), "bool")


@specfunc
def q_rest(E, deck, _snap=None):
    """the queue afterwards is the queue at entry without its left-most element (order kept)"""
    (n1, a1), (n0, a0) = _q(E, deck), _q(E, deck, True)
    k = z3.Int("k!qr%d" % next(E.counter))
    return Sym(z3.And(n1 == n0 - 1,
                      z3.ForAll([k], z3.Implies(z3.And(k >= 0, k < n1), z3.Select(a1, k) == z3.Select(a0, k + 1)))), "bool")


@specfunc
def q_was_empty(E, deck, _snap=None):
    return Sym(_q(E, deck, True)[0] == 0, "bool")


@specfunc
def q_first_none(E, deck, _snap=None):
    n0, a0 = _q(E, deck, True)
    return Sym(z3.And(n0 > 0, z3.Select(a0, 0) == NONE_ELEM), "bool")


@specfunc
def no_elem(E, x):
    """x is None (as a Python value or as a deck element)"""
    return x is None or (isinstance(x, Sym) and Sym(x.t == NONE_ELEM, "bool"))


no_elem.native = lambda x: x is None


# native twins -------------------------------------------------------------------------------------------------------
def _n_items(share):
    d = share._data.__dict__
    return [(k, dict.__getitem__(d, k)) for k in d._keys if dict.__contains__(d, k)]


def _n_fields_snap(share):
    d = share._data.__dict__
    return {"keys": list(d._keys), "store": dict(dict.items(d))}


def _n_rec_inv(share):
    d = share._data.__dict__
    return len(d._keys) == len(set(d._keys)) == len(dict.keys(d)) and set(d._keys) == set(dict.keys(d))


def _n_fields_same(share, snap):
    return _n_fields_snap(share) == snap


def _n_fields_put(share, key, value, snap):
    keys = list(snap["keys"]) + ([] if key in snap["store"] else [key])
    store = dict(snap["store"])
    store[key] = value
    return _n_fields_snap(share) == {"keys": keys, "store": store}


def _n_fields_del(share, key, snap):
    store = {k: v for k, v in snap["store"].items() if k != key}
    return _n_fields_snap(share) == {"keys": [k for k in snap["keys"] if k != key], "store": store}


fields_snap.native = _n_fields_snap
rec_inv.native = _n_rec_inv
fields_same.native = _n_fields_same
fields_put.native = _n_fields_put
fields_del.native = _n_fields_del
has_field.native = lambda share, key: dict.__contains__(share._data.__dict__, key)
field.native = lambda share, key: dict.__getitem__(share._data.__dict__, key)
accepts.native = lambda key: isinstance(key, str) and key.isidentifier() and not key.startswith("_")
deck_snap.native = lambda deck: list(deck)
dq.native = lambda deck: list(deck)
q_same.native = lambda deck, snap: list(deck) == snap
q_pushed.native = lambda deck, elem, snap: list(deck) == snap + [elem]
q_popped.native = lambda deck, result, snap: len(snap) > 0 and result is snap[0]
q_rest.native = lambda deck, snap: list(deck) == snap[1:]
q_was_empty.native = lambda deck, snap: len(snap) == 0
q_first_none.native = lambda deck, snap: len(snap) > 0 and snap[0] is None


# ---------------------------------------------------------------- native harness
class _StoreDouble(object):
    pass


_STAMPS = [None, 0.0, 1.0, 2.5, 7.0]
_NAMES = ["value", "a", "b", "c", "depth", "x1"]
_BAD = ["_a", "1a", "a-b", "", " a", "a b", "__x"]
_VALUES = [0, 1, 2, "s", 1.5, None, True, (1, 2)]


def _rnd_share(rng, storing):
    sh = storing.Share(name="c19.share")
    if rng.random() < 0.7:
        st = object.__new__(storing.Store)
        st.name = "c19"
        st.stamp = rng.choice(_STAMPS)
        sh.store = st
    sh.change([(k, rng.choice(_VALUES)) for k in rng.sample(_NAMES, rng.randint(0, 4))])
    sh.stamp = rng.choice(_STAMPS)
    for x in [rng.choice(["e1", "e2", 3, None]) for _ in range(rng.randint(0, 3))]:
        sh.deck.append(x)
    return sh


def _key(rng):
    return rng.choice(_NAMES + _NAMES + _BAD)


def _mk(rng, i, cex, nr):
    import importlib
    storing = importlib.import_module("ioflo.base.storing")
    env = {"self": _rnd_share(rng, storing)}
    for name in nr.params:
        if name in ("key", "field"):
            env[name] = _key(rng)
        elif name in ("value", "default"):
            env[name] = rng.choice(_VALUES)
        elif name == "elem":
            env[name] = rng.choice(["e1", "e2", 3, None, None])
        elif name == "store":
            st = object.__new__(storing.Store)
            st.name = "c19b"
            st.stamp = rng.choice(_STAMPS)
            env[name] = rng.choice([None, st, st, "not a store"])
    return env


def _mk_deck(rng, i, cex, nr):
    import importlib
    storing = importlib.import_module("ioflo.base.storing")
    d = storing.Deck([rng.choice(["e1", "e2", 3]) for _ in range(rng.randint(0, 3))])
    env = {"self": d}
    if "elem" in nr.params:
        env["elem"] = rng.choice(["e1", 0, None, None, False])
    return env


def _call_setter(env, nr):
    env["self"].value = env["value"]


# ---------------------------------------------------------------- contracts
P = dict(self=Ref("Share"))
INV = "rec_inv(self)"
SNAP = "old(fields_snap(self))"
STAMPED = ["implies(self.store is not None, self.stamp == self.store.stamp)",
           "implies(self.store is None, self.stamp is None)"]           # "no stamp without a store"
NOSTAMP = "self.stamp == old(self.stamp)"
FIELDS = ["self._data.__dict__._keys[*]", "self._data.__dict__._d{*}", "self._data.__dict__._pos{*}"]

contract(FS, "Share.stampNow", "C19", params=P, externals=EXT, modifies=["self.stamp"],
         ensures=STAMPED + ["result == self.stamp"], returns=Opt(REAL), replay=dict(make=_mk))

contract(FS, "Share.value", "C19", params=dict(P, value=VAL), externals=EXT, requires=[INV],
         modifies=["self.stamp"] + FIELDS,
         ensures=STAMPED + [INV, "fields_put(self, 'value', value, %s)" % SNAP],
         replay=dict(make=_mk, call=_call_setter), note="the property SETTER (the second `def value` of class Share)")

contract(FS, "Share.__setitem__", "C19", params=dict(P, key=STR, value=VAL), externals=EXT, requires=[INV],
         modifies=FIELDS,
         ensures=[INV, "fields_put(self, key, value, %s)" % SNAP, NOSTAMP,
                  "implies(not old(has_field(self, key)), accepts(key))"],
         raises={"KeyError": ["not old(has_field(self, key)) and not accepts(key)", "fields_same(self, %s)" % SNAP,
                              NOSTAMP, INV]},
         replay=dict(make=_mk))

contract(FS, "Share.__getitem__", "C19", params=dict(P, key=STR), externals=EXT, modifies=[],
         ensures=["has_field(self, key)", "result == field(self, key)"],
         raises={"KeyError": ["not has_field(self, key)"]}, returns=VAL, replay=dict(make=_mk))

contract(FS, "Share.__contains__", "C19", params=dict(P, key=STR), externals=EXT, modifies=[],
         ensures=["result == has_field(self, key)"], returns=BOOL, replay=dict(make=_mk))

contract(FS, "Share.__delitem__", "C19", params=dict(P, key=STR), externals=EXT, requires=[INV], modifies=FIELDS,
         ensures=[INV, "old(has_field(self, key))", "fields_del(self, key, %s)" % SNAP, NOSTAMP],
         raises={"KeyError": ["not old(has_field(self, key))", "fields_same(self, %s)" % SNAP, NOSTAMP]},
         replay=dict(make=_mk),
         note="KeyError: key sequence and map unchanged (the ghost position map of C39's invariant is not program "
              "state; C39's odict.__delitem__ contract does not restate it on its KeyError path)")

contract(FS, "Share.fetch", "C19", params=dict(P, field=STR, default=Opt(VAL)), externals=EXT, modifies=[],
         ensures=["implies(has_field(self, field), result == field_of(self, field))",
                  "implies(not has_field(self, field), result == default)"],
         returns=Opt(VAL), replay=dict(make=_mk))

contract(FS, "Share.changeStore", "C19", params=dict(P, store=Opt(Ref("Store"))), externals=EXT,
         modifies=["self.store"], ensures=["self.store is store", NOSTAMP], replay=dict(make=_mk),
         raises={"ValueError": ["id(self.store) == old(id(self.store))"]},
         note="ValueError for an argument that is not a Store is reachable natively only (the parameter is typed)")

PD = dict(self=Ref("Share"))
contract(FS, "Share.push", "C19", params=dict(PD, elem=ELEM), cases=[dict(elem=ELEM), dict(elem=NONE)],
         setup=_setup_elem, externals=EXT, modifies=["self.deck.q[*]"],
         ensures=["q_pushed(self.deck, elem, old(deck_snap(self.deck)))"], replay=dict(make=_mk))
contract(FS, "Share.pull", "C19", params=PD, externals=EXT, modifies=["self.deck.q[*]"],
         ensures=["q_popped(self.deck, result, old(deck_snap(self.deck)))", "q_rest(self.deck, old(deck_snap(self.deck)))"],
         raises={"IndexError": ["q_was_empty(self.deck, old(deck_snap(self.deck)))",
                                "q_same(self.deck, old(deck_snap(self.deck)))"]},
         returns=ELEM, replay=dict(make=_mk))

PK = dict(self=Ref("Deck"))
DS = "old(deck_snap(self))"
contract(FS, "Deck.gulp", "C19", params=dict(PK, elem=ELEM), cases=[dict(elem=ELEM), dict(elem=NONE)],
         setup=_setup_elem, externals=EXT, modifies=["self.q[*]"],
         ensures=["implies(no_elem(elem), q_same(self, %s))" % DS,
                  "implies(not no_elem(elem), q_pushed(self, elem, %s))" % DS], replay=dict(make=_mk_deck))
contract(FS, "Deck.spew", "C19", params=PK, externals=EXT, modifies=["self.q[*]"],
         ensures=["implies(q_was_empty(self, %s), no_elem(result) and q_same(self, %s))" % (DS, DS),
                  "implies(not q_was_empty(self, %s), q_popped(self, result, %s))" % (DS, DS),
                  "implies(not q_was_empty(self, %s), q_rest(self, %s))" % (DS, DS),
                  # "returns None only when empty" (a None that was pushed by hand is the one exception)
                  "implies(no_elem(result), q_was_empty(self, %s) or q_first_none(self, %s))" % (DS, DS)],
         returns=ELEM, replay=dict(make=_mk_deck))


@specfunc
def field_of(E, share, key):
    return E.dget(E.rd_field(_view(E, share), "_d"), key)


field_of.native = field.native


# ================================================================================================ change / update / create
# Arguments covered: ONE positional sequence of (name, value) pairs of ANY length (loop invariant) followed by 0, 1
# or 2 keyword arguments with arbitrary distinct names (the `cases`; create: 0 or 1 keyword argument - keyword names
# of one call are distinct, so a second one adds paths but no interplay).  Positional dict arguments (iteration over
# a.items()) are not modelled.
def _setup_kwargs(E):
    """top level only: the `**kwa` of the function under verification (the engine binds an empty dict)"""
    if len(E.frames) != 1:
        return
    import re
    m = re.search(r"\[case(\d+)\]", E.ob_prefix or "")
    nk = int(m.group(1)) if m else 0
    kws = {}
    prev = []
    for j in range(nk):
        k = Sym(z3.Const("p_kw%d" % j, _S), "str")
        v = Sym(z3.Const("p_kwv%d" % j, opaque_sort("fieldval")), ("opaque", "fieldval"))
        for p_ in prev:
            E.assume(k.t != p_.t)          # keyword names of one call are pairwise distinct
        prev.append(k)
        kws[k] = v
    E.frame.env["kwa"] = kws


def _given(E, pa, kwa, upto=None):
    """the assignments in call order: (n, K, V) of the positional pair list (first n pairs only if upto) and the
    keyword items"""
    if len(pa) > 1 or (pa and not isinstance(pa[0], ListV)):
        raise Unsupported("change/update/create with positional arguments other than one list of pairs")
    if pa and pa[0].et is not None:
        n = E.llen(pa[0]) if upto is None else zint(upto)
        K, V = E.larrs(pa[0])
    else:
        n, K, V = z3.IntVal(0), z3.K(z3.IntSort(), z3.StringVal("")), None
    kws = [(zstr(k), v.t) for k, v in (kwa or {}).items()] if upto is None else []
    return n, K, V, kws


def _rec(E, share, old=False):
    heap = E.heap
    if old:
        E.heap = dict(E.heap_old)
    try:
        D = _view(E, share)
        keys = E.rd_field(D, "_keys")
        d = E.rd_field(D, "_d")
        return E.llen(keys), E.larrs(keys)[0], E.ddom(d), E.dvals(d)[0]
    finally:
        E.heap = heap


def _fields_after(E, part, share, pa, kwa, upto, first_wins):
    """the record after the assignments, pointwise.  first_wins=False (change / update): every assignment is
    performed, the LAST one to a name decides its value.  first_wins=True (create): only names that are not yet
    fields are assigned, so entry fields keep their value and the FIRST assignment to a new name decides."""
    n, K, V, kws = _given(E, pa, kwa, upto)
    nk, ka, dom, val = _rec(E, share)
    nk0, ka0, dom0, val0 = _rec(E, share, True)
    c = next(E.counter)
    j, j2, m = z3.Int("j!fa%d" % c), z3.Int("j2!fa%d" % c), z3.Int("m!fa%d" % c)
    x = z3.Const("x!fa%d" % c, _S)
    kwkeys = [k for k, _v in kws]
    in_list = lambda y: z3.Exists([j2], z3.And(j2 >= 0, j2 < n, z3.Select(K, j2) == y))
    if part == "present":        # every given name is a field afterwards
        parts = [z3.ForAll([j], z3.Implies(z3.And(j >= 0, j < n), z3.Select(dom, z3.Select(K, j))))]
        parts += [z3.Select(dom, k) for k in kwkeys]
    elif part == "values":
        kj = z3.Select(K, j)
        if first_wins:
            decides = z3.ForAll([j2], z3.Implies(z3.And(j2 >= 0, j2 < j), z3.Select(K, j2) != kj))
            parts = [z3.ForAll([j], z3.Implies(z3.And(j >= 0, j < n, decides, z3.Not(z3.Select(dom0, kj))),
                                               z3.Select(val, kj) == z3.Select(V, j)))] if V is not None else []
            parts += [z3.Implies(z3.And(z3.Not(z3.Select(dom0, k)), z3.Not(in_list(k))), z3.Select(val, k) == v)
                      for k, v in kws]
            parts += [z3.ForAll([x], z3.Implies(z3.Select(dom0, x), z3.And(z3.Select(dom, x),
                                                                          z3.Select(val, x) == z3.Select(val0, x))))]
        else:
            decides = z3.ForAll([j2], z3.Implies(z3.And(j2 > j, j2 < n), z3.Select(K, j2) != kj))
            notkw = z3.And(*[kj != k for k in kwkeys]) if kwkeys else z3.BoolVal(True)
            parts = [z3.ForAll([j], z3.Implies(z3.And(j >= 0, j < n, decides, notkw),
                                               z3.Select(val, kj) == z3.Select(V, j)))] if V is not None else []
            parts += [z3.Select(val, k) == v for k, v in kws]
    elif part == "others":       # a name that was not given is a field iff it was, with the value it had
        notgiven = z3.And(z3.ForAll([j], z3.Implies(z3.And(j >= 0, j < n), z3.Select(K, j) != x)), *[x != k for k in kwkeys])
        parts = [z3.ForAll([x], z3.Implies(notgiven, z3.And(z3.Select(dom, x) == z3.Select(dom0, x),
                                                            z3.Implies(z3.Select(dom0, x),
                                                                       z3.Select(val, x) == z3.Select(val0, x)))))]
    elif part == "order":        # the entry fields keep their positions (new fields go behind them)
        parts = [nk >= nk0, z3.ForAll([m], z3.Implies(z3.And(m >= 0, m < nk0), z3.Select(ka, m) == z3.Select(ka0, m)))]
    elif part == "ident":        # only names the record accepts become new fields
        parts = [z3.ForAll([x], z3.Implies(z3.And(z3.Select(dom, x), z3.Not(z3.Select(dom0, x))), IDENT(x)))]
    else:
        raise Unsupported("fields_after part %r" % part)
    return Sym(z3.And(*parts) if parts else z3.BoolVal(True), "bool")


AFTER_PARTS = ("present", "values", "others", "order", "ident")


@specfunc
def separate(E, share, pa):
    """the positional pair list is not the key list of the record's odict (lists of different element types share
    only the engine's length array)"""
    keys = E.rd_field(_view(E, share), "_keys")
    return Sym(z3.And(*[a.t != keys.t for a in pa if isinstance(a, ListV)]) if pa else z3.BoolVal(True), "bool")


separate.native = lambda share, pa: all(a is not share._data.__dict__._keys for a in pa)


@specfunc
def changed_fields(E, part, share, pa, kwa, _snap=None):
    return _fields_after(E, part, share, pa, kwa, None, False)


@specfunc
def created_fields(E, part, share, pa, kwa, _snap=None):
    return _fields_after(E, part, share, pa, kwa, None, True)


@specfunc
def change_inv(E, part, share, a, i):
    return _fields_after(E, part, share, (a,), None, i, False)


@specfunc
def create_inv(E, part, share, a, i):
    return _fields_after(E, part, share, (a,), None, i, True)


@specfunc
def grew(E, share, _snap=None):
    """a field was added (the key sequence is longer than at entry)"""
    return Sym(_rec(E, share)[0] > _rec(E, share, True)[0], "bool")


def _n_sim(snap, pa, kwa, first_wins):
    keys, store = list(snap["keys"]), dict(snap["store"])
    seq = [kv for a in pa for kv in (a.items() if hasattr(a, "items") else a)] + list(kwa.items())
    for k, v in seq:
        if first_wins and k in store:
            continue
        if k not in store:
            keys.append(k)
        store[k] = v
    return {"keys": keys, "store": store}


changed_fields.native = lambda part, share, pa, kwa, snap: _n_fields_snap(share) == _n_sim(snap, pa, kwa, False)
created_fields.native = lambda part, share, pa, kwa, snap: _n_fields_snap(share) == _n_sim(snap, pa, kwa, True)
grew.native = lambda share, snap: len(share._data.__dict__._keys) > len(snap["keys"])


def _mk_kw(rng, i, cex, nr):
    import importlib
    storing = importlib.import_module("ioflo.base.storing")
    sh = _rnd_share(rng, storing)
    names = _NAMES + (["_a", "1a"] if rng.random() < 0.15 else [])
    pairs = [(rng.choice(names), rng.choice(_VALUES)) for _ in range(rng.randint(0, 4))]
    nk = nr.case or 0
    kws = {k: rng.choice(_VALUES) for k in rng.sample(_NAMES, nk)}
    return {"self": sh, "pa": (pairs,) if (pairs or rng.random() < 0.5) else (), "kwa": kws}


def _call_kw(env, nr):
    return getattr(env["self"], nr.c.qual.split(".")[-1])(*env["pa"], **env["kwa"])


PKW = dict(self=Ref("Share"), pa=("vararg", (List(PAIR),)))
KW_CASES = [{}, {}, {}]          # 0, 1, 2 keyword arguments (see _setup_kwargs)
CH_AFTER = ["changed_fields('%s', self, pa, kwa, %s)" % (p_, SNAP) for p_ in AFTER_PARTS]
CR_AFTER = ["created_fields('%s', self, pa, kwa, %s)" % (p_, SNAP) for p_ in AFTER_PARTS]
CH_LOOP = {2: dict(inv=[INV] + ["change_inv('%s', self, a, _i)" % p_ for p_ in AFTER_PARTS])}
CR_LOOP = {2: dict(inv=[INV, "update == grew(self)"] + ["create_inv('%s', self, a, _i)" % p_ for p_ in AFTER_PARTS],
                   locals={"update": BOOL})}
KW_REPLAY = dict(make=_mk_kw, call=_call_kw, count=300)

contract(FS, "Share.change", "C19", params=PKW, cases=KW_CASES, setup=_setup_kwargs, externals=EXT, requires=[INV],
         assumes=["separate(self, pa)"],
         loops=CH_LOOP, modifies=FIELDS,
         ensures=[INV, NOSTAMP, "result is self"] + CH_AFTER,
         raises={"AttributeError": [INV, NOSTAMP]}, returns=Ref("Share"), replay=KW_REPLAY,
         note="AttributeError: a given name is neither a field nor accepted by the record (fields assigned before it "
              "stay assigned); the stamp is unchanged on every outcome")

contract(FS, "Share.update", "C19", params=PKW, cases=KW_CASES, setup=_setup_kwargs, externals=EXT, requires=[INV],
         assumes=["separate(self, pa)"],
         modifies=FIELDS + ["self.stamp"],
         ensures=[INV, "result is self"] + STAMPED + CH_AFTER,
         raises={"AttributeError": [INV, NOSTAMP]}, returns=Ref("Share"), replay=KW_REPLAY)

contract(FS, "Share.create", "C19", params=PKW, cases=KW_CASES[:2], setup=_setup_kwargs, externals=EXT, requires=[INV],
         assumes=["separate(self, pa)"],
         loops=CR_LOOP, modifies=FIELDS + ["self.stamp"],
         ensures=[INV, "result is self",
                  # stamped exactly when a new field was added
                  "implies(grew(self, %s), %s)" % (SNAP, " and ".join("(%s)" % s_ for s_ in STAMPED)),
                  "implies(not grew(self, %s), %s)" % (SNAP, NOSTAMP)] + CR_AFTER,
         raises={"AttributeError": [INV, NOSTAMP]}, returns=Ref("Share"), replay=KW_REPLAY)


# ================================================================================================ static obligations
def _deck_aliases(repo):
    """storing.Deck binds push to deque.append and pull to deque.popleft (class-level aliases: no FunctionDef)"""
    import ast as _ast
    got = {}
    for alias in ("push", "pull"):
        ca = repo.class_attr(FS, "Deck", alias)
        if ca and isinstance(ca[1], _ast.Attribute) and isinstance(ca[1].value, _ast.Name):
            got[alias] = "%s.%s" % (ca[1].value.id, ca[1].attr)
        else:
            got[alias] = None
    ok = got == {"push": "deque.append", "pull": "deque.popleft"}
    return ok, "Deck.push = %s, Deck.pull = %s" % (got["push"], got["pull"])


REG.static_checks.append(("C19", "Deck.push is deque.append (add at the right) and Deck.pull is deque.popleft (take from "
                                 "the left): FIFO", _deck_aliases))


def _no_identifier_bypass(repo):
    """Data.__setattr__ must not hand a name to object.__setattr__ without the identifier test: with the bypass, a
    name that happens to be a class attribute of Data ('_change', '_sift', '_show', '__doc__', '__init__', ...) is
    accepted although it is not a public identifier, is written into the dict storage only (not into the key
    sequence), and '__dict__' / '__class__' raise TypeError instead of AttributeError"""
    import ast as _ast
    fn = repo.func(FS, "Data.__setattr__")
    for n in _ast.walk(fn):
        if isinstance(n, _ast.Try):
            for st in n.orelse:
                for c in _ast.walk(st):
                    if isinstance(c, _ast.Call) and isinstance(c.func, _ast.Attribute) and c.func.attr == "__setattr__" \
                            and isinstance(c.func.value, _ast.Call) and getattr(c.func.value.func, "id", "") == "super":
                        return False, ("line %d: `super(Data,self).__setattr__(key,value)` is reached for every key "
                                       "that names an existing class attribute, before any identifier test" % c.lineno)
    return True, "no unguarded pass-through to object.__setattr__"


REG.static_checks.append(("C19", "Data.__setattr__ applies the identifier rule to every name (no pass-through of names "
                                 "that are class attributes of Data)", _no_identifier_bypass))


# ================================================================================================ bounded stand-in
# Data.__setattr__ on the REAL class, exhaustively over a stated finite scope (never counted as proved): all strings
# of length <= 3 over the alphabet {a, _, 1, -, ' '} plus a list of tricky names.  Names that are class attributes
# of Data are the subject of the static obligation above and are left out of this scope.
_ALPHA = "a_1- "
_TRICKY = ["value", "_value", "__x", "x_", "x1", "1x", "class", "None", "def", "a.b", "a b", "a\n", "\na", "a\t",
           "é", "aé", "éa", "١", "a١", "A", "Z9_", "a" * 40, "", " ", "-", "é-"]


def _bounded_scope():
    import itertools
    names = [""] + ["".join(t_) for n in (1, 2, 3) for t_ in itertools.product(_ALPHA, repeat=n)]
    out = []
    for s in names + _TRICKY:
        if s not in out:
            out.append(s)
    return out


BOUNDED_SCOPE = _bounded_scope()


@specfunc
def setattr_rule(E, data, key, value, _snap=None):
    return True


@specfunc
def data_snap(E, data):
    return None


def _n_data_snap(data):
    d = data.__dict__
    return {"keys": list(d._keys), "store": dict(dict.items(d))}


def _n_setattr_ok(data, key, value, snap):
    """accepted: the name is a public identifier (or was a field already) and the record is the entry record with
    key -> value (replaced in place / appended)"""
    if not (key in snap["store"] or (key.isidentifier() and not key.startswith("_"))):
        return False
    keys = list(snap["keys"]) + ([] if key in snap["store"] else [key])
    store = dict(snap["store"])
    store[key] = value
    return _n_data_snap(data) == {"keys": keys, "store": store}


def _n_setattr_rejected(data, key, snap):
    """rejected: the name is not an ordinary ASCII identifier [a-zA-Z][a-zA-Z0-9_]* and nothing changed"""
    return not ORDINARY.match(key) and key not in snap["store"] and _n_data_snap(data) == snap


setattr_rule.native = _n_setattr_ok
data_snap.native = _n_data_snap


@specfunc
def setattr_rejected(E, data, key, _snap=None):
    return True


setattr_rejected.native = _n_setattr_rejected


def _mk_bounded(rng, i, cex, nr):
    import importlib
    storing = importlib.import_module("ioflo.base.storing")
    key = BOUNDED_SCOPE[i % len(BOUNDED_SCOPE)]
    pre = [("a", 1)] if (i // len(BOUNDED_SCOPE)) % 2 else []      # second sweep: a record that has the field 'a'
    return {"self": storing.Data(pre), "key": key, "value": i}


def _call_bounded(env, nr):
    setattr(env["self"], env["key"], env["value"])


contract(FS, "Data.__setattr__", "C19", params=dict(self=Ref("Data"), key=STR, value=VAL), verify=False,
         ensures=["setattr_rule(self, key, value, old(data_snap(self)))"],
         raises={"AttributeError": ["setattr_rejected(self, key, old(data_snap(self)))"]},
         replay=dict(make=_mk_bounded, call=_call_bounded, count=2 * len(BOUNDED_SCOPE)),
         note="BOUNDED stand-in, not a proof: the assumed record contract is run on the real class over %d names "
              "(all strings of length <= 3 over {a,_,1,-,space} and %d tricky names), once on an empty record and "
              "once on a record that has the field 'a'" % (len(BOUNDED_SCOPE), len(_TRICKY)))
