"""C41 CRC-16/GENIBUS and CRC-64/WE  (ioflo/aid/checking.py)

Specification = the catalogue bitwise definition (MSB first, not reflected):
  CRC-16/GENIBUS  poly 0x1021             init 0xFFFF              xorout 0xFFFF
  CRC-64/WE       poly 0x42F0E1EBA9EA3693 init 0xFFFFFFFFFFFFFFFF  xorout 0xFFFFFFFFFFFFFFFF
written ONCE below as Python over `+ ^ & <<` and used both on z3 bit-vectors (proof) and on ints (anchored at
import time on the catalogue check values of "123456789").  The real inner loops (8 iterations) are unrolled
completely with branch merging; the outer loop carries the invariant  crc == fold(spec_step, init, prefix).
"""
from pyvc.api import *
import z3

F = "ioflo/aid/checking.py"
W = 64


# ------------------------------------------------------------------ the specification (generic over ints / z3 BV)
def _sel(v, a, b):
    if z3.is_expr(v):
        return z3.If(v != 0, a, b)
    return a if v else b


def step16(crc, byte):
    crc = crc ^ (byte << 8)
    for _ in range(8):
        top = crc & 0x8000
        crc = (crc << 1) & 0xFFFF
        crc = _sel(top, crc ^ 0x1021, crc)
    return crc


M64 = 0xFFFFFFFFFFFFFFFF


def step64(crc, byte):
    crc = crc ^ (byte << 56)
    for _ in range(8):
        top = crc & 0x8000000000000000
        crc = (crc << 1) & M64
        crc = _sel(top, crc ^ 0x42F0E1EBA9EA3693, crc)
    return crc


def crc16_int(data):
    crc = 0xFFFF
    for b in data:
        crc = step16(crc, b)
    return crc ^ 0xFFFF


def crc64_int(data):
    crc = M64
    for b in data:
        crc = step64(crc, b)
    return crc ^ M64


# anchor of the specification itself: catalogue check values
assert crc16_int(b"123456789") == 0xD64E, "CRC-16/GENIBUS spec does not reproduce the catalogue check value"
assert crc64_int(b"123456789") == 0x62EC59E3F1A4F00A, "CRC-64/WE spec does not reproduce the catalogue check value"

_F16 = z3.Function("crc16_fold", SeqInt, z3.IntSort(), z3.BitVecSort(W))
_F64 = z3.Function("crc64_fold", SeqInt, z3.IntSort(), z3.BitVecSort(W))


def _fold(E, fn, step, init, data, k):
    """fold(data, k) = spec state after the first k bytes; each use unfolds the recursive definition one level"""
    s = zbytes(data)
    kk = zint(k)
    kk = z3.simplify(kk)
    km = z3.simplify(kk - 1)
    byte = z3.Int2BV(s[km], W)
    if not E.feasible(kk != 0):
        E.assume(fn(s, kk) == z3.BitVecVal(init, W))
    elif not E.feasible(kk <= 0):
        E.assume(z3.ULE(byte, 255))            # elements of a byte string
        E.assume(fn(s, kk) == step(fn(s, km), byte))
    else:
        E.assume(z3.Implies(kk == 0, fn(s, kk) == z3.BitVecVal(init, W)))
        E.assume(z3.Implies(kk > 0, z3.And(z3.ULE(byte, 255), fn(s, kk) == step(fn(s, km), byte))))
    return Sym(fn(s, kk), "bv")


@specfunc
def crc16_fold(E, data, k):
    return _fold(E, _F16, step16, 0xFFFF, data, k)


@specfunc
def crc64_fold(E, data, k):
    return _fold(E, _F64, step64, M64, data, k)


@specfunc
def be16(E, v):
    """big-endian two-byte string of a 16-bit value (what struct.pack('!H', v) returns)"""
    t = E.tobv(v)
    hi = z3.BV2Int(z3.Extract(15, 8, t), False)
    lo = z3.BV2Int(z3.Extract(7, 0, t), False)
    return Sym(z3.Concat(z3.Unit(hi), z3.Unit(lo)), "bytes")


@specfunc
def hi32(E, v):
    return Sym(z3.LShR(E.tobv(v), 32), "bv")


@specfunc
def lo32(E, v):
    return Sym(E.tobv(v) & 0xFFFFFFFF, "bv")


@specfunc
def bxor(E, a, b):
    return Sym(E.tobv(a) ^ E.tobv(b), "bv")


crc16_fold.native = lambda data, k: _native_fold(step16, 0xFFFF, data, k)
crc64_fold.native = lambda data, k: _native_fold(step64, M64, data, k)
be16.native = lambda v: bytes([(v >> 8) & 0xFF, v & 0xFF])
hi32.native = lambda v: v >> 32
lo32.native = lambda v: v & 0xFFFFFFFF
bxor.native = lambda a, b: a ^ b


def _native_fold(step, init, data, k):
    crc = init
    for b in bytes(data)[:k]:
        crc = step(crc, b)
    return crc


import struct as _struct


@external("struct.pack", obj=_struct.pack)
def _ext_pack(E, args, kwargs):
    fmt = args[0]
    if fmt == "!H":
        v = args[1]
        t = E.tobv(v)
        E.oblige("safe", z3.ULE(t, 0xFFFF), "struct.pack('!H', v): 0 <= v <= 0xffff")
        return be16(E, v)
    raise Unsupported("struct.pack format %r" % (fmt,))


@external("bytearray")
def _ext_bytearray(E, args, kwargs):
    # bytearray(b) of a byte string: same content (mutability is not used by the callers under contract)
    if args and kind_of(args[0]) == "bytes":
        for_all = args[0]
        return for_all
    raise Unsupported("bytearray(%r)" % (args,))


REG.assume_note("struct.pack('!H', v) assumed to return the two big-endian bytes of v for 0 <= v <= 0xffff; "
                "bytearray(b) assumed to have the content of b; elements of a byte string are ints 0..255")


def _mk_bytes(rng, i, cex, nr):
    pool = [b"", b"\x00", b"\xff", b"123456789", b"\x00\x00", b"\x80", b"a"]
    if i < len(pool):
        return {"inpkt": pool[i]}
    n = rng.choice([1, 2, 3, 8, 64, 300])
    return {"inpkt": bytes(rng.randrange(256) for _ in range(n))}


contract(F, "crc16", "C41", params=dict(inpkt=BYTES), bitvec=W, merge_ifs=True,
         loops={0: dict(inv=["crc == crc16_fold(inpkt, _i)"], locals={"crc": BV(W)})},
         ensures=["result == be16(bxor(crc16_fold(inpkt, len(inpkt)), 0xffff))", "len(result) == 2"],
         returns=BYTES, replay=dict(make=_mk_bytes))

contract(F, "crc64", "C41", params=dict(inpkt=BYTES), bitvec=W, merge_ifs=True,
         loops={0: dict(inv=["crctop == hi32(crc64_fold(inpkt, _i))", "crcbot == lo32(crc64_fold(inpkt, _i))"],
                        locals={"crctop": BV(W), "crcbot": BV(W)})},
         ensures=["result[0] == hi32(bxor(crc64_fold(inpkt, len(inpkt)), 0xffffffffffffffff))",
                  "result[1] == lo32(bxor(crc64_fold(inpkt, len(inpkt)), 0xffffffffffffffff))"],
         returns=Tup(BV(W), BV(W)), replay=dict(make=_mk_bytes))
