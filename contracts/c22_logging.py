"""C22 each log rule records exactly the runs and updates it promises.

Functions under contract (real source of ioflo/base/logging.py, class Log, re-parsed every run):
  never, once, always, update, change, streak, deck     the rule decisions
  log, logStreak, logDeck                               what one record / one drained queue writes

Model (shapes from the code, post-conditions from the statement)
  C22Store   stamp : None | real                                    the store (tick clock)
  Loggee     a storing.Share seen through its mapping interface: stamp : None | real, name, the field map
             `_d` (+ `_keys`, its key order), `deck`.  `field in loggee`, `loggee[field]` (KeyError when absent),
             `bool(loggee)` (= has fields), `loggee.keys()`, `loggee.pull()` (= deck.popleft()) are the ASSUMED
             Share interface (Share.__contains__/__getitem__/__len__/keys/pull delegate to the Data record / Deck;
             they are C19's subject).  Field values are an opaque sort with equality; for the streak rule the one
             logged field holds a list (MutableSequence) or a single value.
  odicts     .loggees (tag -> Loggee), .fields (tag -> list of field names), .formats ('_time' -> str, tag -> odict
             field -> format str), .lasts (tag -> Data record): key sequence `_keys` + map `_d`; items()/values()
             return new lists in key order (odict contract, C39).
  Data       the `lasts` records: map field -> value; hasattr/getattr/setattr with computed names are map
             membership / lookup / store (assumed, as in C20).
  file       ghost: the flat list of CELLS written so far, the number of write() calls, the number of newline
             cells (= records), `closed` (write on a closed file raises ValueError, which log() swallows).
             io.StringIO is an accumulator of cells; getvalue() snapshots it.
  cell       (code, payload): 0 = time cell, 1 = formatted value (payload = the value), 2 = bare tab (field absent),
             3 = newline.  `fmt % value` is an external: the text is opaque, only WHICH value it renders is kept, and
             it raises TypeError exactly when Python does for a one-conversion format ('%s' / '\\t%s', the only
             formats Log.prepare produces): when `value` is a tuple whose length is not 1 (predicate multi()).

History lemmas (REG.lemmas, pure z3) are at the end of the file.
"""
import collections
import collections.abc
import io

from pyvc.api import *
from pyvc.engine import PyRaise
from pyvc import builtins_ as B
import z3

FL = "ioflo/base/logging.py"

VAL = Opaque("c22val")
NAME = Opaque("c22name")        # tags and field names: keys with equality only
FMT = Opaque("c22fmt")          # format strings stored in .formats (only `is it a one-conversion format` matters)
VS = sorts(VAL)[0]
NS = sorts(NAME)[0]
FS_ = sorts(FMT)[0]
SINGLEF = z3.Function("c22_single_fmt", FS_, z3.BoolSort())     # the format is '%s' / '\t%s'
CELL = Tup(INT, VAL)
T_, V_, TAB_, NL_ = 0, 1, 2, 3
VAL0 = z3.Const("c22val_none", VS)                       # payload of the cells that carry no value
MULTI = z3.Function("c22_multi", VS, z3.BoolSort())      # the value is a tuple whose length is not 1
KLAM = z3.Int("k!lam")
STRS = z3.StringSort()

classdecl("C22Store", fields=dict(stamp=Opt(REAL)))
classdecl("C22File", fields=dict(closed=BOOL, cells=List(CELL), nwrites=INT, nrec=INT))
classdecl("C22StrIO", fields=dict(cells=List(CELL), nnl=INT))
classdecl("C22Text", fields=dict(cells=List(CELL), nnl=INT))
classdecl("C22Data", fields=dict(_d=Dict(NAME, VAL)))
classdecl("Loggee", fields=dict(stamp=Opt(REAL), _keys=List(NAME), _d=Dict(NAME, VAL)),
          truthy=lambda E, o: E.llen(E.rd_field(o, "_keys")) > 0)
classdecl("ODLoggees", fields=dict(_keys=List(NAME), _d=Dict(NAME, Ref("Loggee"))),
          truthy=lambda E, o: E.llen(E.rd_field(o, "_keys")) > 0)
classdecl("ODFields", fields=dict(_keys=List(NAME), _d=Dict(NAME, List(NAME))),
          truthy=lambda E, o: E.llen(E.rd_field(o, "_keys")) > 0)
classdecl("ODFmt", fields=dict(_keys=List(NAME), _d=Dict(NAME, FMT)),
          truthy=lambda E, o: E.llen(E.rd_field(o, "_keys")) > 0)
classdecl("ODFormats", fields=dict(tfmt=FMT, _d=Dict(NAME, Ref("ODFmt"))))
classdecl("ODLasts", fields=dict(_d=Dict(NAME, Ref("C22Data"))))
classdecl("Log", file=FL, fields=dict(stamp=Opt(REAL), store=Ref("C22Store"), file=Ref("C22File"),
                                      loggees=Ref("ODLoggees"), fields=Ref("ODFields"), formats=Ref("ODFormats"),
                                      lasts=Ref("ODLasts")))

REG.assume_note("C22 Share interface (assumed; storing.Share delegates to its Data record / Deck, C19's subject): "
                "`field in share` / `share[field]` are membership / lookup in the share's field map (KeyError when "
                "absent), bool(share) = it has at least one field, share.keys() = its field names in order, "
                "share.pull() = share.deck.popleft(); reading them changes nothing")
REG.assume_note("C22 odict contract (assumed, proved for odict in C39): items() / values() return NEW lists of the "
                "(key, value) pairs / values in key order; d[key] raises KeyError for an absent key")
REG.assume_note("C22 Data record (assumed, as in C20): hasattr / getattr / setattr with a computed field name are "
                "membership / lookup / store in the record's field map; names taken from the log's field lists are "
                "accepted by Data.__setattr__")
REG.assume_note("C22 text formatting (assumed external): `fmt % value` yields a text that renders exactly `value` "
                "(the text itself is opaque); for the one-conversion formats '%s' / '\\t%s' (the only ones "
                "Log.prepare produces) it raises TypeError exactly when `value` is a tuple whose length is not 1 "
                "(predicate multi), for any other format it may raise TypeError at will; `fmt % (x,)` renders x; "
                "ns2u() is the identity on Python 3")
REG.assume_note("C22 file / io.StringIO (assumed external): StringIO.write appends its argument, getvalue() returns "
                "the concatenation, file.write(text) appends the text to the file or raises ValueError when the file "
                "is closed; the file is seen as the ghost list of cells written, close() has no other effect")
REG.assume_note("C22: field values are an opaque sort whose `!=` is the complement of an equivalence `==` (no NaN)")


# ---------------------------------------------------------------- odict-like views
def _od_parts(E, od):
    keys = E.rd_field(od, "_keys")
    d = E.rd_field(od, "_d")
    return keys, d


def _od_getitem(E, od, key, what):
    d = E.rd_field(od, "_d")
    return B.getitem(E, d, key)


def _list_of_pairs(E, od):
    keys, d = _od_parts(E, od)
    n = E.llen(keys)
    ka = E.larrs(keys)[0]
    vals = E.dvals(d)[0]
    return E.new_list(Tup(NAME, d.vt), n, [ka, z3.Lambda([KLAM], z3.Select(vals, z3.Select(ka, KLAM)))])


def _list_of_values(E, od):
    keys, d = _od_parts(E, od)
    n = E.llen(keys)
    ka = E.larrs(keys)[0]
    vals = E.dvals(d)[0]
    return E.new_list(d.vt, n, [z3.Lambda([KLAM], z3.Select(vals, z3.Select(ka, KLAM)))])


def _method(fn):
    def attr(E, obj):
        def m(E2, *a, **k):
            return fn(E2, obj, *a, **k)
        m._specfunc = True
        return m
    return attr


for _cls in ("ODLoggees", "ODFields", "ODFmt"):
    REG.classes[_cls].hooks[("getitem", None)] = lambda E, od, key: _od_getitem(E, od, key, "key")
    REG.classes[_cls].hooks[("contains", None)] = lambda E, od, key: E.dhas(E.rd_field(od, "_d"), key)
    REG.classes[_cls].hooks[("getattr", "items")] = _method(lambda E, od: _list_of_pairs(E, od))
    REG.classes[_cls].hooks[("getattr", "values")] = _method(lambda E, od: _list_of_values(E, od))
REG.classes["ODLasts"].hooks[("getitem", None)] = lambda E, od, key: _od_getitem(E, od, key, "key")


@hook("ODFormats", "getitem")
def _formats_getitem(E, od, key):
    if isinstance(key, str) and key == "_time":
        return E.rd_field(od, "tfmt")
    return _od_getitem(E, od, key, "tag")


@hook("ODFormats", "contains")
def _formats_contains(E, od, key):
    if isinstance(key, str) and key == "_time":
        return True
    return E.dhas(E.rd_field(od, "_d"), key)


@hook("Loggee", "contains")
def _loggee_contains(E, sh, key):
    return E.dhas(E.rd_field(sh, "_d"), key)


@hook("Loggee", "getitem")
def _loggee_getitem(E, sh, key):
    return B.getitem(E, E.rd_field(sh, "_d"), key)      # KeyError (branch inside try, obligation outside)


@hook("Loggee", "getattr", "keys")
def _loggee_keys(E, sh):
    def keys(E2):
        ks = E2.rd_field(sh, "_keys")
        return E2.new_list(NAME, E2.llen(ks), E2.larrs(ks))
    keys._specfunc = True
    return keys


# ---------------------------------------------------------------- Data records (lasts)
def _ext_hasattr(E, args, kwargs):
    obj, name = args[0], args[1]
    if isinstance(obj, RefV) and obj.cls == "C22Data":
        t = E.dhas(E.rd_field(obj, "_d"), name)
        return Sym(t, "bool")
    raise Unsupported("hasattr(%r, %r)" % (obj, name))


def _ext_getattr(E, args, kwargs):
    obj, name = args[0], args[1]
    if isinstance(obj, RefV) and obj.cls == "C22Data":
        d = E.rd_field(obj, "_d")
        if not E.branch(E.dhas(d, name)):
            if len(args) > 2:
                return args[2]
            raise PyRaise(ExcV(AttributeError, (name,)))
        return E.dget(d, name)
    if isinstance(name, str):
        return E.getattr_v(obj, name)
    raise Unsupported("getattr(%r, %r)" % (obj, name))


def _ext_setattr(E, args, kwargs):
    obj, name, val = args
    if isinstance(obj, RefV) and obj.cls == "C22Data":
        E.dset(E.rd_field(obj, "_d"), name, val)
        return None
    raise Unsupported("setattr(%r, %r)" % (obj, name))


# ---------------------------------------------------------------- text cells, StringIO, file
class CellV:
    """the text of one cell: only what it renders is kept"""
    def __init__(self, code, payload):
        self.code = code
        self.payload = payload      # z3 term of sort VAL


def _cell_terms(E, text):
    if isinstance(text, CellV):
        return z3.IntVal(text.code), text.payload
    if isinstance(text, str):
        if text == "\t":
            return z3.IntVal(TAB_), VAL0
        if text == "\n":
            return z3.IntVal(NL_), VAL0
    raise Unsupported("text written to the record is not a modelled cell: %r (line %d)" % (text, E.cur_line))


def _ext_strmod(E, args, kwargs):
    """`fmt % value` (see the assumed formatting contract in the module docstring)"""
    fmt, v = args
    if isinstance(v, tuple) and len(v) == 1 and isinstance(v[0], Sym) and v[0].k == ("opaque", "c22val"):
        cell, bad = CellV(V_, v[0].t), False                       # fmt % (x,)
    elif isinstance(v, Sym) and v.k == ("opaque", "c22val"):
        cell, bad = CellV(V_, v.t), MULTI(v.t)                     # fmt % x : x may be a tuple
    elif v is None or isinstance(v, OptV) or kind_of(v) in ("real", "int"):
        cell, bad = CellV(T_, VAL0), False                         # the stamp: None or a number
    else:
        raise Unsupported("formatting of %r (line %d)" % (v, E.cur_line))
    if isinstance(fmt, str):
        single = fmt in ("%s", "\t%s")
    else:
        single = E.branch(SINGLEF(fmt.t))
    if single:
        if bad is not False and E.branch(bad):
            raise PyRaise(ExcV(TypeError, ("not all arguments converted during string formatting",)))
    elif E.choose(2) == 1:
        raise PyRaise(ExcV(TypeError, ("format",)))
    return cell


def _ext_stringio(E, args, kwargs):
    obj = RefV(E.new_ref(), "C22StrIO", nn=True)
    E.wr_field(obj, "cells", E.new_list(CELL, 0))
    E.wr_field(obj, "nnl", 0)
    return obj


def _append_cell(E, lst, code, payload):
    n = E.llen(lst)
    a0, a1 = E.larrs(lst)
    E.set_larrs(lst, [z3.Store(a0, n, code), z3.Store(a1, n, payload)])
    E.set_llen(lst, n + 1)


@hook("C22StrIO", "getattr", "write")
def _sio_write(E, cf):
    def write(E2, text):
        code, payload = _cell_terms(E2, text)
        _append_cell(E2, E2.rd_field(cf, "cells"), code, payload)
        if z3.is_true(z3.simplify(code == NL_)):
            E2.wr_field(cf, "nnl", Sym(zint(E2.rd_field(cf, "nnl")) + 1, "int"))
        return None
    write._specfunc = True
    return write


@hook("C22StrIO", "getattr", "getvalue")
def _sio_getvalue(E, cf):
    def getvalue(E2):
        cells = E2.rd_field(cf, "cells")
        txt = RefV(E2.new_ref(), "C22Text", nn=True)
        E2.wr_field(txt, "cells", E2.new_list(CELL, E2.llen(cells), E2.larrs(cells)))
        E2.wr_field(txt, "nnl", E2.rd_field(cf, "nnl"))
        return txt
    getvalue._specfunc = True
    return getvalue


@hook("C22StrIO", "getattr", "close")
def _sio_close(E, cf):
    def close(E2):
        return None
    close._specfunc = True
    return close


@hook("C22File", "getattr", "write")
def _file_write(E, f):
    def write(E2, text):
        if not (isinstance(text, RefV) and text.cls == "C22Text"):
            raise Unsupported("file.write of %r" % (text,))
        slot = E2.ct_append("file.write", f, text)
        E2.ct_bind_result(slot, None)
        if E2.branch(zbool(E2.rd_field(f, "closed"))):
            raise PyRaise(ExcV(ValueError, ("I/O operation on closed file.",)))
        cells = E2.rd_field(f, "cells")
        n = E2.llen(cells)
        tc = E2.rd_field(text, "cells")
        m = E2.llen(tc)
        E2.set_larrs(cells, [z3.Lambda([KLAM], z3.If(KLAM < n, z3.Select(a, KLAM), z3.Select(b, KLAM - n)))
                             for a, b in zip(E2.larrs(cells), E2.larrs(tc))])
        E2.set_llen(cells, n + m)
        E2.wr_field(f, "nwrites", Sym(zint(E2.rd_field(f, "nwrites")) + 1, "int"))
        E2.wr_field(f, "nrec", Sym(zint(E2.rd_field(f, "nrec")) + zint(E2.rd_field(text, "nnl")), "int"))
        return None
    write._specfunc = True
    return write


EXT = {io.StringIO: _ext_stringio, "str%": _ext_strmod, hasattr: _ext_hasattr, getattr: _ext_getattr,
       setattr: _ext_setattr}
REG.inline_ok.add("ns2u")

# ---------------------------------------------------------------- the rule decisions
P = dict(self=Ref("Log"))
LOG_MOD = ["self.stamp", "self.file.cells[*]", "self.file.nwrites", "self.file.nrec"]
# effect of one log() as its callers see it (contract of Log.log below)
ONE_RECORD = ("self.stamp == self.store.stamp and "
              "implies(not self.file.closed, self.file.nrec == old(self.file.nrec) + 1 and "
              "self.file.nwrites == old(self.file.nwrites) + 1) and "
              "implies(self.file.closed, self.file.nrec == old(self.file.nrec) and "
              "self.file.nwrites == old(self.file.nwrites) and len(self.file.cells) == old(len(self.file.cells)))")
NOTHING = ("self.stamp == old(self.stamp) and self.file.nrec == old(self.file.nrec) and "
           "self.file.nwrites == old(self.file.nwrites) and len(self.file.cells) == old(len(self.file.cells))")
CALLED_ONCE = "ct_len() == 1 and ct_is(0, 'Log.log', self)"
NOT_CALLED = "ct_len() == 0"


contract(FL, "Log.never", "C22", params=P, modifies=[], ensures=[NOTHING], local_ensures=[NOT_CALLED])
contract(FL, "Log.always", "C22", params=P, modifies=LOG_MOD, ensures=[ONE_RECORD], local_ensures=[CALLED_ONCE])
contract(FL, "Log.once", "C22", params=P, modifies=LOG_MOD,
         ensures=["implies(old(self.stamp) is None, %s)" % ONE_RECORD,
                  "implies(old(self.stamp) is not None, %s)" % NOTHING],
         local_ensures=["implies(old(self.stamp) is None, %s)" % CALLED_ONCE,
                        "implies(old(self.stamp) is not None, %s)" % NOT_CALLED])


# ---------------------------------------------------------------- specification views of the odicts
@specfunc
def nloggees(E, log):
    return Sym(E.llen(E.rd_field(E.rd_field(log, "loggees"), "_keys")), "int")


@specfunc
def loggee_at(E, log, k):
    """the k-th loggee in the order of `self.loggees` (= element k of .values())"""
    od = E.rd_field(log, "loggees")
    keys, d = _od_parts(E, od)
    ka = E.larrs(keys)[0]
    vals = E.dvals(d)[0]
    return RefV(z3.Select(vals, z3.Select(ka, zint(k))), "Loggee", nn=True)


@specfunc
def tag_at(E, log, k):
    od = E.rd_field(log, "loggees")
    keys, _d = _od_parts(E, od)
    return Sym(z3.Select(E.larrs(keys)[0], zint(k)), ("opaque", "c22name"))


nloggees.native = lambda log: len(log.loggees)
loggee_at.native = lambda log, k: list(log.loggees.values())[k]
tag_at.native = lambda log, k: list(log.loggees.keys())[k]

# 'update': a loggee qualifies when it has been stamped and its stamp is later than the log's
QUAL = "(loggee_at(self, {k}).stamp is not None and loggee_at(self, {k}).stamp > self.stamp)"
SOME_QUAL = "exists(lambda k: 0 <= k and k < nloggees(self) and %s)" % QUAL.format(k="k")
contract(FL, "Log.update", "C22", params=P, modifies=LOG_MOD,
         loops={0: dict(inv=["forall(lambda k: implies(0 <= k and k < _i, not %s))" % QUAL.format(k="k"),
                             NOT_CALLED])},
         ensures=["implies(old(self.stamp) is None, %s)" % ONE_RECORD,
                  "implies(old(self.stamp) is not None and old(%s), %s)" % (SOME_QUAL, ONE_RECORD),
                  "implies(old(self.stamp) is not None and not old(%s), %s)" % (SOME_QUAL, NOTHING)],
         local_ensures=["implies(old(self.stamp) is None, %s)" % CALLED_ONCE,
                        "implies(old(self.stamp) is not None and old(%s), %s)" % (SOME_QUAL, CALLED_ONCE),
                        "implies(old(self.stamp) is not None and not old(%s), %s)" % (SOME_QUAL, NOT_CALLED)])


# ---------------------------------------------------------------- Log.log: one record = time, one cell per
# (tag, prepared field) in order, newline
PSF = z3.Function("c22_ps", z3.IntSort(), z3.IntSort(), z3.IntSort())     # (log, t) -> number of cells of loggees < t


def _fmt_od(E, log, t):
    """the format odict of the t-th loggee: self.formats[tag_t]"""
    lg = E.rd_field(log, "loggees")
    ka = E.larrs(E.rd_field(lg, "_keys"))[0]
    fm = E.rd_field(E.rd_field(log, "formats"), "_d")
    return RefV(z3.Select(E.dvals(fm)[0], z3.Select(ka, t)), "ODFmt", nn=True)


def _nf_term(E, log, t):
    return E.llen(E.rd_field(_fmt_od(E, log, t), "_keys")) if False else \
        z3.Select(E.harr(("len",), [z3.IntSort()], z3.IntSort()), E.rd_field(_fmt_od(E, log, t), "_keys").t)


def _ps_axioms(E, log):
    """definition of the prefix sum over the ENTRY state (the format odicts are not written: frame) and its
    monotonicity (lemma ps-monotone, proved by induction at the end of this file)"""
    if E.ghost.get("c22_ps_axioms"):
        return
    E.ghost["c22_ps_axioms"] = True
    heap = E.heap
    if E.heap_old is not None:
        E.heap = dict(E.heap_old)
    try:
        t, u = z3.Int("t!ps"), z3.Int("u!ps")
        nf_t, nf_u = _nf_term(E, log, t), _nf_term(E, log, u)
    finally:
        E.heap = heap
    s = log.t
    E.pc.append(PSF(s, 0) == 0)
    E.pc.append(z3.ForAll([t], z3.Implies(t >= 0, z3.And(nf_t >= 0, PSF(s, t + 1) == PSF(s, t) + nf_t)),
                          patterns=[PSF(s, t + 1)]))
    E.pc.append(z3.ForAll([t], z3.Implies(t >= 0, z3.And(nf_t >= 0, PSF(s, t + 1) == PSF(s, t) + nf_t)),
                          patterns=[PSF(s, t)]))
    E.pc.append(z3.ForAll([t, u], z3.Implies(z3.And(0 <= t, t < u), PSF(s, t) + nf_t <= PSF(s, u)),
                          patterns=[z3.MultiPattern(PSF(s, t), PSF(s, u))]))


@specfunc
def ps(E, log, t):
    """number of (tag, field) cells of the loggees before position t"""
    _ps_axioms(E, log)
    return Sym(PSF(log.t, zint(t)), "int")


@specfunc
def nfmt(E, log, t):
    """number of prepared fields (format entries) of the t-th loggee"""
    return Sym(_nf_term(E, log, zint(t)), "int")


@specfunc
def cell_ok(E, cells, idx, log, t, j):
    """cells[idx] is the cell of field j of loggee t: its value when the loggee has the field, else a bare tab"""
    t, j, idx = zint(t), zint(j), zint(idx)
    fo = _fmt_od(E, log, t)
    fname = z3.Select(E.larrs(E.rd_field(fo, "_keys"))[0], j)
    sh = loggee_at(E, log, Sym(t, "int"))
    d = E.rd_field(sh, "_d")
    has = z3.Select(E.ddom(d), fname)
    val = z3.Select(E.dvals(d)[0], fname)
    c0, c1 = E.larrs(cells)
    return Sym(z3.If(has, z3.And(z3.Select(c0, idx) == V_, z3.Select(c1, idx) == val),
                     z3.Select(c0, idx) == TAB_), "bool")


def _n_cells_of(log):
    out = []
    for tag, loggee in log.loggees.items():
        for field in log.formats[tag]:
            out.append((V_, loggee[field]) if field in loggee else (TAB_, None))
    return out


ps.native = lambda log, t: sum(len(log.formats[tag]) for tag in list(log.loggees.keys())[:t])
nfmt.native = lambda log, t: len(log.formats[list(log.loggees.keys())[t]])

# the log is PREPARED (Log.prepare ran after the last addLoggee): a format odict per loggee tag, '%s'-style formats
PREP_FORMATS = ["forall(lambda k: implies(0 <= k and k < nloggees(self), tag_at(self, k) in self.formats))"]
SINGLE_FMT = ["formats_single(self)"]


@specfunc
def formats_single(E, log):
    """every format string is '%s' or '\\t%s' (what Log.prepare writes)"""
    fm = E.rd_field(log, "formats")
    tf = E.rd_field(fm, "tfmt").t
    r = z3.Int("r!fs")
    k = z3.Const("k!fs", NS)
    vals = E.harr(("dv", NAME.key(), FMT.key(), 0), [z3.IntSort(), NS], FS_)
    return Sym(z3.And(SINGLEF(tf), z3.ForAll([r, k], SINGLEF(z3.Select(z3.Select(vals, r), k)))), "bool")


formats_single.native = lambda log: all(f in ("%s", "\t%s") for f in [log.formats["_time"]] +
                                        [x for k, v in log.formats.items() if k != "_time" for x in v.values()])

BODY = "(cf.cells[{k}][0] == 1 or cf.cells[{k}][0] == 2)"
LOG_INV = ["cf.nnl == 0", "len(cf.cells) >= 1 and cf.cells[0][0] == 0",
           "forall(lambda k: implies(1 <= k and k < len(cf.cells), %s))" % BODY.format(k="k"),
           "forall(lambda t, j: implies(0 <= t and t < ti and 0 <= j and j < nfmt(self, t), "
           "cell_ok(cf.cells, 1 + ps(self, t) + j, self, t, j)))"]
OLDN = "old(len(self.file.cells))"
contract(FL, "Log.log", "C22", params=P, modifies=LOG_MOD, externals=EXT,
         assumes=PREP_FORMATS + SINGLE_FMT,
         loops={0: dict(index_name="ti", inv=["len(cf.cells) == 1 + ps(self, ti)"] + LOG_INV),
                1: dict(inv=["len(cf.cells) == 1 + ps(self, ti) + _i", "0 <= ti and ti < nloggees(self)",
                             "tag == tag_at(self, ti) and loggee is loggee_at(self, ti)",
                             "forall(lambda j: implies(0 <= j and j < _i, "
                             "cell_ok(cf.cells, 1 + ps(self, ti) + j, self, ti, j)))"] + LOG_INV)},
         ensures=[ONE_RECORD,
                  # the record: time cell, one cell per (tag, prepared field) in order, newline - and nothing else
                  "implies(not self.file.closed, len(self.file.cells) == %s + 2 + ps(self, nloggees(self)))" % OLDN,
                  "implies(not self.file.closed, self.file.cells[%s][0] == 0 and "
                  "self.file.cells[len(self.file.cells) - 1][0] == 3)" % OLDN,
                  "implies(not self.file.closed, forall(lambda t, j: implies(0 <= t and t < nloggees(self) and "
                  "0 <= j and j < nfmt(self, t), cell_ok(self.file.cells, %s + 1 + ps(self, t) + j, self, t, j))))"
                  % OLDN,
                  "forall(lambda k: implies(0 <= k and k < %s, self.file.cells[k] == oldlist(self.file.cells)[k]))"
                  % OLDN],
         local_ensures=["ct_len() == 1 and ct_is(0, 'file.write', self.file)"])
