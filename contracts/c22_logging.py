"""C22 each log rule records exactly the runs and updates it promises.

Functions under contract (real source of ioflo/base/logging.py, class Log, re-parsed every run):
  never, once, always, update, change, streak, deck     the rule decisions
  log, logStreak, logDeck                               what one record / one drained queue writes

Model (shapes from the code, post-conditions from the statement)
  C22Store   stamp : None | real                                    the store (tick clock)
  Loggee     a storing.Share seen through its mapping interface: stamp : None | real, name, the field map
             `_d` (+ `_keys`, its key order), `deck`.  `field in loggee`, `loggee[field]` (KeyError when absent),
             `bool(loggee)` (= has fields), `loggee.keys()`, `loggee.pull()` (= deck.popleft()) are the ASSUMED
             Share interface (Share.__contains__/__getitem__/__len__/keys/pull delegate to the Data record / Deck;
             they are C19's subject).  Field values are an opaque sort with equality; for the streak rule the one
             logged field holds a list (MutableSequence) or a single value.
  odicts     .loggees (tag -> Loggee), .fields (tag -> list of field names), .formats ('_time' -> str, tag -> odict
             field -> format str), .lasts (tag -> Data record): key sequence `_keys` + map `_d`; items()/values()
             return new lists in key order (odict contract, C39).
  Data       the `lasts` records: map field -> value; hasattr/getattr/setattr with computed names are map
             membership / lookup / store (assumed, as in C20).
  file       ghost: the flat list of CELLS written so far, the number of write() calls, the number of newline
             cells (= records), `closed` (write on a closed file raises ValueError, which log() swallows).
             io.StringIO is an accumulator of cells; getvalue() snapshots it.
  cell       (code, payload): 0 = time cell, 1 = formatted value (payload = the value), 2 = bare tab (field absent),
             3 = newline.  `fmt % value` is an external: the text is opaque, only WHICH value it renders is kept, and
             it raises TypeError exactly when Python does for a one-conversion format ('%s' / '\\t%s', the only
             formats Log.prepare produces): when `value` is a tuple whose length is not 1 (predicate multi()).

History lemmas (REG.lemmas, pure z3) are at the end of the file.
"""
import collections
import collections.abc
import io

from pyvc.api import *
from pyvc.engine import PyRaise
from pyvc import builtins_ as B
import z3

FL = "ioflo/base/logging.py"

VAL = Opaque("c22val")
NAME = Opaque("c22name")        # tags and field names: keys with equality only
FMT = Opaque("c22fmt")          # format strings stored in .formats (only `is it a one-conversion format` matters)
VS = sorts(VAL)[0]
NS = sorts(NAME)[0]
FS_ = sorts(FMT)[0]
SINGLEF = z3.Function("c22_single_fmt", FS_, z3.BoolSort())     # the format is '%s' / '\t%s'
CELL = Tup(INT, VAL)
T_, V_, TAB_, NL_ = 0, 1, 2, 3
VAL0 = z3.Const("c22val_none", VS)                       # payload of the cells that carry no value
MULTI = z3.Function("c22_multi", VS, z3.BoolSort())      # the value is a tuple whose length is not 1
KLAM = z3.Int("k!lam")
STRS = z3.StringSort()

classdecl("C22Store", fields=dict(stamp=Opt(REAL)))
classdecl("C22File", fields=dict(closed=BOOL, cells=List(CELL), nwrites=INT, nrec=INT))
classdecl("C22StrIO", fields=dict(cells=List(CELL), nnl=INT))
classdecl("C22Text", fields=dict(cells=List(CELL), nnl=INT))
classdecl("C22Data", fields={})
classdecl("Loggee", fields=dict(stamp=Opt(REAL), _keys=List(NAME), _d=Dict(NAME, VAL)),
          truthy=lambda E, o: E.llen(E.rd_field(o, "_keys")) > 0)
classdecl("ODLoggees", fields=dict(_keys=List(NAME), _d=Dict(NAME, Ref("Loggee"))),
          truthy=lambda E, o: E.llen(E.rd_field(o, "_keys")) > 0)
classdecl("ODFields", fields=dict(_keys=List(NAME), _d=Dict(NAME, List(NAME))),
          truthy=lambda E, o: E.llen(E.rd_field(o, "_keys")) > 0)
classdecl("ODFmt", fields=dict(_keys=List(NAME), _d=Dict(NAME, FMT)),
          truthy=lambda E, o: E.llen(E.rd_field(o, "_keys")) > 0)
classdecl("ODFormats", fields=dict(tfmt=FMT, _d=Dict(NAME, Ref("ODFmt"))))
classdecl("ODLasts", fields=dict(_d=Dict(NAME, Ref("C22Data"))))
classdecl("Log", file=FL, fields=dict(stamp=Opt(REAL), store=Ref("C22Store"), file=Ref("C22File"),
                                      loggees=Ref("ODLoggees"), fields=Ref("ODFields"), formats=Ref("ODFormats"),
                                      lasts=Ref("ODLasts")))

REG.assume_note("C22 Share interface (assumed; storing.Share delegates to its Data record / Deck, C19's subject): "
                "`field in share` / `share[field]` are membership / lookup in the share's field map (KeyError when "
                "absent), bool(share) = it has at least one field, share.keys() = its field names in order, "
                "share.pull() = share.deck.popleft(); reading them changes nothing")
REG.assume_note("C22 odict contract (assumed, proved for odict in C39): items() / values() return NEW lists of the "
                "(key, value) pairs / values in key order; d[key] raises KeyError for an absent key")
REG.assume_note("C22 Data record (assumed, as in C20): hasattr / getattr / setattr with a computed field name are "
                "membership / lookup / store in the record's field map; names taken from the log's field lists are "
                "accepted by Data.__setattr__")
REG.assume_note("C22 text formatting (assumed external): `fmt % value` yields a text that renders exactly `value` "
                "(the text itself is opaque); for the one-conversion formats '%s' / '\\t%s' (the only ones "
                "Log.prepare produces) it raises TypeError exactly when `value` is a tuple whose length is not 1 "
                "(predicate multi), for any other format it may raise TypeError at will; `fmt % (x,)` renders x; "
                "ns2u() is the identity on Python 3")
REG.assume_note("C22 file / io.StringIO (assumed external): StringIO.write appends its argument, getvalue() returns "
                "the concatenation, file.write(text) appends the text to the file or raises ValueError when the file "
                "is closed; the file is seen as the ghost list of cells written, close() has no other effect")
REG.assume_note("C22: field values are an opaque sort whose `!=` is the complement of an equivalence `==` (no NaN)")


# ---------------------------------------------------------------- odict-like views
def _od_parts(E, od):
    keys = E.rd_field(od, "_keys")
    d = E.rd_field(od, "_d")
    return keys, d


def _od_getitem(E, od, key, what):
    d = E.rd_field(od, "_d")
    return B.getitem(E, d, key)


def _list_of_pairs(E, od):
    keys, d = _od_parts(E, od)
    n = E.llen(keys)
    ka = E.larrs(keys)[0]
    vals = E.dvals(d)[0]
    return E.new_list(Tup(NAME, d.vt), n, [ka, z3.Lambda([KLAM], z3.Select(vals, z3.Select(ka, KLAM)))])


def _list_of_values(E, od):
    keys, d = _od_parts(E, od)
    n = E.llen(keys)
    ka = E.larrs(keys)[0]
    vals = E.dvals(d)[0]
    return E.new_list(d.vt, n, [z3.Lambda([KLAM], z3.Select(vals, z3.Select(ka, KLAM)))])


def _method(fn):
    def attr(E, obj):
        def m(E2, *a, **k):
            return fn(E2, obj, *a, **k)
        m._specfunc = True
        return m
    return attr


for _cls in ("ODLoggees", "ODFields", "ODFmt"):
    REG.classes[_cls].hooks[("getitem", None)] = lambda E, od, key: _od_getitem(E, od, key, "key")
    REG.classes[_cls].hooks[("contains", None)] = lambda E, od, key: E.dhas(E.rd_field(od, "_d"), key)
    REG.classes[_cls].hooks[("getattr", "items")] = _method(lambda E, od: _list_of_pairs(E, od))
    REG.classes[_cls].hooks[("getattr", "values")] = _method(lambda E, od: _list_of_values(E, od))
REG.classes["ODLasts"].hooks[("getitem", None)] = lambda E, od, key: _od_getitem(E, od, key, "key")


@hook("ODFormats", "getitem")
def _formats_getitem(E, od, key):
    if isinstance(key, str) and key == "_time":
        return E.rd_field(od, "tfmt")
    return _od_getitem(E, od, key, "tag")


@hook("ODFormats", "contains")
def _formats_contains(E, od, key):
    if isinstance(key, str) and key == "_time":
        return True
    return E.dhas(E.rd_field(od, "_d"), key)


@hook("Loggee", "contains")
def _loggee_contains(E, sh, key):
    return E.dhas(E.rd_field(sh, "_d"), key)


@hook("Loggee", "getitem")
def _loggee_getitem(E, sh, key):
    return B.getitem(E, E.rd_field(sh, "_d"), key)      # KeyError (branch inside try, obligation outside)


@hook("Loggee", "getattr", "keys")
def _loggee_keys(E, sh):
    def keys(E2):
        ks = E2.rd_field(sh, "_keys")
        return E2.new_list(NAME, E2.llen(ks), E2.larrs(ks))
    keys._specfunc = True
    return keys


# ---------------------------------------------------------------- Data records (lasts)
# A record is a map field name -> value, kept in two heap arrays of its own indexed by the record's reference
# (so a `lasts` record never aliases a share's field map by construction)
LKD, LKV = ("c22last", "dom"), ("c22last", "val")


def _last_arrays(E, old=False):
    if old and E.heap_old is not None:
        heap = E.heap
        E.heap = dict(E.heap_old)
        try:
            return _last_arrays(E)
        finally:
            E.heap = heap
    return (E.harr(LKD, [z3.IntSort(), NS], z3.BoolSort()), E.harr(LKV, [z3.IntSort(), NS], VS))


def _is_data(obj):
    return isinstance(obj, RefV) and obj.cls == "C22Data"


def _ext_hasattr(E, args, kwargs):
    obj, name = args[0], args[1]
    if _is_data(obj):
        dom, _v = _last_arrays(E)
        return Sym(z3.Select(z3.Select(dom, obj.t), name.t), "bool")
    raise Unsupported("hasattr(%r, %r)" % (obj, name))


def _ext_getattr(E, args, kwargs):
    obj, name = args[0], args[1]
    if _is_data(obj):
        dom, val = _last_arrays(E)
        if not E.branch(z3.Select(z3.Select(dom, obj.t), name.t)):
            if len(args) > 2:
                return args[2]
            raise PyRaise(ExcV(AttributeError, (name,)))
        return Sym(z3.Select(z3.Select(val, obj.t), name.t), ("opaque", "c22val"))
    if isinstance(name, str):
        return E.getattr_v(obj, name)
    raise Unsupported("getattr(%r, %r)" % (obj, name))


def _ext_setattr(E, args, kwargs):
    obj, name, v = args
    if _is_data(obj):
        dom, val = _last_arrays(E)
        E.heap[LKD] = z3.Store(dom, obj.t, z3.Store(z3.Select(dom, obj.t), name.t, z3.BoolVal(True)))
        E.heap[LKV] = z3.Store(val, obj.t, z3.Store(z3.Select(val, obj.t), name.t, v.t))
        E.note_write(LKD, obj.t)
        E.note_write(LKV, obj.t)
        return None
    raise Unsupported("setattr(%r, %r)" % (obj, name))


# ---------------------------------------------------------------- text cells, StringIO, file
class CellV:
    """the text of one cell: only what it renders is kept"""
    def __init__(self, code, payload):
        self.code = code
        self.payload = payload      # z3 term of sort VAL


def _cell_terms(E, text):
    if isinstance(text, CellV):
        return z3.IntVal(text.code), text.payload
    if isinstance(text, str):
        if text == "\t":
            return z3.IntVal(TAB_), VAL0
        if text == "\n":
            return z3.IntVal(NL_), VAL0
    raise Unsupported("text written to the record is not a modelled cell: %r (line %d)" % (text, E.cur_line))


def _ext_strmod(E, args, kwargs):
    """`fmt % value` (see the assumed formatting contract in the module docstring)"""
    fmt, v = args
    if isinstance(v, tuple) and len(v) == 1 and isinstance(v[0], Sym) and v[0].k == ("opaque", "c22val"):
        cell, bad = CellV(V_, v[0].t), False                       # fmt % (x,)
    elif isinstance(v, Sym) and v.k == ("opaque", "c22val"):
        cell, bad = CellV(V_, v.t), MULTI(v.t)                     # fmt % x : x may be a tuple
    elif v is None or isinstance(v, OptV) or kind_of(v) in ("real", "int"):
        cell, bad = CellV(T_, VAL0), False                         # the stamp: None or a number
    else:
        raise Unsupported("formatting of %r (line %d)" % (v, E.cur_line))
    if isinstance(fmt, str):
        single = fmt in ("%s", "\t%s")
    else:
        single = E.branch(SINGLEF(fmt.t))
    if single:
        if bad is not False and E.branch(bad):
            raise PyRaise(ExcV(TypeError, ("not all arguments converted during string formatting",)))
    elif E.choose(2) == 1:
        raise PyRaise(ExcV(TypeError, ("format",)))
    return cell


def _ext_stringio(E, args, kwargs):
    obj = RefV(E.new_ref(), "C22StrIO", nn=True)
    E.wr_field(obj, "cells", E.new_list(CELL, 0))
    E.wr_field(obj, "nnl", 0)
    return obj


def _append_cell(E, lst, code, payload):
    n = E.llen(lst)
    a0, a1 = E.larrs(lst)
    E.set_larrs(lst, [z3.Store(a0, n, code), z3.Store(a1, n, payload)])
    E.set_llen(lst, n + 1)


@hook("C22StrIO", "getattr", "write")
def _sio_write(E, cf):
    def write(E2, text):
        code, payload = _cell_terms(E2, text)
        _append_cell(E2, E2.rd_field(cf, "cells"), code, payload)
        if z3.is_true(z3.simplify(code == NL_)):
            E2.wr_field(cf, "nnl", Sym(zint(E2.rd_field(cf, "nnl")) + 1, "int"))
        return None
    write._specfunc = True
    return write


@hook("C22StrIO", "getattr", "getvalue")
def _sio_getvalue(E, cf):
    def getvalue(E2):
        cells = E2.rd_field(cf, "cells")
        txt = RefV(E2.new_ref(), "C22Text", nn=True)
        E2.wr_field(txt, "cells", E2.new_list(CELL, E2.llen(cells), E2.larrs(cells)))
        E2.wr_field(txt, "nnl", E2.rd_field(cf, "nnl"))
        return txt
    getvalue._specfunc = True
    return getvalue


@hook("C22StrIO", "getattr", "close")
def _sio_close(E, cf):
    def close(E2):
        return None
    close._specfunc = True
    return close


@hook("C22File", "getattr", "write")
def _file_write(E, f):
    def write(E2, text):
        if not (isinstance(text, RefV) and text.cls == "C22Text"):
            raise Unsupported("file.write of %r" % (text,))
        slot = E2.ct_append("file.write", f, text)
        E2.ct_bind_result(slot, None)
        if E2.branch(zbool(E2.rd_field(f, "closed"))):
            raise PyRaise(ExcV(ValueError, ("I/O operation on closed file.",)))
        cells = E2.rd_field(f, "cells")
        n = E2.llen(cells)
        tc = E2.rd_field(text, "cells")
        m = E2.llen(tc)
        E2.set_larrs(cells, [z3.Lambda([KLAM], z3.If(KLAM < n, z3.Select(a, KLAM), z3.Select(b, KLAM - n)))
                             for a, b in zip(E2.larrs(cells), E2.larrs(tc))])
        E2.set_llen(cells, n + m)
        E2.wr_field(f, "nwrites", Sym(zint(E2.rd_field(f, "nwrites")) + 1, "int"))
        E2.wr_field(f, "nrec", Sym(zint(E2.rd_field(f, "nrec")) + zint(E2.rd_field(text, "nnl")), "int"))
        return None
    write._specfunc = True
    return write


EXT = {io.StringIO: _ext_stringio, "str%": _ext_strmod, hasattr: _ext_hasattr, getattr: _ext_getattr,
       setattr: _ext_setattr}
REG.inline_ok.add("ns2u")

# ---------------------------------------------------------------- the ghost cell list is not a program object
@specfunc
def ghost_apart(E, log):
    """the file's ghost list of cells is none of the lists the program holds (key lists, field-name lists)"""
    fc = E.rd_field(E.rd_field(log, "file"), "cells").t
    r = z3.Int("r!ga")
    k = z3.Const("k!ga", NS)
    out = []
    for cls, cd in REG.classes.items():
        if not (cls in ("Log", "Loggee", "C22Data", "C22Store") or cls.startswith(("OD", "C22"))):
            continue
        for attr, ty in cd.fields.items():
            if ty.kind == "list" and (cls, attr) != ("C22File", "cells"):
                name, _ty = E.fkey(cls, attr)
                out.append(z3.ForAll([r], z3.Select(E.harr(("f", name, 0), [z3.IntSort()], z3.IntSort()), r) != fc))
            if ty.kind == "dict" and ty.args[1].kind == "list":
                arr = E.harr(("dv", ty.args[0].key(), ty.args[1].key(), 0), [z3.IntSort(), NS], z3.IntSort())
                out.append(z3.ForAll([r, k], z3.Select(z3.Select(arr, r), k) != fc))
    return Sym(z3.And(*out), "bool")


ghost_apart.native = lambda log: True
MODEL = ["ghost_apart(self)"]
REG.assume_note("C22: the file's ghost list of written cells is not one of the program's own lists (it exists only "
                "in the proof)")

# ---------------------------------------------------------------- the rule decisions
P = dict(self=Ref("Log"))
LOG_MOD = ["self.stamp", "self.file.cells[*]", "self.file.nwrites", "self.file.nrec"]
# effect of one log() as its callers see it (contract of Log.log below)
ONE_RECORD = ("self.stamp == self.store.stamp and "
              "implies(not self.file.closed, self.file.nrec == old(self.file.nrec) + 1 and "
              "self.file.nwrites == old(self.file.nwrites) + 1) and "
              "implies(self.file.closed, self.file.nrec == old(self.file.nrec) and "
              "self.file.nwrites == old(self.file.nwrites) and len(self.file.cells) == old(len(self.file.cells)))")
NOTHING = ("self.stamp == old(self.stamp) and self.file.nrec == old(self.file.nrec) and "
           "self.file.nwrites == old(self.file.nwrites) and len(self.file.cells) == old(len(self.file.cells))")
CALLED_ONCE = "ct_len() == 1 and ct_is(0, 'Log.log', self)"
NOT_CALLED = "ct_len() == 0"


contract(FL, "Log.never", "C22", params=P, assumes=MODEL, modifies=[], ensures=[NOTHING], local_ensures=[NOT_CALLED])
contract(FL, "Log.always", "C22", params=P, assumes=MODEL, modifies=LOG_MOD, ensures=[ONE_RECORD], local_ensures=[CALLED_ONCE])
contract(FL, "Log.once", "C22", params=P, assumes=MODEL, modifies=LOG_MOD,
         ensures=["implies(old(self.stamp) is None, %s)" % ONE_RECORD,
                  "implies(old(self.stamp) is not None, %s)" % NOTHING],
         local_ensures=["implies(old(self.stamp) is None, %s)" % CALLED_ONCE,
                        "implies(old(self.stamp) is not None, %s)" % NOT_CALLED])


# ---------------------------------------------------------------- specification views of the odicts
@specfunc
def nloggees(E, log):
    return Sym(E.llen(E.rd_field(E.rd_field(log, "loggees"), "_keys")), "int")


@specfunc
def loggee_at(E, log, k):
    """the k-th loggee in the order of `self.loggees` (= element k of .values())"""
    od = E.rd_field(log, "loggees")
    keys, d = _od_parts(E, od)
    ka = E.larrs(keys)[0]
    vals = E.dvals(d)[0]
    return RefV(z3.Select(vals, z3.Select(ka, zint(k))), "Loggee", nn=True)


@specfunc
def tag_at(E, log, k):
    od = E.rd_field(log, "loggees")
    keys, _d = _od_parts(E, od)
    return Sym(z3.Select(E.larrs(keys)[0], zint(k)), ("opaque", "c22name"))


nloggees.native = lambda log: len(log.loggees)
loggee_at.native = lambda log, k: list(log.loggees.values())[k]
tag_at.native = lambda log, k: list(log.loggees.keys())[k]

# 'update': a loggee qualifies when it has been stamped and its stamp is later than the log's
QUAL = "(loggee_at(self, {k}).stamp is not None and loggee_at(self, {k}).stamp > self.stamp)"
SOME_QUAL = "exists(lambda k: 0 <= k and k < nloggees(self) and %s)" % QUAL.format(k="k")
contract(FL, "Log.update", "C22", params=P, assumes=MODEL, modifies=LOG_MOD,
         loops={0: dict(inv=["forall(lambda k: implies(0 <= k and k < _i, not %s))" % QUAL.format(k="k"),
                             NOT_CALLED])},
         ensures=["implies(old(self.stamp) is None, %s)" % ONE_RECORD,
                  "implies(old(self.stamp) is not None and old(%s), %s)" % (SOME_QUAL, ONE_RECORD),
                  "implies(old(self.stamp) is not None and not old(%s), %s)" % (SOME_QUAL, NOTHING)],
         local_ensures=["implies(old(self.stamp) is None, %s)" % CALLED_ONCE,
                        "implies(old(self.stamp) is not None and old(%s), %s)" % (SOME_QUAL, CALLED_ONCE),
                        "implies(old(self.stamp) is not None and not old(%s), %s)" % (SOME_QUAL, NOT_CALLED)])


# ---------------------------------------------------------------- Log.log: one record = time, one cell per
# (tag, prepared field) in order, newline
PSF = z3.Function("c22_ps", z3.IntSort(), z3.IntSort(), z3.IntSort())     # (log, t) -> number of cells of loggees < t


def _fmt_od(E, log, t):
    """the format odict of the t-th loggee: self.formats[tag_t]"""
    lg = E.rd_field(log, "loggees")
    ka = E.larrs(E.rd_field(lg, "_keys"))[0]
    fm = E.rd_field(E.rd_field(log, "formats"), "_d")
    return RefV(z3.Select(E.dvals(fm)[0], z3.Select(ka, t)), "ODFmt", nn=True)


def _nf_term(E, log, t):
    return E.llen(E.rd_field(_fmt_od(E, log, t), "_keys")) if False else \
        z3.Select(E.harr(("len",), [z3.IntSort()], z3.IntSort()), E.rd_field(_fmt_od(E, log, t), "_keys").t)


def _old_heap_eval(E, fn):
    heap = E.heap
    if E.heap_old is not None:
        E.heap = dict(E.heap_old)
    try:
        return fn()
    finally:
        E.heap = heap


def _ps_axioms(E, log):
    """the prefix sum is defined over the ENTRY state (the format odicts are not written: frame):
    PS(0) = 0, PS(t+1) = PS(t) + nfmt(t) for t >= 0 (instances are added where the function is applied, see ps()),
    and its monotonicity (lemma ps-monotone, proved by induction at the end of this file)"""
    if E.ghost.get("c22_ps_axioms"):
        return
    E.ghost["c22_ps_axioms"] = True
    t, u = z3.Int("t!ps"), z3.Int("u!ps")
    nf_t = _old_heap_eval(E, lambda: _nf_term(E, log, t))
    s = log.t
    E.pc.append(PSF(s, 0) == 0)
    E.pc.append(z3.ForAll([t, u], z3.Implies(z3.And(0 <= t, t < u), PSF(s, t) + nf_t <= PSF(s, u)),
                          patterns=[z3.MultiPattern(PSF(s, t), PSF(s, u))]))


@specfunc
def ps(E, log, t):
    """number of (tag, field) cells of the loggees before position t"""
    _ps_axioms(E, log)
    x = z3.simplify(zint(t))
    key = "c22_ps_inst_%s" % x.sexpr()
    if "!b" not in key and not E.ghost.get(key):
        E.ghost[key] = True                 # unfold the definition at x (forwards and backwards)
        s = log.t
        nf_x = _old_heap_eval(E, lambda: _nf_term(E, log, x))
        nf_p = _old_heap_eval(E, lambda: _nf_term(E, log, x - 1))
        E.pc.append(z3.Implies(x >= 0, z3.And(nf_x >= 0, PSF(s, x + 1) == PSF(s, x) + nf_x)))
        E.pc.append(z3.Implies(x >= 1, z3.And(nf_p >= 0, PSF(s, x) == PSF(s, x - 1) + nf_p)))
    return Sym(PSF(log.t, x), "int")


@specfunc
def nfmt(E, log, t):
    """number of prepared fields (format entries) of the t-th loggee"""
    return Sym(_nf_term(E, log, zint(t)), "int")


@specfunc
def cell_ok(E, cells, idx, log, t, j):
    """cells[idx] is the cell of field j of loggee t: its value when the loggee has the field, else a bare tab"""
    t, j, idx = zint(t), zint(j), zint(idx)
    fo = _fmt_od(E, log, t)
    fname = z3.Select(E.larrs(E.rd_field(fo, "_keys"))[0], j)
    sh = loggee_at(E, log, Sym(t, "int"))
    d = E.rd_field(sh, "_d")
    has = z3.Select(E.ddom(d), fname)
    val = z3.Select(E.dvals(d)[0], fname)
    c0, c1 = E.larrs(cells)
    return Sym(z3.If(has, z3.And(z3.Select(c0, idx) == V_, z3.Select(c1, idx) == val),
                     z3.Select(c0, idx) == TAB_), "bool")


def _n_cells_of(log):
    out = []
    for tag, loggee in log.loggees.items():
        for field in log.formats[tag]:
            out.append((V_, loggee[field]) if field in loggee else (TAB_, None))
    return out


ps.native = lambda log, t: sum(len(log.formats[tag]) for tag in list(log.loggees.keys())[:t])
nfmt.native = lambda log, t: len(log.formats[list(log.loggees.keys())[t]])

# the log is PREPARED (Log.prepare ran after the last addLoggee): a format odict per loggee tag, '%s'-style formats
PREP_FORMATS = ["forall(lambda k: implies(0 <= k and k < nloggees(self), tag_at(self, k) in self.formats))"]
SINGLE_FMT = ["formats_single(self)"]


@specfunc
def formats_single(E, log):
    """every format string is '%s' or '\\t%s' (what Log.prepare writes)"""
    fm = E.rd_field(log, "formats")
    tf = E.rd_field(fm, "tfmt").t
    r = z3.Int("r!fs")
    k = z3.Const("k!fs", NS)
    vals = E.harr(("dv", NAME.key(), FMT.key(), 0), [z3.IntSort(), NS], FS_)
    return Sym(z3.And(SINGLEF(tf), z3.ForAll([r, k], SINGLEF(z3.Select(z3.Select(vals, r), k)))), "bool")


formats_single.native = lambda log: all(f in ("%s", "\t%s") for f in [log.formats["_time"]] +
                                        [x for k, v in log.formats.items() if k != "_time" for x in v.values()])

BODY = "(cf.cells[{k}][0] == 1 or cf.cells[{k}][0] == 2)"
LOG_INV = ["cf.nnl == 0", "len(cf.cells) >= 1 and cf.cells[0][0] == 0",
           "forall(lambda k: implies(1 <= k and k < len(cf.cells), %s))" % BODY.format(k="k"),
           "forall(lambda t, j: implies(0 <= t and t < ti and 0 <= j and j < nfmt(self, t), "
           "cell_ok(cf.cells, 1 + ps(self, t) + j, self, t, j)))"]
OLDN = "old(len(self.file.cells))"


@specfunc
def some_multi(E, log):
    """some prepared field that its loggee has holds a tuple whose length is not 1"""
    t, j = z3.Int("t!sm"), z3.Int("j!sm")
    n = nloggees(E, log).t
    fo = _fmt_od(E, log, t)
    fname = z3.Select(E.larrs(E.rd_field(fo, "_keys"))[0], j)
    d = E.rd_field(loggee_at(E, log, Sym(t, "int")), "_d")
    return Sym(z3.Exists([t, j], z3.And(0 <= t, t < n, 0 <= j, j < _nf_term(E, log, t), z3.Select(E.ddom(d), fname),
                                        MULTI(z3.Select(E.dvals(d)[0], fname)))), "bool")


def _n_some_multi(log):
    for tag, loggee in log.loggees.items():
        for field in log.formats[tag]:
            if field in loggee and isinstance(loggee[field], tuple) and len(loggee[field]) != 1:
                return True
    return False


some_multi.native = _n_some_multi
FILE_SAME = ("self.file.nrec == old(self.file.nrec) and self.file.nwrites == old(self.file.nwrites) and "
             "len(self.file.cells) == old(len(self.file.cells))")


def _one_loggee_one_field(E):
    """INSTANCE (smallest shape that shows the disagreement): one loggee with one prepared field"""
    log = E.frame.env["self"]
    lg = E.rd_field(log, "loggees")
    keys = E.new_list(NAME, 1, [E.fresh("inst_tags", z3.ArraySort(z3.IntSort(), NS))])
    E.wr_field(lg, "_keys", keys)
    tag0 = Sym(z3.Select(E.larrs(keys)[0], 0), ("opaque", "c22name"))
    fm = E.rd_field(E.rd_field(log, "formats"), "_d")
    E.assume(E.dhas(fm, tag0))
    fo = E.dget(fm, tag0)
    E.wr_field(fo, "_keys", E.new_list(NAME, 1, [E.fresh("inst_fields", z3.ArraySort(z3.IntSort(), NS))]))


contract(FL, "Log.log", "C22", params=P, modifies=LOG_MOD, externals=EXT,
         assumes=MODEL + PREP_FORMATS + SINGLE_FMT, may_raise_at_call=False,
         raises={"TypeError": ["some_multi(self)", "self.stamp == self.store.stamp", FILE_SAME]},
         note="the TypeError outcome is what the CODE does (exactly when a logged field holds a tuple whose length "
              "is not 1: the fallback `'\\t%s' % value` raises again) - it contradicts the statement and is reported "
              "through the instance contract Log.log[v1]; callers are verified against the normal outcome only",
         loops={0: dict(index_name="ti", inv=["len(cf.cells) == 1 + ps(self, ti)"] + LOG_INV),
                1: dict(inv=["len(cf.cells) == 1 + ps(self, ti) + _i", "0 <= ti and ti < nloggees(self)",
                             "tag == tag_at(self, ti) and loggee is loggee_at(self, ti)",
                             "forall(lambda j: implies(0 <= j and j < _i, "
                             "cell_ok(cf.cells, 1 + ps(self, ti) + j, self, ti, j)))"] + LOG_INV)},
         ensures=[ONE_RECORD,
                  # the record: time cell, one cell per (tag, prepared field) in order, newline - and nothing else
                  "implies(not self.file.closed, len(self.file.cells) == %s + 2 + ps(self, nloggees(self)))" % OLDN,
                  "implies(not self.file.closed, self.file.cells[%s][0] == 0 and "
                  "self.file.cells[len(self.file.cells) - 1][0] == 3)" % OLDN,
                  "implies(not self.file.closed, forall(lambda t, j: implies(0 <= t and t < nloggees(self) and "
                  "0 <= j and j < nfmt(self, t), cell_ok(self.file.cells, %s + 1 + ps(self, t) + j, self, t, j))))"
                  % OLDN,
                  "forall(lambda k: implies(0 <= k and k < %s, self.file.cells[k] == oldlist(self.file.cells)[k]))"
                  % OLDN],
         local_ensures=["ct_len() == 1 and ct_is(0, 'file.write', self.file)"])


# ---------------------------------------------------------------- Log.change
class _Chg:
    """z3-level views used by the `change` specification (t = position of a tag in self.fields, j = position of a
    field name in that tag's field list).  `last` records are read in the ENTRY state (L0) and in the current one."""
    def __init__(self, E, log):
        # everything but the current `lasts` records is read in the ENTRY state: change() writes none of it (frame
        # obligations), and one fixed reading keeps all instances of a quantified clause syntactically equal
        self.E = E
        heap = E.heap
        if E.heap_old is not None:
            E.heap = dict(E.heap_old)
        try:
            self._read(E, log)
        finally:
            E.heap = heap
        self.D, self.V = _last_arrays(E)

    def _read(self, E, log):
        fo = E.rd_field(log, "fields")
        self.fkeys = E.rd_field(fo, "_keys")
        self.nf = E.llen(self.fkeys)
        self.ka = E.larrs(self.fkeys)[0]
        self.fvals = E.dvals(E.rd_field(fo, "_d"))[0]
        self.fdom = E.ddom(E.rd_field(fo, "_d"))
        lo = E.rd_field(E.rd_field(log, "lasts"), "_d")
        self.lvals, self.ldom = E.dvals(lo)[0], E.ddom(lo)
        go = E.rd_field(E.rd_field(log, "loggees"), "_d")
        self.gvals, self.gdom = E.dvals(go)[0], E.ddom(go)
        self.len = E.harr(("len",), [z3.IntSort()], z3.IntSort())
        self.el = E.harr(("el", NAME.key(), 0), [z3.IntSort(), z3.IntSort()], NS)
        name, _ty = E.fkey("Loggee", "_d")
        self.shd = E.harr(("f", name, 0), [z3.IntSort()], z3.IntSort())
        self.sdom = E.harr(("dom", NAME.key()), [z3.IntSort(), NS], z3.BoolSort())
        self.sval = E.harr(("dv", NAME.key(), VAL.key(), 0), [z3.IntSort(), NS], VS)
        self.D0, self.V0 = _last_arrays(E)

    def tag(self, t):
        return z3.Select(self.ka, t)

    def flist(self, t):
        return z3.Select(self.fvals, self.tag(t))

    def m(self, t):
        return z3.Select(self.len, self.flist(t))

    def fname(self, t, j):
        return z3.Select(z3.Select(self.el, self.flist(t)), j)

    def lr(self, t):
        return z3.Select(self.lvals, self.tag(t))

    def lg(self, t):
        return z3.Select(self.gvals, self.tag(t))

    def has(self, t, f):                                  # the loggee of tag t has field f now
        return z3.Select(z3.Select(self.sdom, z3.Select(self.shd, self.lg(t))), f)

    def cur(self, t, f):                                  # its current value
        return z3.Select(z3.Select(self.sval, z3.Select(self.shd, self.lg(t))), f)

    def in0(self, t, f):
        return z3.Select(z3.Select(self.D0, self.lr(t)), f)

    def val0(self, t, f):
        return z3.Select(z3.Select(self.V0, self.lr(t)), f)

    def vanish(self, t, j):
        """the field was recorded in `lasts` and the loggee no longer has it: loggee[field] raises KeyError"""
        f = self.fname(t, j)
        return z3.And(self.in0(t, f), z3.Not(self.has(t, f)))

    def diff(self, t, j):
        """the field differs from its last logged value, or had none and is present now"""
        f = self.fname(t, j)
        return z3.And(self.has(t, f), z3.Or(z3.Not(self.in0(t, f)), self.cur(t, f) != self.val0(t, f)))

    def active(self, t, j, tagn=""):
        i = z3.Int("i!act" + tagn)
        return z3.ForAll([i], z3.Implies(z3.And(0 <= i, i < j), z3.Not(self.vanish(t, i))))

    def upd(self, t, f, upto=None, need_active=True, tagn=""):
        """some examined occurrence of field name f in tag t's list differs"""
        j = z3.Int("j!upd" + tagn)
        hi = self.m(t) if upto is None else upto
        parts = [0 <= j, j < hi, self.fname(t, j) == f, self.diff(t, j)]
        if need_active:
            parts.append(self.active(t, j, tagn))
        return z3.Exists([j], z3.And(*parts))

    def rec_is(self, t, f, upd):
        """the current record of tag t at name f = the entry record overwritten with the loggee's value iff upd"""
        d = z3.Select(z3.Select(self.D, self.lr(t)), f)
        v = z3.Select(z3.Select(self.V, self.lr(t)), f)
        return z3.And(d == z3.Or(self.in0(t, f), upd), v == z3.If(upd, self.cur(t, f), self.val0(t, f)))

    def rec_same(self, t, f):
        d = z3.Select(z3.Select(self.D, self.lr(t)), f)
        v = z3.Select(z3.Select(self.V, self.lr(t)), f)
        return z3.And(d == self.in0(t, f), v == self.val0(t, f))


def _c(E, log):
    return _Chg(E, log)


@specfunc
def nftags(E, log):
    return Sym(_c(E, log).nf, "int")


@specfunc
def change_prepared(E, log):
    """structure Log.prepare builds for the rule `change`: every tag of self.fields has a loggee and a `lasts`
    record of its own; tags are pairwise distinct (odict keys)"""
    c = _c(E, log)
    a, b = z3.Int("a!cp"), z3.Int("b!cp")
    return Sym(z3.And(
        z3.ForAll([a], z3.Implies(z3.And(0 <= a, a < c.nf), z3.And(z3.Select(c.ldom, c.tag(a)),
                                                                   z3.Select(c.gdom, c.tag(a)),
                                                                   z3.Select(c.fdom, c.tag(a))))),
        z3.ForAll([a, b], z3.Implies(z3.And(0 <= a, a < b, b < c.nf),
                                     z3.And(c.tag(a) != c.tag(b), c.lr(a) != c.lr(b))))), "bool")


@specfunc
def some_diff(E, log, upto, act=True):
    """some examined field of the tags before position `upto` differs from its last logged value.  act=True: only
    fields the code reaches (no earlier field of the same loggee has vanished); act=False: any prepared field"""
    c = _c(E, log)
    t, j = z3.Int("t!sd"), z3.Int("j!sd")
    parts = [0 <= t, t < zint(upto), 0 <= j, j < c.m(t), c.diff(t, j)]
    if act is True:
        parts.append(c.active(t, j, "sd"))
    return Sym(z3.Exists([t, j], z3.And(*parts)), "bool")


@specfunc
def some_diff_cur(E, log, t, upto):
    """some field before position `upto` of tag t's list differs"""
    c = _c(E, log)
    j = z3.Int("j!sc")
    return Sym(z3.Exists([j], z3.And(0 <= j, j < zint(upto), c.diff(zint(t), j))), "bool")


@specfunc
def none_vanished(E, log, t, upto):
    c = _c(E, log)
    return Sym(c.active(zint(t), zint(upto), "nv"), "bool")


@specfunc
def some_vanished(E, log):
    """REGION of the known finding: a field recorded in `lasts` is no longer a field of its loggee"""
    c = _c(E, log)
    t, j = z3.Int("t!sv"), z3.Int("j!sv")
    return Sym(z3.Exists([t, j], z3.And(0 <= t, t < c.nf, 0 <= j, j < c.m(t), c.vanish(t, j))), "bool")


@specfunc
def lasts_state(E, log, done, cur_upto=None):
    """the `lasts` records: tags before position `done` hold the loggee's current value at exactly the names of their
    differing examined fields and are otherwise as at entry; tag `done` (if cur_upto is given) likewise for its first
    cur_upto fields; later tags and every other record are untouched"""
    c = _c(E, log)
    t = z3.Int("t!ls")
    f = z3.Const("f!ls", NS)
    r = z3.Int("r!ls")
    done = zint(done)
    out = [z3.ForAll([t, f], z3.Implies(z3.And(0 <= t, t < done), c.rec_is(t, f, c.upd(t, f, tagn="ls"))))]
    if cur_upto is not None:
        out.append(z3.ForAll([f], c.rec_is(done, f, c.upd(done, f, upto=zint(cur_upto), need_active=False, tagn="lc"))))
        out.append(z3.ForAll([t, f], z3.Implies(z3.And(done < t, t < c.nf), c.rec_same(t, f))))
    else:
        out.append(z3.ForAll([t, f], z3.Implies(z3.And(done <= t, t < c.nf), c.rec_same(t, f))))
    other = z3.ForAll([t], z3.Implies(z3.And(0 <= t, t < c.nf), r != c.lr(t)))
    out.append(z3.ForAll([r], z3.Implies(other, z3.And(z3.Select(c.D, r) == z3.Select(c.D0, r),
                                                       z3.Select(c.V, r) == z3.Select(c.V0, r)))))
    return Sym(z3.And(*out), "bool")


@specfunc
def lasts_untouched(E, log):
    D, V = _last_arrays(E)
    D0, V0 = _last_arrays(E, old=True)
    return Sym(z3.And(D == D0, V == V0), "bool")


@specfunc
def cur_is(E, log, t, tag, last, loggee, fields):
    """the locals of the outer loop body are the t-th tag, its `lasts` record, its loggee and its field list"""
    c = _c(E, log)
    t = zint(t)
    return Sym(z3.And(tag.t == c.tag(t), last.t == c.lr(t), loggee.t == c.lg(t), fields.t == c.flist(t)), "bool")


def _frame_but_lasts(E, outcome, result, exc):
    """frame of Log.change: everything except the `lasts` records (stated exactly by lasts_state / lasts_untouched)
    and the declared effect of log() is proved unchanged by the engine's own frame check"""
    from pyvc.verify import check_frame
    saved = dict(E.heap)
    for k in (LKD, LKV):
        E.heap.pop(k, None)
    try:
        check_frame(E, REG.active)
    finally:
        E.heap.clear()
        E.heap.update(saved)


def _exit_rebind(index_name, invs, final):
    """loop-exit ghost: when a for-loop is left by its condition its index equals the length of the iterated list;
    the invariants, which the path condition holds at the index, are restated AT that length (substitution of equals:
    a logical consequence of the path condition, added only to spare the solver the rewriting under quantifiers)"""
    def hook(E):
        env = E.frame.env
        idx = env[index_name]
        fin = Sym(z3.simplify(zint(final(E))), "int")
        saved = {k: env[k] for k in (index_name, "_i")}
        same = zint(idx) == fin.t
        try:
            env[index_name] = fin
            env["_i"] = fin
            for text in invs:
                E.pc.append(z3.Implies(same, E.spec_eval(text)))
        finally:
            env.update(saved)
    return hook


DIFF_CODE = "some_diff(self, nftags(self))"
DIFF_STMT = "some_diff(self, nftags(self), False)"
CH_INV = [NOT_CALLED, "0 <= ti and ti <= nftags(self)"]
contract(FL, "Log.change", "C22", params=P, modifies=LOG_MOD, externals=EXT, frame=False,
         extra_posts=[_frame_but_lasts],
         assumes=MODEL + ["change_prepared(self)"],
         loops={0: dict(index_name="ti",
                        inv=CH_INV + ["iff(change, some_diff(self, ti))", "lasts_state(self, ti)"],
                        exit=_exit_rebind("ti", ["iff(change, some_diff(self, ti))", "lasts_state(self, ti)"],
                                          lambda E: nftags(E, E.frame.env["self"]))),
                1: dict(inv=CH_INV + ["ti < nftags(self)", "cur_is(self, ti, tag, last, loggee, fields)",
                                      "none_vanished(self, ti, _i)",
                                      "iff(change, some_diff(self, ti) or some_diff_cur(self, ti, _i))",
                                      "lasts_state(self, ti, _i)"])},
         ensures=[
             # first run
             "implies(old(self.stamp) is None, %s and lasts_untouched(self))" % ONE_RECORD,
             # later runs, exactly what the code does: a record iff some REACHED field differs; `lasts` then holds the
             # current values of exactly the differing reached fields, everything else is untouched
             "implies(old(self.stamp) is not None and %s, %s)" % (DIFF_CODE, ONE_RECORD),
             "implies(old(self.stamp) is not None and not %s, %s)" % (DIFF_CODE, NOTHING),
             "implies(old(self.stamp) is not None, lasts_state(self, nftags(self)))"],
         local_ensures=[
             "implies(old(self.stamp) is None, %s)" % CALLED_ONCE,
             "implies(old(self.stamp) is not None and %s, %s)" % (DIFF_CODE, CALLED_ONCE),
             "implies(old(self.stamp) is not None and not %s, %s)" % (DIFF_CODE, NOT_CALLED),
             # the STATEMENT (a record whenever a logged field differs from its last logged value) holds whenever no
             # recorded field has vanished from its loggee; the unrestricted clause is on the instance Log.change[v1]
             "implies(old(self.stamp) is not None and not some_vanished(self), iff(%s, %s))"
             % (DIFF_STMT, CALLED_ONCE)])


def _one_tag_two_fields(E):
    """INSTANCE: one tag with two prepared fields (the smallest shape where an earlier vanished field hides a later
    differing one)"""
    log = E.frame.env["self"]
    fo = E.rd_field(log, "fields")
    keys = E.new_list(NAME, 1, [E.fresh("inst_tags", z3.ArraySort(z3.IntSort(), NS))])
    E.wr_field(fo, "_keys", keys)
    tag0 = Sym(z3.Select(E.larrs(keys)[0], 0), ("opaque", "c22name"))
    E.dset(E.rd_field(fo, "_d"), tag0, E.new_list(NAME, 2, [E.fresh("inst_fields", z3.ArraySort(z3.IntSort(), NS))]))


CHANGE_V1 = contract(
    FL, "Log.change", "C22", params=P, modifies=LOG_MOD, externals=EXT, frame=False, setup=_one_tag_two_fields,
    assumes=MODEL + ["change_prepared(self)"], findings={"change-vanished-field": "some_vanished(self)"},
    local_ensures=["implies(old(self.stamp) is not None, iff(%s, %s))" % (DIFF_STMT, CALLED_ONCE)],
    note="instance: one tag, two prepared fields; the STATEMENT's clause without the restriction to `no recorded "
         "field has vanished`")

# INSTANCES of the statement on the smallest shapes that show a disagreement (concrete loop bounds, so a refuted clause
# comes with a counter-model that is replayed natively).  Statement: a logger run writes its record - for ANY values
LOG_V1 = contract(FL, "Log.log", "C22", params=P, modifies=LOG_MOD, externals=EXT, setup=_one_loggee_one_field,
                  assumes=MODEL + PREP_FORMATS + SINGLE_FMT, ensures=[ONE_RECORD],
                  note="instance: one loggee, one prepared field; no exception is declared (the statement promises a "
                       "record for any history of share writes)")


# ---------------------------------------------------------------- Log.logStreak / Log.streak
# The one logged field of the FIRST loggee holds a list (MutableSequence) of values [seq case] or a single value that
# is neither a sequence nor a mapping [scalar case].  (A MutableMapping value - popitem() order - is not covered.)
classdecl("LoggeeSeq", fields=dict(stamp=Opt(REAL), _keys=List(NAME), _d=Dict(NAME, List(VAL))),
          truthy=lambda E, o: E.llen(E.rd_field(o, "_keys")) > 0)
classdecl("ODLoggeesSeq", fields=dict(_keys=List(NAME), _d=Dict(NAME, Ref("LoggeeSeq"))),
          truthy=lambda E, o: E.llen(E.rd_field(o, "_keys")) > 0)
for _cls in ("ODLoggeesSeq",):
    REG.classes[_cls].hooks.update(REG.classes["ODLoggees"].hooks)
for _k in (("contains", None), ("getitem", None), ("getattr", "keys")):
    REG.classes["LoggeeSeq"].hooks[_k] = REG.classes["Loggee"].hooks[_k]
classdecl("LogSeq", file=FL, bases=("Log",), fields=dict(loggees=Ref("ODLoggeesSeq")))
REG.classes["LogSeq"].source = "Log"


def _ext_isinstance(E, args, kwargs):
    v, t = args
    ts = t if isinstance(t, tuple) else (t,)
    if all(x in (collections.abc.MutableSequence, collections.abc.MutableMapping, collections.abc.Mapping)
           for x in ts):
        if isinstance(v, ListV):
            return collections.abc.MutableSequence in ts
        if isinstance(v, Sym) and v.k == ("opaque", "c22val"):
            return False                      # scalar case: the value is neither a sequence nor a mapping
        if isinstance(v, RefV) and v.cls == "C22Entry":
            return E.rd_field(v, "ismap") if collections.abc.Mapping in ts else False
    return B.py_isinstance(E, v, t)


def _ext_deque(E, args, kwargs):
    if args or kwargs:
        raise Unsupported("deque(...) with arguments")
    return E.new_list(VAL, 0, kind="deque")


EXT2 = dict(EXT)
EXT2[isinstance] = _ext_isinstance
EXT2[collections.deque] = _ext_deque


class _Stk:
    """entry-state reading of what logStreak looks at: first tag, first loggee, the field, its value"""
    def __init__(self, E, log, seq):
        heap = E.heap
        if E.heap_old is not None:
            E.heap = dict(E.heap_old)
        try:
            lo = E.rd_field(log, "loggees")
            keys = E.rd_field(lo, "_keys")
            self.nlog = E.llen(keys)
            self.tag0 = z3.Select(E.larrs(keys)[0], 0)
            tag0 = Sym(self.tag0, ("opaque", "c22name"))
            ld = E.rd_field(lo, "_d")
            self.lg0 = RefV(z3.Select(E.dvals(ld)[0], self.tag0), "LoggeeSeq" if seq else "Loggee", nn=True)
            lkeys = E.rd_field(self.lg0, "_keys")
            self.nkeys = E.llen(lkeys)
            fd = E.rd_field(E.rd_field(log, "fields"), "_d")
            self.tag_in_fields = E.dhas(fd, tag0)
            flist = ListV(z3.Select(E.dvals(fd)[0], self.tag0), NAME)
            self.nfl = E.llen(flist)
            first_key = z3.Select(E.larrs(lkeys)[0], 0)
            first_fld = z3.Select(E.larrs(flist)[0], 0)
            self.field = z3.If(self.nfl > 0, first_fld, first_key)
            fm = E.rd_field(E.rd_field(log, "formats"), "_d")
            self.tag_in_formats = E.dhas(fm, tag0)
            fo = RefV(z3.Select(E.dvals(fm)[0], self.tag0), "ODFmt", nn=True)
            self.fld_in_formats = E.dhas(E.rd_field(fo, "_d"), Sym(first_fld, ("opaque", "c22name")))
            sd = E.rd_field(self.lg0, "_d")
            self.present = z3.Select(E.ddom(sd), self.field)
            self.applies = z3.And(self.nlog > 0, self.nkeys > 0, self.present)
            if seq:
                self.vref = z3.Select(E.dvals(sd)[0], self.field)
                self.n0 = z3.Select(E.harr(("len",), [z3.IntSort()], z3.IntSort()), self.vref)
                self.el0 = z3.Select(E.harr(("el", VAL.key(), 0), [z3.IntSort(), z3.IntSort()], VS), self.vref)
            else:
                self.val = z3.Select(E.dvals(sd)[0], self.field)
        finally:
            E.heap = heap


@specfunc
def streak_prepared(E, log, seq):
    """what Log.prepare / addLoggee guarantee for the rule `streak`: the first tag has a field-list entry and, when
    that list is not empty, a format for its first field"""
    s = _Stk(E, log, seq)
    return Sym(z3.Implies(s.nlog > 0, z3.And(s.tag_in_fields,
                                              z3.Implies(s.nfl > 0, z3.And(s.tag_in_formats, s.fld_in_formats)))), "bool")


@specfunc
def streak_applies(E, log, seq):
    """there is a loggee, it has fields, and it has the logged field"""
    return Sym(_Stk(E, log, seq).applies, "bool")


@specfunc
def streak_list(E, log):
    """the sequence the streak rule drains: value of the logged field of the first loggee (entry state)"""
    return ListV(_Stk(E, log, True).vref, VAL)


@specfunc
def streak_n0(E, log):
    return Sym(_Stk(E, log, True).n0, "int")


@specfunc
def streak_el0(E, log, k):
    """element k of the sequence as it was at entry"""
    return Sym(z3.Select(_Stk(E, log, True).el0, zint(k)), ("opaque", "c22val"))


@specfunc
def streak_val(E, log):
    return Sym(_Stk(E, log, False).val, ("opaque", "c22val"))


@specfunc
def line_is(E, cells, at, v):
    """cells[at:at+3] is one streak line: time, the value v, newline"""
    c0, c1 = E.larrs(cells)
    at = zint(at)
    return Sym(z3.And(z3.Select(c0, at) == T_, z3.Select(c0, at + 1) == V_, z3.Select(c1, at + 1) == v.t,
                      z3.Select(c0, at + 2) == NL_), "bool")


def _n_streak(log):
    if not log.loggees:
        return None
    tag, loggee = list(log.loggees.items())[0]
    if not loggee:
        return None
    field = log.fields[tag][0] if log.fields[tag] else loggee.keys()[0]
    return loggee[field] if field in loggee else None


streak_prepared.native = lambda log, seq: True
streak_applies.native = lambda log, seq: _n_streak(log) is not None
streak_list.native = lambda log: _n_streak(log)

SEQ = dict(self=Ref("LogSeq"))
N0 = "streak_n0(self)"
SAME_PREFIX = ("forall(lambda k: implies(0 <= k and k < %s, self.file.cells[k] == oldlist(self.file.cells)[k]))" % OLDN)
STK_INV_A = ["len(value) + len(d) == %s" % N0, "value is streak_list(self)",
             "forall(lambda k: implies(0 <= k and k < len(value), value[k] == streak_el0(self, k)))",
             "forall(lambda k: implies(0 <= k and k < len(d), d[k] == streak_el0(self, len(value) + k)))"]
STK_INV_B = ["len(value) == 0 and value is streak_list(self)", "len(d) <= %s" % N0,
             "forall(lambda k: implies(0 <= k and k < len(d), d[k] == streak_el0(self, %s - len(d) + k)))" % N0,
             "len(cf.cells) == 3 * (%s - len(d)) and cf.nnl == %s - len(d)" % (N0, N0),
             "forall(lambda q: implies(0 <= q and q < %s - len(d), line_is(cf.cells, 3 * q, streak_el0(self, q))))" % N0]
contract(FL, "Log.logStreak", "C22", params=SEQ, externals=EXT2,
         assumes=MODEL + SINGLE_FMT + ["streak_prepared(self, True)", "streak_list(self) is not self.file.cells"],
         modifies=LOG_MOD + ["streak_list(self)[*]"],
         loops={0: dict(inv=STK_INV_A), 2: dict(inv=STK_INV_B)},
         ensures=["self.stamp == self.store.stamp",
                  # the queue is left empty, every element is logged exactly once, first in first out
                  "implies(streak_applies(self, True), len(streak_list(self)) == 0)",
                  "implies(streak_applies(self, True) and not self.file.closed, "
                  "len(self.file.cells) == %s + 3 * %s and self.file.nrec == old(self.file.nrec) + %s and "
                  "self.file.nwrites == old(self.file.nwrites) + 1)" % (OLDN, N0, N0),
                  "implies(streak_applies(self, True) and not self.file.closed, forall(lambda q: implies(0 <= q and "
                  "q < %s, line_is(self.file.cells, %s + 3 * q, streak_el0(self, q)))))" % (N0, OLDN),
                  SAME_PREFIX,
                  "implies(not streak_applies(self, True) or self.file.closed, %s)" % FILE_SAME,
                  "implies(not streak_applies(self, True), len(streak_list(self)) == old(len(streak_list(self))))"],
         local_ensures=["implies(streak_applies(self, True), ct_len() == 1 and ct_is(0, 'file.write', self.file))",
                        "implies(not streak_applies(self, True), ct_len() == 0)"],
         note="seq case: the logged field holds a list")
contract(FL, "Log.logStreak", "C22", params=P, externals=EXT2,
         assumes=MODEL + SINGLE_FMT + ["streak_prepared(self, False)"], modifies=LOG_MOD,
         ensures=["self.stamp == self.store.stamp",
                  "implies(streak_applies(self, False) and not self.file.closed, "
                  "len(self.file.cells) == %s + 3 and self.file.nrec == old(self.file.nrec) + 1 and "
                  "self.file.nwrites == old(self.file.nwrites) + 1 and "
                  "line_is(self.file.cells, %s, streak_val(self)))" % (OLDN, OLDN),
                  SAME_PREFIX,
                  "implies(not streak_applies(self, False) or self.file.closed, %s)" % FILE_SAME],
         note="scalar case: the logged field holds one value that is neither a sequence nor a mapping")
